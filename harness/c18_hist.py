"""C18, histories: the headers ALONE determine the row structure — also for the second, third, ...
model-less data sheet that one long-lived ContentIndexParser (or one process) reads.

model_inference.py is pure, but its caller lives for a whole run and keeps state (the registry
self.data_sheets); a cache of inferred models added there, on the class, or in the module
(keyed by column names, by sheet name, by class name, ...) makes the model of a sheet depend on
what was read before.  The streams of c18.run exercise every header list on fresh objects; this
module exercises SEQUENCES:

  sessions      several workbooks compiled one after the other in this process, each by its own
                ContentIndexParser; the workbooks of a session share a small pool of sheet names
                and a FAMILY of related schemas (same column names with other / without
                annotations, other defaults, other padding, permuted, one column renamed, one
                column more or less, the same sub-columns under another prefix, identical headers
                with other rows), so that any coarse key collides;
  one parser    is driven row by row (`_process_content_index_table` on one-row index sheets:
                plain loads, loads with a user data_model, concat / filter / sort with new_name,
                re-registrations, registry hits, loads that fail: missing sheet, unreadable rows,
                undefined model, missing new_name, unknown operation, no sheet_name, draft rows)
                and once more as the constructor does it (the whole index, a segment of it
                possibly in a nested index sheet).

Oracles (on the implementation, independent of the Gallina model):
  A  every registered sheet holds, for every row, the data the explicit hand-built model of the
     row's OWN source sheet gives in isolation (fresh RowParser/CellParser), and an inferred
     row_model has the structure the source's headers denote;
  B  a row whose sheet names are all unregistered gives what the same row gives on a fresh parser;
  C  a failed row leaves the registry as it was.
Correspondence: the same rows through the extracted state machine Row/InferCip.v (scan_all / run)
and through the ONE implementation object, comparing the registry after every row (names in
order, user model vs inferred structure, identity classes of the model objects, sources).
"""
import csv
import json
import os
import shutil
import subprocess
import sys
import tempfile
import types
import warnings

import c18 as K
from common import enc_str, parse_sexp, dec_str, run_cli_mode, ERR

INDEX_HEADERS = ["type", "sheet_name", "new_name", "data_model", "operation.type", "operation.expression",
                 "operation.order", "status"]
ID_FIELD = ("ID", ("leaf", K.NOPADS, ("str", False, None)))
SHEET_NAMES = ["data", "people", "a", "b", "A", "sheet 1", "x_y", "t2", "Data", "people2"]
MODULE = "c18_user_models"
SEP = "~"


# ======================================================================== families of related schemas
def _leafmap(s, f):
    if s[0] == "leaf":
        return f(s)
    if s[0] == "rec":
        return ("rec", [(n, _leafmap(e, f)) for n, e in s[1]])
    return ("spread", [_leafmap(e, f) for e in s[1]])


def v_same(rng, fs):
    return [(n, _leafmap(e, lambda x: x)) for n, e in fs]


def v_strip(rng, fs):
    """the same column names without any annotation"""
    return [(n, _leafmap(e, lambda x: ("leaf", K.NOPADS, ("str", False, None)))) for n, e in fs]


def v_retype(rng, fs):
    """the same column names with other types / defaults (entries of one list keep one type)"""
    def go(s):
        if s[0] == "leaf":
            return ("leaf", s[1], K.gen_leaf(rng))
        if s[0] == "rec":
            return ("rec", [(n, go(e)) for n, e in s[1]])
        first = go(s[1][0])
        return ("spread", [first] + [K.revary(rng, first, False) for _ in s[1][1:]])
    return [(n, go(e)) for n, e in fs]


def v_redefault(rng, fs):
    return [(n, K.revary(rng, e, False)) for n, e in fs]


def v_repad(rng, fs):
    return [(n, _leafmap(e, lambda x: ("leaf", K.gen_pads(rng, True), x[2]))) for n, e in fs]


def v_permute(rng, fs):
    def go(s):
        if s[0] == "rec":
            inner = [(n, go(e)) for n, e in s[1]]
            rng.shuffle(inner)
            return ("rec", inner)
        if s[0] == "spread":
            return ("spread", [go(e) for e in s[1]])
        return s
    out = [(n, go(e)) for n, e in fs]
    rng.shuffle(out)
    return out


def _fresh_name(rng, used):
    for _ in range(50):
        n = rng.choice(K.NAMES)
        if n not in used and n != "ID":
            return n
    return "zz9"


def v_rename(rng, fs):
    """one top-level field under another name (for a dotted field: the same sub-columns under another prefix)"""
    if not fs:
        return fs
    out = list(fs)
    i = rng.randrange(len(out))
    out[i] = (_fresh_name(rng, [n for n, _ in fs]), out[i][1])
    return out


def v_more_or_less(rng, fs):
    out = list(fs)
    if len(out) > 1 and rng.random() < 0.5:
        out.pop(rng.randrange(len(out)))
    else:
        out.insert(rng.randrange(len(out) + 1), (_fresh_name(rng, [n for n, _ in fs]), K.gen_sty(rng, 1, False)))
    return out


VARIANTS = [("same", v_same), ("strip", v_strip), ("retype", v_retype), ("redefault", v_redefault), ("repad", v_repad),
            ("permute", v_permute), ("rename", v_rename), ("more_or_less", v_more_or_less)]


def usable(fs, by_name):
    """a schema of the family the row oracle applies to"""
    return K.homogeneous(fs) and (by_name or not K.has_dot_default(fs)) and K.csv_safe(K.py_headers_of(fs)) \
        and all(n != "ID" for n, _ in fs)


def gen_family(rng, by_name, size):
    """[(variant name, schema)]: a base schema and relatives of it"""
    for _ in range(20):
        base = K.gen_schema(rng, rng.choice([1, 2, 3]))
        if usable(base, by_name):
            break
    else:
        base = [("v", ("leaf", K.NOPADS, ("int", 3)))]
    fam = [("base", base)]
    while len(fam) < size:
        vn, f = rng.choice(VARIANTS)
        src = rng.choice(fam)[1]
        cand = f(rng, src)
        if usable(cand, by_name):
            fam.append((vn, cand))
        else:
            fam.append(("same", v_same(rng, src)))
    return fam


# ======================================================================== workbooks and index rows
def damage_row(rng, full, hs, row):
    """make one cell unreadable for its typed column; False when the schema has no such column"""
    cands = [h for h, lf in zip(hs, K.leaves_in_header_order(full)) if lf[0] in ("int", "float")]
    if not cands:
        return False
    row[rng.choice(cands)] = rng.choice(["zz", "1,5x", "--"])
    return True


TEMPLATED = {"str": ["{{ 'x' ~ 'y' }}", "{@ 'a b' @}"], "int": ["{{ 2 + 3 }}", "{@ 7 @}"], "float": ["{{ 1.5 * 2 }}"],
             "bool": ["{{ 1 == 2 }}", "{@ True @}"]}


def templated_cell(rng, lf):
    """a cell that goes through the template / native-type path of the CellParser (context {}); None: leave the cell"""
    if lf[0] in TEMPLATED:
        return rng.choice(TEMPLATED[lf[0]])
    if lf[0] == "ann" and lf[1] in ("list", ("L", "str")):
        return "{@ ['p', 'q'] @}"
    if lf[0] == "ann" and lf[1] == ("L", "int"):
        return "{@ [1, 2] @}"
    return None


def mk_sheet(rng, name, variant, schema, n_rows, bad):
    full = list(schema)
    full.insert(0 if rng.random() < 0.8 else rng.randrange(len(full) + 1), ID_FIELD)
    hs = K.py_headers_of(full)
    rows = []
    if not any(K.bare_list(lf) for lf in K.leaves_in_header_order(full)):
        for i in range(n_rows):
            r = K.gen_row(rng, full, hs)
            if rng.random() < 0.2:
                h, lf = rng.choice(list(zip(hs, K.leaves_in_header_order(full))))
                r[h] = templated_cell(rng, lf) or r[h]
            r["ID"] = f"{name}{SEP}{i}"
            rows.append(r)
    damaged = bool(bad and rows and damage_row(rng, full, hs, rng.choice(rows)))
    return dict(name=name, variant=variant, schema=full, headers=hs, rows=rows, damaged=damaged)


def gen_workbook(rng, family, names):
    n = rng.choice([1, 2, 2, 3, 3, 4, 5])
    sheets = []
    for nm in rng.sample(names, min(n, len(names))):
        vn, sc = rng.choice(family)
        sheets.append(mk_sheet(rng, nm, vn, sc, rng.choice([0, 1, 2, 2, 3]), rng.random() < 0.1))
    module = None
    if rng.random() < 0.6:
        module = {}
        for i in range(rng.choice([1, 1, 2, 3])):
            if rng.random() < 0.75:
                module[f"M{i}"] = rng.choice(sheets)["schema"]           # the explicit model of one of the sheets
            else:
                module[f"M{i}"] = [ID_FIELD] + rng.choice(family)[1]     # of a relative
    return dict(sheets=sheets, module=module)


FILTER_EXPRS = ["ID != ''", "True", "len(ID) > 0"]


def gen_ops(rng, wb, names_pool):
    names = [s["name"] for s in wb["sheets"]]
    ghost = [n for n in names_pool if n not in names] or ["ghost"]
    aliases = ["all", "sel", rng.choice(names), rng.choice(ghost)]
    mnames = list(wb["module"] or {}) or ["M0"]
    targets = []
    ops = []

    def pick():
        r = rng.random()
        if r < 0.72 or not targets:
            return rng.choice(names) if r < 0.95 else rng.choice(ghost)
        if r < 0.94:
            return rng.choice(targets)
        return rng.choice(ghost)

    def dm():
        r = rng.random()
        return "" if r < 0.62 else rng.choice(mnames) if r < 0.95 else "Undefined"

    for _ in range(rng.choice([2, 3, 4, 5, 6, 8, 10])):
        k = rng.random()
        op = dict(names=[], new_name="", data_model=dm(), type="", expr="", order="", draft=rng.random() < 0.03)
        if k < 0.45:
            op["names"] = [pick()]
            op["new_name"] = "" if rng.random() < 0.8 else rng.choice(aliases)
        elif k < 0.65:
            first = pick()
            op["names"] = [first] + [first if rng.random() < 0.3 else pick() for _ in range(rng.choice([1, 1, 2]))]
            op["type"] = "concat" if rng.random() < 0.7 else ""
            op["new_name"] = rng.choice(aliases) if rng.random() < 0.85 else ""
        elif k < 0.80:
            op["names"] = [pick()] + ([pick()] if rng.random() < 0.1 else [])
            op["type"], op["expr"] = "filter", rng.choice(FILTER_EXPRS)
            op["new_name"] = rng.choice(aliases) if rng.random() < 0.9 else ""
        elif k < 0.92:
            op["names"] = [pick()]
            op["type"], op["expr"], op["order"] = "sort", "ID", rng.choice(["", "ascending", "descending", "Descending"])
            op["new_name"] = rng.choice(aliases) if rng.random() < 0.9 else ""
        elif k < 0.96:
            op["names"] = [pick()]
            op["type"], op["new_name"] = rng.choice(["merge", "Concat", "FILTER"]), rng.choice(aliases)
        else:
            op["new_name"] = rng.choice(aliases + [""])
        if not op["draft"] and op["names"]:
            targets.append(op["new_name"] or op["names"][0])
        ops.append(op)
    return ops


def op_cells(op):
    return ["data_sheet", ";".join(op["names"]), op["new_name"], op["data_model"], op["type"], op["expr"], op["order"],
            "draft" if op.get("draft") else ""]


# ======================================================================== running the implementation
class Prepared:
    """a workbook on disk + what isolation says about it"""

    def __init__(self, wb):
        from rpft.parsers.common.rowparser import RowParser
        from rpft.parsers.common.cellparser import CellParser
        from rpft.parsers.common.sheetparser import SheetParser
        import tablib
        self.wb = wb
        self.sheets = {s["name"]: s for s in wb["sheets"]}
        for s in wb["sheets"]:
            s["schema"] = K.fix_schema(s["schema"])
        self.dir = tempfile.mkdtemp(prefix="c18hist")
        for s in wb["sheets"]:
            K.write_csv(os.path.join(self.dir, s["name"] + ".csv"), s["headers"], s["rows"])
        # user models: built by hand, independent of model_inference
        self.models = {}
        if wb["module"] is not None:
            for mn, sc in wb["module"].items():
                self.models[mn] = K.build_explicit(K.fix_schema(sc))
        self.model_name_by_id = {id(c): mn for mn, c in self.models.items()}
        self.module_name = MODULE if wb["module"] is not None else None

        def iso(model, s):
            t = tablib.Dataset(headers=list(s["headers"]))
            for r in s["rows"]:
                t.append([r[h] for h in s["headers"]])
            r = run_cli_mode(lambda: SheetParser(RowParser(model, CellParser()), t).parse_all())
            if r[0] != "ok":
                return None
            return {row.ID: K.nan_safe(row.dict()) for row in r[1]}
        # the denoted (explicit) model of every sheet and its rows read in isolation
        self.denoted = {n: K.py_denote(s["schema"])[0] for n, s in self.sheets.items()}
        self.iso_inferred = {n: iso(K.build_explicit(s["schema"]), s) for n, s in self.sheets.items()}
        self.iso_user = {mn: {n: iso(c, s) for n, s in self.sheets.items()} for mn, c in self.models.items()}

    def install_module(self):
        if self.module_name:
            mod = types.ModuleType(self.module_name)
            for mn, c in self.models.items():
                setattr(mod, mn, c)
            sys.modules[self.module_name] = mod

    def write_index(self, rows, name="content_index"):
        with open(os.path.join(self.dir, name + ".csv"), "w", encoding="utf-8", newline="") as f:
            w = csv.writer(f)
            w.writerow(INDEX_HEADERS)
            for r in rows:
                w.writerow(r)

    def new_parser(self):
        from rpft.parsers.creation.contentindexparser import ContentIndexParser
        from rpft.parsers.sheets import CSVSheetReader
        self.install_module()
        with warnings.catch_warnings():
            warnings.simplefilter("ignore")
            return ContentIndexParser(CSVSheetReader(self.dir), self.module_name)

    def feed(self, cip, op):
        """one index row through the long-lived object, as _process_content_index_table does for
        every row of the index"""
        import tablib
        from rpft.parsers.sheets import Sheet
        t = tablib.Dataset(headers=list(INDEX_HEADERS))
        t.append(op_cells(op))
        with warnings.catch_warnings():
            warnings.simplefilter("ignore")
            return run_cli_mode(cip._process_content_index_table, Sheet(cip.reader, "content_index", t))

    def close(self):
        shutil.rmtree(self.dir, ignore_errors=True)
        sys.modules.pop(MODULE, None)


def classify(r):
    if r[0] == "ok":
        return "ok"
    kind, msg = r[1], r[2] if len(r) > 2 else ""
    if kind == "ParserError" and "Sheet not found" in msg:
        return 14
    if kind == "critical":
        for code, frag in ((11, "at least one sheet_name"), (12, "a new_name has to be"), (13, "Unknown operation"),
                           (15, "Undefined data_model_name"), (16, "Cannot concatenate data_sheets")):
            if frag in msg:
                return code
    return "other"


def snapshot(P, cip):
    out, seen = [], []
    for name, ds in cip.data_sheets.items():
        rm = ds.row_model
        if id(rm) in P.model_name_by_id:
            desc = ("user", P.model_name_by_id[id(rm)])
        else:
            try:
                desc = ("inf", K.canon_type(rm))
            except K.OutOfUniverse as e:
                desc = ("oou", str(e))
        for j, o in enumerate(seen):
            if o is rm:
                cls = j
                break
        else:
            cls = len(seen)
            seen.append(rm)
        try:
            rows = {rid: K.nan_safe(r.dict()) for rid, r in ds.rows.items()}
        except Exception as e:
            rows = {"<rows unreadable>": repr(e)}
        out.append(dict(name=name, desc=desc, cls=cls, rows=rows))
    return out


def src_of(rid):
    return rid.rsplit(SEP, 1)[0] if isinstance(rid, str) and SEP in rid else None


def check_entry(P, e, fail, where):
    """oracle A on one registered sheet"""
    srcs = []
    for rid, got in e["rows"].items():
        s = src_of(rid)
        if s not in P.sheets:
            fail("history-dependent-rows", f"{where}: sheet {e['name']!r} holds a row {rid!r} of no sheet of the workbook")
            return
        if s not in srcs:
            srcs.append(s)
        if e["desc"][0] == "user":
            want = (P.iso_user[e["desc"][1]][s] or {}).get(rid)
            how = f"user model {e['desc'][1]}"
        else:
            want = (P.iso_inferred[s] or {}).get(rid)
            how = "the explicit model its headers denote"
        if want is None or got != want:
            fail("history-dependent-rows",
                 f"{where}: sheet {e['name']!r}, row {rid!r} of source sheet {s!r} (headers {P.sheets[s]['headers']!r}) reads "
                 f"{got!r}; under {how}, in isolation: {want!r}")
            return
    if e["desc"][0] == "oou":
        fail("history-dependent-model", f"{where}: sheet {e['name']!r} has a row model outside the universe: {e['desc'][1]}")
    elif e["desc"][0] == "inf" and srcs:
        want = P.denoted[srcs[-1]]
        if all(e["desc"][1] != P.denoted[s] for s in srcs):
            fail("history-dependent-model",
                 f"{where}: sheet {e['name']!r} (rows of {srcs!r}, headers {P.sheets[srcs[-1]]['headers']!r}) has the inferred "
                 f"row model {e['desc'][1]!r}; its headers denote {want!r}")


def entry_of(snap, name):
    for e in snap:
        if e["name"] == name:
            return e
    return None


def same_entry(a, b):
    return a is not None and b is not None and a["desc"] == b["desc"] and a["rows"] == b["rows"]


# ---- decoding the model's answers
def dec_registry(x):
    out = []
    for name, rm, srcs in x:
        if rm[0] == 0:
            desc, key = ("user", dec_str(rm[1])), ("u", dec_str(rm[1]))
        else:
            desc, key = ("inf", K.dec_ty(rm[3])), ("i", rm[1], dec_str(rm[2]))
        out.append(dict(name=dec_str(name), desc=desc, key=key, srcs=[dec_str(s) for s in srcs]))
    classes = []
    for e in out:
        k = e["key"][:2]
        if k not in classes:
            classes.append(k)
        e["cls"] = classes.index(k)
    return out


def dec_outcome(x):
    if x[0] == 999999:
        return x[1] if x[1] in (11, 12, 13, 14, 15, 16) else "other", None
    return "ok", dec_registry(x[1])


def enc_env(P):
    sheets = " ".join(f"({enc_str(s['name'])} {K.enc_headers(s['headers'])} {1 if P.iso_inferred[s['name']] is not None else 0})"
                      for s in P.wb["sheets"])
    if P.wb["module"] is None:
        mod = "()"
    else:
        mod = "((" + " ".join(
            "(" + enc_str(mn) + " (" + " ".join(enc_str(n) for n, v in P.iso_user[mn].items() if v is not None) + "))"
            for mn in P.models) + "))"
    return f"(({sheets}) {mod})"


def enc_ops(ops):
    return "(" + " ".join(
        f"(({' '.join(enc_str(n) for n in op['names'])}) {enc_str(op['new_name'])} {enc_str(op['data_model'])} {enc_str(op['type'])})"
        for op in ops) + ")"


def compare_registry(ctx, P, what, case, mreg, snap):
    a = [(e["name"], e["desc"], e["cls"]) for e in mreg]
    b = [(e["name"], e["desc"], e["cls"]) for e in snap]
    if a != b:
        ctx.disagree(what, case, repr(a), repr(b))
        return
    for me, ie in zip(mreg, snap):
        have = {src_of(r) for r in ie["rows"]}
        want = {s for s in me["srcs"] if P.sheets.get(s, {}).get("rows")}
        if have != want:
            ctx.disagree(what + " (sources of the rows)", case, repr((me["name"], sorted(want))), repr((ie["name"], sorted(map(str, have)))))
            return


# ======================================================================== one parser's history
def run_parser(P, ops, nested, keep_failing, fail, ctx=None, dist=None):
    """drive one long-lived ContentIndexParser through [ops] row by row, then the whole index
    through the constructor; [fail(key, summary)] records an oracle failure"""
    m = ctx.model if ctx is not None else None
    live = [op for op in ops if not op.get("draft")]
    mouts = mwhole = None
    if m:
        env = enc_env(P)
        mouts = [dec_outcome(x) for x in parse_sexp(m.ask(f"({K.ENG} 15 {env} {enc_ops(live)})"))]
        mwhole = dec_outcome(parse_sexp(m.ask(f"({K.ENG} 16 {env} {enc_ops(live)})")))
    case = lambda i: json.dumps(dict(sheets={s["name"]: s["headers"] for s in P.wb["sheets"]},
                                     module=sorted(P.models) if P.wb["module"] is not None else None,
                                     rows=[op_cells(o) for o in ops[:i + 1]]), ensure_ascii=False)

    # ---- row by row on one object
    P.write_index([])
    r0 = run_cli_mode(P.new_parser)
    if r0[0] != "ok":
        fail("history-dependent-model", f"a parser over an index without rows cannot be built: {r0!r}")
        return
    cip = r0[1]
    li = 0
    outs = []
    for i, op in enumerate(ops):
        before = list(cip.data_sheets.items())
        fresh_names = bool(op["names"]) and all(n not in cip.data_sheets for n in op["names"])
        out = classify(P.feed(cip, op))
        where = f"index row {i + 1} {op_cells(op)!r} on a parser that has processed {i} row(s)"
        if dist is not None:
            dist["rows"] += 1
            dist["outcomes"][str(out)] = dist["outcomes"].get(str(out), 0) + 1
            kind = "draft" if op.get("draft") else (op["type"] or ("load" if len(op["names"]) == 1 else "implicit_concat" if op["names"] else "no_sheet_name"))
            dist["row_kinds"][kind] = dist["row_kinds"].get(kind, 0) + 1
            if op["names"] and not fresh_names:
                dist["rows_hitting_registry"] += 1
            if op["data_model"]:
                dist["rows_with_data_model"] += 1
        outs.append(out)
        after = list(cip.data_sheets.items())
        if out != "ok" or op.get("draft"):
            # C: a failed (or draft) row leaves the registry as it was
            if len(before) != len(after) or any(a[0] != b[0] or a[1] is not b[1] for a, b in zip(before, after)):
                fail("history-dependent-model", f"{where}: the row {'is a draft' if op.get('draft') else 'failed'} but the registry changed")
        snap = snapshot(P, cip)
        target = op["new_name"] or (op["names"][0] if op["names"] else "")
        if out == "ok" and not op.get("draft"):
            e = entry_of(snap, target)
            if e is None:
                fail("history-dependent-model", f"{where}: nothing registered under {target!r}")
            else:
                check_entry(P, e, fail, where)                         # A
        if fresh_names and not op.get("draft"):
            # B: the same row on a parser that has done nothing before
            r1 = run_cli_mode(P.new_parser)
            if r1[0] == "ok":
                f_out = classify(P.feed(r1[1], op))
                fe = entry_of(snapshot(P, r1[1]), target) if f_out == "ok" else None
                if dist is not None:
                    dist["fresh_parser_comparisons"] += 1
                if f_out != out or (out == "ok" and not same_entry(entry_of(snap, target), fe)):
                    fail("history-dependent-model",
                         f"{where}: outcome {out!r} {entry_of(snap, target) if out == 'ok' else ''}; the same row on a fresh parser: "
                         f"{f_out!r} {fe if f_out == 'ok' else ''}")
        if mouts is not None and not op.get("draft"):
            mo, mreg = mouts[li]
            li += 1
            if mo != out:
                ctx.disagree("InferCip.scan_all vs the long-lived ContentIndexParser (outcome of a row)", case(i), repr(mo), repr(out))
            elif out == "ok":
                compare_registry(ctx, P, "InferCip.scan_all vs the long-lived ContentIndexParser (registry after a row)", case(i), mreg, snap)

    # ---- the whole index through the constructor (a segment possibly in a nested index)
    # (rows that failed above are left out unless [keep_failing]: a failed row changed nothing, the rest gives the same
    # registry, and the constructor gets through long histories)
    if not keep_failing:
        ops = [o for o, out in zip(ops, outs) if out == "ok"]
        nested = None if nested is None else [min(nested[0], len(ops)), min(nested[1], len(ops))]
        if m:
            mwhole = dec_outcome(parse_sexp(m.ask(f"({K.ENG} 16 {env} {enc_ops([o for o in ops if not o.get('draft')])})")))
    rows = [op_cells(o) for o in ops]
    if nested and nested[1] > nested[0]:
        a, b = nested
        P.write_index(rows[a:b], "sub_index")
        rows = rows[:a] + [["content_index", "sub_index", "", "", "", "", "", ""]] + rows[b:]
    P.write_index(rows)
    r = run_cli_mode(P.new_parser)
    out = classify(r)
    if dist is not None:
        dist["constructor_runs"] += 1
        dist["constructor_outcomes"][str(out)] = dist["constructor_outcomes"].get(str(out), 0) + 1
    snap = snapshot(P, r[1]) if out == "ok" else None
    if out == "ok":
        for e in snap:
            check_entry(P, e, fail, f"the whole index {rows!r} through the constructor")
    if mwhole is not None:
        if mwhole[0] != out:
            ctx.disagree("InferCip.run vs ContentIndexParser(...) (outcome)", case(len(ops)), repr(mwhole[0]), repr(out))
        elif out == "ok":
            compare_registry(ctx, P, "InferCip.run vs ContentIndexParser(...) (final registry)", case(len(ops)), mwhole[1], snap)


def run_session(session, fail, ctx=None, dist=None):
    for pi, p in enumerate(session["parsers"]):
        P = Prepared(p["workbook"])
        if dist is not None:
            dist["sheets_unreadable_in_isolation"] += sum(v is None for v in P.iso_inferred.values())
        try:
            run_parser(P, p["ops"], p.get("nested"), p.get("keep_failing", True), lambda key, s: fail(key, f"workbook {pi + 1} of the session: {s}", pi), ctx, dist)
        finally:
            P.close()


def gen_session(rng, by_name, tag):
    family = gen_family(rng, by_name, rng.choice([3, 4, 5, 6]))
    names = [n + tag for n in rng.sample(SHEET_NAMES, rng.choice([2, 3, 4, 5]))]
    parsers = []
    for _ in range(rng.choice([1, 2, 2, 3, 3])):
        wb = gen_workbook(rng, family, names)
        ops = gen_ops(rng, wb, names)
        a = rng.randrange(len(ops) + 1)
        nested = [a, rng.randrange(a, len(ops) + 1)] if rng.random() < 0.3 else None
        parsers.append(dict(workbook=wb, ops=ops, nested=nested, keep_failing=rng.random() < 0.25))
    return dict(parsers=parsers, family=[vn for vn, _ in family])


def reproduces_in_fresh_process(replay_obj):
    """does [replay] fail in a new interpreter (no state left by earlier sessions)?"""
    import common
    d = tempfile.mkdtemp(prefix="c18rep")
    try:
        p = os.path.join(d, "r.json")
        with open(p, "w") as f:
            json.dump(dict(replay=replay_obj), f)
        r = subprocess.run([common.PY, os.path.join(common.VERIF, "harness", "main.py"), "C18", "--replay", p],
                           cwd=d, env=common.impl_env(), stdout=subprocess.PIPE, stderr=subprocess.DEVNULL, text=True, timeout=600)
        return r.returncode == 1 and "FAILS" in r.stdout
    except Exception:
        return False
    finally:
        shutil.rmtree(d, ignore_errors=True)


def run_histories(ctx, by_name):
    rng, v = ctx.rng, ctx.v
    n_sessions = (1500 if ctx.tier == "thorough" else 120) * ctx.scale
    dist = dict(sessions=0, parsers=0, sheets=0, rows=0, outcomes={}, row_kinds={}, rows_hitting_registry=0, rows_with_data_model=0,
                fresh_parser_comparisons=0, constructor_runs=0, constructor_outcomes={}, nested_index=0, variants={},
                sheets_unreadable_in_isolation=0, sheets_without_rows=0, templated_cells=0, name_reused_with_other_headers=0,
                same_columns_other_annotations=0, with_user_module=0)
    done = []          # the sessions so far (replay of last resort)
    reported = {}
    for si in range(n_sessions):
        session = gen_session(rng, by_name, "" if si % 3 == 0 else str(si))
        done.append(session)
        dist["sessions"] += 1
        seen_headers, seen_cols = {}, {}
        from rpft.parsers.common.rowparser import get_field_name
        for p in session["parsers"]:
            dist["parsers"] += 1
            dist["nested_index"] += bool(p["nested"])
            dist["with_user_module"] += p["workbook"]["module"] is not None
            for s in p["workbook"]["sheets"]:
                dist["sheets"] += 1
                dist["variants"][s["variant"]] = dist["variants"].get(s["variant"], 0) + 1
                dist["sheets_without_rows"] += not s["rows"]
                dist["templated_cells"] += sum(isinstance(c, str) and c[:2] in ("{{", "{@") for r in s["rows"] for c in r.values())
                hs = tuple(s["headers"])
                if seen_headers.setdefault(s["name"], hs) != hs:
                    dist["name_reused_with_other_headers"] += 1
                cols = tuple(get_field_name(h) for h in hs)
                if seen_cols.setdefault(cols, hs) != hs:
                    dist["same_columns_other_annotations"] += 1
        v.coverage["evaluations"] += sum(len(p["ops"]) for p in session["parsers"])
        failures = []

        def fail(key, summary, pi):
            failures.append((key, summary, pi))
        run_session(session, fail, ctx, dist)
        for key, summary, pi in failures:
            reported[key] = reported.get(key, 0) + 1
            # the smallest history that fails in a NEW process: this session up to the failing workbook, else everything so far
            rep = dict(fn="history", sessions=[dict(parsers=session["parsers"][:pi + 1])])
            if reported[key] <= 2 and not any(k.get("key") == key for k in v.known) and not reproduces_in_fresh_process(rep):
                rep = dict(fn="history", sessions=[dict(parsers=s["parsers"]) for s in done])
            v.failing_input(key, summary, rep)
    ctx.stats["histories"] = dist


def replay_history(r):
    ok = [True]

    def fail(key, summary, pi):
        if ok[0]:
            print(f"  {key}: {summary}"[:3000])
        ok[0] = False
    for s in r["sessions"]:
        run_session(s, fail)
    return ok[0]


# ======================================================================== sequences of direct calls
def check_call(name, schema):
    """model_from_headers_rec(name, headers_of S) and parse_header_annotations on every plain top-level column, in this
    process as it is now; None or a description of the difference"""
    from rpft.parsers.common import model_inference as mi
    hs = K.py_headers_of(schema)
    got = K.impl_infer(hs, name)
    want = K.py_denote(schema)
    if got[0] != "ok" or got[1] != want:
        return f"model_from_headers_rec({name!r}, {hs!r}) gives {got!r}; the headers denote {want!r}"
    for n, e in schema:
        if e[0] != "leaf":
            continue
        h = K.py_render_leaf(e[1], n, e[2])
        r = run_cli_mode(mi.parse_header_annotations, h)
        try:
            g = ("ok", (K.canon_type(r[1][0]), K.canon_default(r[1][1]))) if r[0] == "ok" else r
        except K.OutOfUniverse as ex:
            g = ("oou", str(ex))
        if g != ("ok", K.py_denote_leaf(e[2])):
            return f"parse_header_annotations({h!r}) gives {g!r}; the header denotes {K.py_denote_leaf(e[2])!r}"
    return None


def run_call_sequences(ctx, by_name):
    """model_from_headers_rec / parse_header_annotations called again and again in one process with a few names and the
    header rows of a family of related schemas: every call must give what its own headers denote (and what the pure Gallina
    [infer] gives)"""
    rng, v, m = ctx.rng, ctx.v, ctx.model
    n_seq = (1000 if ctx.tier == "thorough" else 80) * ctx.scale
    dist = dict(sequences=0, calls=0, variants={}, same_name_other_headers=0, same_columns_other_annotations=0)
    from rpft.parsers.common.rowparser import get_field_name
    done = []
    reported = 0
    for _ in range(n_seq):
        fam = [(vn, sc) for vn, sc in gen_family(rng, by_name, rng.choice([3, 4, 5, 6])) if not K.has_dot_default(sc) or by_name]
        names = rng.sample(["sheet", "data", "people", "a", "A b", "x.y"], rng.choice([1, 2, 3]))
        calls = []
        seen_n, seen_c = {}, {}
        dist["sequences"] += 1
        for _ in range(rng.choice([4, 6, 8, 12])):
            vn, sc = rng.choice(fam)
            name = rng.choice(names)
            calls.append([name, sc])
            dist["calls"] += 1
            dist["variants"][vn] = dist["variants"].get(vn, 0) + 1
            hs = tuple(K.py_headers_of(sc))
            if seen_n.setdefault(name, hs) != hs:
                dist["same_name_other_headers"] += 1
            cols = tuple(get_field_name(h) for h in hs)
            if seen_c.setdefault(cols, hs) != hs:
                dist["same_columns_other_annotations"] += 1
            v.coverage["evaluations"] += 1
            bad = check_call(name, sc)
            if m:
                K.compare_infer(ctx, list(hs), K.dec_model_res(m.ask(f"({K.ENG} 1 {K.enc_headers(hs)})")), K.impl_infer(hs, name))
            if bad:
                reported += 1
                rep = dict(fn="calls", calls=list(calls))
                if reported <= 2 and not reproduces_in_fresh_process(rep):
                    rep = dict(fn="calls", calls=[c for d in done for c in d] + list(calls))
                v.failing_input("history-dependent-model", f"call {len(calls)} of a sequence in one process: {bad}", rep)
                break
        done.append(calls)
    ctx.stats["call_sequences"] = dist


def replay_calls(r):
    for name, sc in r["calls"]:
        bad = check_call(name, K.fix_schema(sc))
        if bad:
            print("  " + bad[:2000])
            return False
    return True
