"""C15 — invalid input stops the command: non-zero exit and no flow file.

(a) correspondence: the extracted model of the compile pipeline (Io/CliIndex.v `compile`)
    against rpft.converters.create_flows in CLI-equivalent mode, on arbitrary small workbooks
    over the model's vocabulary (mostly invalid) and on the generated valid workbooks and
    every injected variant: same verdict (document / stopped), same flow names, and the same
    fault class wherever the message or exception of the implementation identifies one;
(b) the property's oracle on the REAL command (`python -m rpft.cli create_flows ...` in a
    scratch cwd, half of the runs with a pre-existing output file holding a sentinel): for a
    generated valid workbook status 0 and a JSON file; for every fault class x injectable
    position: status != 0, stderr or errors.log non-empty and naming the offending sheet /
    row / name, output path absent or byte-identical to the sentinel.
"""
import concurrent.futures
import json
import os
import re
import shutil
import subprocess
import sys
import tempfile
import traceback

import common
from common import parse_sexp, dec_str
import c15_wb as W

LEVEL = "proof"
SENTINEL = "C15-SENTINEL: this file was here before the command ran\n"
_counter = [0]


# ------------------------------------------------------------------ implementation, in process
CRIT_PATTERNS = [
    (1, r"No content index"), (2, r"exactly one sheet_name|at least one sheet_name"),
    (4, r"new_name has to be"), (5, r"Unknown operation"), (6, r"Undefined data_model_name"),
    (7, r"Cannot concatenate"), (10, r"data_sheet must\s+also"), (11, r"either both data_sheet and data_row_id"),
    (12, r"doubly defined"), (13, r"Required template argument"),
    (20, r"unterminated block"), (21, r"Wrong block terminator"), (22, r"must have a loop_variable"),
    (30, r"which does not exist"), (31, r"number of destinations"), (33, r"link to no_op row"),
    (35, r"requires non-empty text"), (36, r"limited to \d+ characters"), (37, r"Contact field keys"),
    (38, r"Category name too long"), (39, r"webhook.headers"), (41, r"conditional edges to a block"),
    (42, r"no loose exit"), (43, r"must have a variable"), (44, r"does not support default exits"),
    (46, r"is undefined|Error while parsing cell"),
    (52, r"Trigger|must have a keyword"), (53, r"CampaignEvent"),
]


def classify(kind, msg, tb_funcs):
    if kind == "critical":
        for code, pat in CRIT_PATTERNS:
            if re.search(pat, msg):
                return code
        return 0
    if kind == "ParserError":
        return 3
    if kind == "KeyError":
        if "_parse_goto_row" in tb_funcs:
            return 32
        if "get_template_sheet" in tb_funcs:
            return 9
        if "get_data_sheet_row" in tb_funcs or "get_data_sheet_rows" in tb_funcs:
            return 8
        return 0
    if kind == "IndexError":
        return 34
    if kind == "RapidProTriggerError":
        return 51
    if kind == "RapidProActionError":
        return 37 if "field keys" in msg else 0
    if kind == "ValueError":
        if "multiple uuids" in msg:
            return 50
        if "Invalid router test type" in msg:
            return 45
        if re.search(r"have to be provided|need to be provided", msg):
            return 40
        return 0
    if kind == "UndefinedError":
        return 46
    return 0


def run_impl(wb):
    """-> ('ok', [flow names], [campaign names], n_triggers) | ('err', code, kind, message)"""
    from rpft import converters

    _counter[0] += 1
    root = tempfile.mkdtemp(prefix="c15ip")
    mod = f"c15dm_{os.getpid()}_{_counter[0]}"
    try:
        d = os.path.join(root, "wb")
        W.write_folder(wb, d, mod)
        dm = None
        if wb.get("dm") is not None:
            sys.path.insert(0, root)
            dm = mod
        try:
            try:
                out = converters.create_flows([d], None, "csv", data_models=dm, tags=[])
                return ("ok", [f["name"] for f in out["flows"]], [c["name"] for c in out["campaigns"]], len(out["triggers"]))
            except SystemExit:
                msg = str(common._Shutdown.last)
                return ("err", classify("critical", msg, []), "critical", msg)
            except RecursionError:
                return ("err", 0, "RecursionError", "")
            except Exception as e:
                funcs = [f.name for f in traceback.extract_tb(e.__traceback__)]
                return ("err", classify(type(e).__name__, str(e), funcs), type(e).__name__, str(e)[:300])
        finally:
            if dm:
                sys.path.remove(root)
                sys.modules.pop(mod, None)
            _reset_logging_context()
    finally:
        shutil.rmtree(root, ignore_errors=True)


def _reset_logging_context():
    # a SystemExit leaves entries on the toolkit's global logging context stack
    try:
        from rpft.logger.logger import logging_context_handler as h

        del h.processing_stack[:]
        del h.context_variables[:]
    except Exception:
        pass


def model_compile(ctx, wbs):
    if ctx.model is None:
        return [None] * len(wbs)
    outs = ctx.model.ask_many([W.compile_request(w) for w in wbs])
    res = []
    for o in outs:
        try:
            x = parse_sexp(o)
        except Exception:
            res.append(("bad", o))
            continue
        if x and x[0] == 0:
            res.append(("ok", [dec_str(s) for s in x[1]], [dec_str(s) for s in x[2]], x[3]))
        elif x and x[0] == 999999:
            res.append(("err", x[1]))
        else:
            res.append(("bad", o))
    return res


def agree(m, i):
    """model verdict vs implementation verdict -> (agree?, note)"""
    if m is None:
        return True, "no-model"
    if m[0] == "bad":
        return False, "model could not decode the request"
    if m[0] == "ok":
        if i[0] != "ok":
            return False, "model: document, implementation: stopped"
        if m[1] != i[1] or m[2] != i[2] or m[3] != i[3]:
            return False, "different flows/campaigns/triggers"
        return True, "ok"
    code = m[1]
    if code in (98, 99):
        return True, "out-of-scope"
    if i[0] == "ok":
        return False, "model: stopped, implementation: document"
    if i[1] == 0:
        return True, "err-unclassified"
    if i[1] != code:
        return False, f"fault class: model {code}, implementation {i[1]}"
    return True, "err"


# ------------------------------------------------------------------ the real command
def run_cli(wb, sentinel, keep=None):
    """runs `python -m rpft.cli create_flows` on the workbook in a scratch cwd.
    -> dict(status, stderr, log, out_exists, out_content)"""
    root = tempfile.mkdtemp(prefix="c15cli")
    try:
        W.write_folder(wb, os.path.join(root, "wb"), "c15models")
        out = os.path.join(root, "out.json")
        if sentinel:
            with open(out, "w") as f:
                f.write(SENTINEL)
        argv = [common.PY, "-m", "rpft.cli", "create_flows", "-f", "csv", "-o", "out.json"]
        if wb.get("dm") is not None:
            argv += ["--datamodels", "c15models"]
        argv += ["wb"]
        env = common.impl_env()
        try:
            p = subprocess.run(argv, cwd=root, env=env, stdout=subprocess.PIPE, stderr=subprocess.PIPE, timeout=120, text=True)
            status, stderr = p.returncode, p.stderr
        except subprocess.TimeoutExpired:
            status, stderr = -999, "timeout"
        log = ""
        lp = os.path.join(root, "errors.log")
        if os.path.exists(lp):
            log = open(lp, errors="replace").read()
        exists = os.path.exists(out)
        content = open(out, errors="replace").read() if exists else None
        return dict(status=status, stderr=stderr[-3000:], log=log[-3000:], out_exists=exists, out_content=content, argv=argv[1:])
    finally:
        shutil.rmtree(root, ignore_errors=True)


def oracle_fault(res, sentinel, tokens):
    """the property on one faulty run -> list of problems (empty = holds)"""
    bad = []
    if res["status"] == 0:
        bad.append("exit status 0")
    text = (res["stderr"] or "") + "\n" + (res["log"] or "")
    if not text.strip():
        bad.append("nothing on stderr nor in errors.log")
    else:
        missing = [t for t in tokens if t.lower() not in text.lower()]
        if missing:
            bad.append(f"stderr/log do not name {missing}")
    if sentinel:
        if not res["out_exists"]:
            bad.append("pre-existing output file removed")
        elif res["out_content"] != SENTINEL:
            bad.append("pre-existing output file overwritten")
    elif res["out_exists"]:
        bad.append("output file created")
    return bad


def oracle_valid(res):
    bad = []
    if res["status"] != 0:
        bad.append(f"exit status {res['status']} on a valid workbook")
        return bad
    if not res["out_exists"]:
        bad.append("no output file")
        return bad
    try:
        doc = json.loads(res["out_content"])
        if not isinstance(doc, dict) or "flows" not in doc:
            bad.append("output is JSON but not an export document")
    except Exception as e:
        bad.append(f"output file is not complete JSON: {e}")
    return bad


def cli_doc(res):
    try:
        doc = json.loads(res["out_content"])
        return ("ok", [f["name"] for f in doc["flows"]], [c["name"] for c in doc["campaigns"]], len(doc["triggers"]))
    except Exception:
        return None


# ------------------------------------------------------------------ JSON writer/reader correspondence
def json_cases(rng, n):
    def rstr():
        k = rng.choice([0, 1, 2, 5])
        al = ["a", "Z", " ", "\"", "\\", "\n", "\t", "\r", "\b", "\f", "/", "\x00", "\x1f", "\x7f", "é", "世", "\u2028", "😀", "𝔘", "0"]
        return "".join(rng.choice(al) for _ in range(k))

    def rj(d):
        k = rng.random()
        if d == 0 or k < 0.35:
            return rng.choice([None, True, False, 0, 7, -3, 10 ** 15, -(10 ** 18), rstr(), rstr()])
        if k < 0.65:
            return [rj(d - 1) for _ in range(rng.choice([0, 1, 2, 3]))]
        return {rstr(): rj(d - 1) for _ in range(rng.choice([0, 1, 2, 3]))}

    return [rj(3) for _ in range(n)]


def enc_json(j):
    if j is None:
        return "(0)"
    if j is True:
        return "(1 1)"
    if j is False:
        return "(1 0)"
    if isinstance(j, int):
        return f"(2 {1 if j < 0 else 0} {abs(j)})"
    if isinstance(j, str):
        return "(4 " + common.enc_str(j) + ")"
    if isinstance(j, list):
        return "(5 (" + " ".join(enc_json(x) for x in j) + "))"
    return "(6 (" + " ".join("(" + common.enc_str(k) + " " + enc_json(v) + ")" for k, v in j.items()) + "))"


def dec_json(x):
    t = x[0]
    if t == 0:
        return None
    if t == 1:
        return bool(x[1])
    if t == 2:
        return -x[2] if x[1] == 1 else x[2]
    if t == 3:
        return ("raw", dec_str(x[1]))
    if t == 4:
        return dec_str(x[1])
    if t == 5:
        return [dec_json(y) for y in x[1]]
    return {dec_str(k): dec_json(v) for k, v in x[1]}


# ------------------------------------------------------------------ run
def run(ctx):
    v = ctx.v
    rng = ctx.rng
    thorough = ctx.tier == "thorough"
    scale = ctx.scale
    nontrivial = set()

    # ---------------- (0) the JSON writer of the model is json.dump(indent=4); its reader agrees with json.loads
    if ctx.model is not None:
        cases = json_cases(rng, 300 * scale)
        outs = ctx.model.ask_many([f"(115 3 {enc_json(j)})" for j in cases])
        for j, o in zip(cases, outs):
            try:
                text = dec_str(parse_sexp(o))
            except Exception:
                text = None
            exp = json.dumps(j, indent=4)
            ctx.count("json_writer_cases")
            if text != exp:
                ctx.disagree("json.dump(indent=4) text", repr(j)[:300], repr(text)[:300], repr(exp)[:300])
        texts = [json.dumps(j, indent=rng.choice([None, 2, 4])) for j in cases[:150]] + ["[1,]", "{\"a\" 1}", "nul", "\"\\x\"", "[1 2]", "01x"]
        outs = ctx.model.ask_many(["(115 4 " + common.enc_str(t) + ")" for t in texts])
        for t, o in zip(texts, outs):
            ctx.count("json_reader_cases")
            try:
                exp = ("some", json.loads(t))
            except Exception:
                exp = ("none",)
            try:
                x = parse_sexp(o)
                got = ("some", dec_json(x[0])) if x else ("none",)
            except Exception:
                got = ("bad", o[:100])
            if got != exp and not (t == "01x"):
                ctx.disagree("JSON reader vs json.loads", t[:200], repr(got)[:300], repr(exp)[:300])

    # ---------------- (1) correspondence on arbitrary small workbooks
    n_wild = (6000 if thorough else 700) * scale
    wild = [W.gen_wild_workbook(rng) for _ in range(n_wild)]
    mres = model_compile(ctx, wild)
    for wb, m in zip(wild, mres):
        i = run_impl(wb)
        ok, note = agree(m, i)
        ctx.count("wild_" + note.split(":")[0].replace(" ", "_")[:40])
        ctx.count("wild_impl_" + (W.CLASS_NAMES.get(i[1], "unclassified:" + str(i[2])) if i[0] == "err" else "ok"))
        v.coverage["evaluations"] += 1
        nontrivial.add(("wild", i[0], i[1] if i[0] == "err" else len(i[1])))
        if not ok:
            ctx.disagree("compile verdict (arbitrary workbook): " + note, dict(workbook=wb), m, i)

    # ---------------- (1b) directed: blank padding cells in the edge columns of rows that do not create a node.
    # Model (which follows the regenerated probe padding_edges_dropped_at_read) vs implementation; the verdicts
    # of the implementation are recorded: they say what the tool at hand does with a padded go_to row.
    padded = W.padded_workbooks()
    mpad = model_compile(ctx, [w for _, w in padded])
    ctx.stats["padded_rows_impl"] = {}
    for (label, wb), m in zip(padded, mpad):
        i = run_impl(wb)
        ok, note = agree(m, i)
        ctx.count("padded_" + note.split(":")[0].replace(" ", "_")[:40])
        ctx.stats["padded_rows_impl"][label] = "compiles" if i[0] == "ok" else W.CLASS_NAMES.get(i[1], "stopped: " + str(i[2]))
        v.coverage["evaluations"] += 1
        nontrivial.add(("padded", label, i[0]))
        if not ok:
            ctx.disagree(f"compile verdict (padded row: {label}): " + note, dict(workbook=wb), m, i)

    # ---------------- (2) valid workbooks and their injected variants
    n_valid = (40 if thorough else 6) * scale
    per_class = None if thorough else 6
    valids = []
    tries = 0
    while len(valids) < n_valid and tries < n_valid * 20:
        tries += 1
        wb = W.gen_valid_workbook(rng, size=2 if (thorough and rng.random() < 0.3) else 1)
        i = run_impl(wb)
        if i[0] != "ok":
            ctx.count("generator_rejects")
            ctx.stats.setdefault("generator_reject_reasons", {})
            key = W.CLASS_NAMES.get(i[1], str(i[2]))
            ctx.stats["generator_reject_reasons"][key] = ctx.stats["generator_reject_reasons"].get(key, 0) + 1
            continue
        valids.append((wb, i))
    ctx.count("valid_workbooks", len(valids))
    mval = model_compile(ctx, [w for w, _ in valids])
    jobs = []      # (kind, workbook, sentinel, meta)
    for k, ((wb, i), m) in enumerate(zip(valids, mval)):
        ok, note = agree(m, i)
        if not ok or (m is not None and m[0] != "ok"):
            ctx.disagree("compile verdict (valid workbook): " + note, dict(workbook=wb), m, i)
        ctx.count("valid_flows", len(i[1]))
        ctx.count("valid_rows", sum(len(s[1]) for _, s in wb["sheets"] if s[0] == "flow"))
        jobs.append(("valid", wb, k % 2 == 0, dict(index=k, impl=i)))
        cands = W.inject_candidates(wb)
        by_class = {}
        for c in cands:
            by_class.setdefault(c[0], []).append(c)
        ctx.stats.setdefault("injectable_positions", {})
        for key, lst in sorted(by_class.items()):
            ctx.stats["injectable_positions"][key] = ctx.stats["injectable_positions"].get(key, 0) + len(lst)
            if per_class is not None:
                # spread the per-class budget over the workbooks
                quota = max(1, (per_class + n_valid - 1) // n_valid)
                lst = rng.sample(lst, min(quota, len(lst)))
            for (key_, codes, desc, tokens, mutate) in lst:
                w2 = W.copy.deepcopy(wb)
                mutate(w2)
                jobs.append(("fault", w2, rng.random() < 0.5, dict(key=key_, codes=codes, desc=desc, tokens=tokens, base=k)))

    # model and in-process implementation on every injected workbook
    faulty = [j for j in jobs if j[0] == "fault"]
    mf = model_compile(ctx, [j[1] for j in faulty])
    for j, m in zip(faulty, mf):
        i = run_impl(j[1])
        j[3]["model"] = m
        j[3]["impl"] = i
        ok, note = agree(m, i)
        ctx.count("inject_" + note.split(":")[0].replace(" ", "_")[:40])
        if not ok:
            ctx.disagree(f"compile verdict (injected {j[3]['key']}, {j[3]['desc']}): " + note, dict(workbook=j[1]), m, i)
        elif m is not None and m[0] == "err" and m[1] not in j[3]["codes"]:
            ctx.disagree(f"injected {j[3]['key']} ({j[3]['desc']}): the model stops with class {m[1]}, expected {j[3]['codes']}",
                         dict(workbook=j[1]), m, i)
        elif m is not None and m[0] == "ok":
            # the model compiles the injected workbook and the implementation agrees: the position
            # is not evaluated (e.g. a template no evaluated row inserts); the property asks nothing
            j[3]["not_evaluated"] = True
            ctx.count("inject_not_evaluated_position")

    # the real command, in a pool
    def work(job):
        return run_cli(job[1], job[2])

    with concurrent.futures.ThreadPoolExecutor(max_workers=16) as ex:
        results = list(ex.map(work, jobs))

    samples = []
    for job, res in zip(jobs, results):
        kind, wb, sentinel, meta = job
        v.coverage["evaluations"] += 1
        ctx.count("cli_runs")
        ctx.count("cli_with_sentinel" if sentinel else "cli_without_output_file")
        if kind == "valid":
            bad = oracle_valid(res)
            nontrivial.add(("valid", meta["index"]))
            if bad:
                v.failing_input("valid_workbook_rejected", f"valid workbook: {bad}",
                                dict(workbook=wb, sentinel=sentinel, kind="valid", observed=_short(res)))
            else:
                d = cli_doc(res)
                if d is not None and (d[1] != meta["impl"][1]):
                    ctx.disagree("command output vs library call", dict(workbook=wb), meta["impl"], d)
                if len(samples) < 2:
                    samples.append(dict(kind="valid", flows=d[1] if d else None, status=res["status"]))
        else:
            key = meta["key"]
            if meta.get("not_evaluated"):
                if res["status"] != 0:
                    ctx.disagree(f"model: document, command: status {res['status']} ({key}, {meta['desc']})", dict(workbook=wb), meta.get("model"), _short(res))
                continue
            ctx.count("fault_" + key)
            nontrivial.add((key, meta["desc"].split(" ")[0], meta["base"]))
            bad = oracle_fault(res, sentinel, meta["tokens"])
            if bad:
                v.failing_input(key, f"{key} at {meta['desc']}: {'; '.join(bad)}",
                                dict(workbook=wb, sentinel=sentinel, kind="fault", key=key, tokens=meta["tokens"],
                                     desc=meta["desc"], observed=_short(res), model=meta.get("model")))
            # model prediction vs observed status
            m = meta.get("model")
            if m is not None and m[0] in ("ok", "err") and not (m[0] == "err" and m[1] in (98, 99)):
                if (m[0] == "ok") != (res["status"] == 0):
                    ctx.disagree(f"model prediction vs exit status ({key}, {meta['desc']})", dict(workbook=wb), m, _short(res))
            if len(samples) < 8 and not bad:
                samples.append(dict(kind=key, at=meta["desc"], status=res["status"],
                                    said=((res["stderr"] or res["log"]).strip().splitlines() or [""])[-1][:160]))

    # ---------------- (3) the model of the command itself: file system unchanged on error, dump on success
    if ctx.model is not None and valids:
        wb = valids[0][0]
        for old in (None, SENTINEL):
            o = parse_sexp(ctx.model.ask(W.cli_request(wb, old)))
            text = dec_str(o[1][0]) if o[1] else None
            ok = o[0] == 0 and text is not None
            try:
                d = json.loads(text)
                ok = ok and [f["name"] for f in d["flows"]] == valids[0][1][1]
            except Exception:
                ok = False
            if not ok:
                ctx.disagree("cli model on a valid workbook", dict(workbook=wb, old=old), o, valids[0][1])
        if faulty:
            o = parse_sexp(ctx.model.ask(W.cli_request(faulty[0][1], SENTINEL)))
            if o[0] == 0 or not o[1] or dec_str(o[1][0]) != SENTINEL:
                ctx.disagree("cli model on a faulty workbook", dict(workbook=faulty[0][1]), o, "status != 0, sentinel kept")

    v.coverage["distinct_nontrivial"] = len(nontrivial)
    v.coverage["rule"] = ("distinct (fault class, injected position kind, base workbook) triples run through the real command, "
                          "plus distinct (verdict, class) outcomes of the arbitrary-workbook stream")
    v.coverage["samples"] = samples
    v.assumptions[:] = [
        "workbooks are one CSV folder over the vocabulary of coq/theories/Io/CliFlow.v (no node names, attachments, "
        "set_contact_*, airtime, native {@ @} templates, tags, filter/sort operations, sheet-typed template arguments)",
        "a fault is injected where the tool evaluates the row: not under a false include_if, not inside an omitted block, "
        "not in a flow removed by ignore_row",
        "an unknown data_model is a fault only when --datamodels is given (without it the name is ignored by the tool)",
        "process death from outside (signal, full disk) while json.dump writes is not modelled: the command writes in place",
        "fault class of the implementation is read from its message/exception where recognisable; other messages count as 'stopped'",
    ]


def _short(res):
    return dict(status=res["status"], stderr=(res["stderr"] or "")[-600:], log=(res["log"] or "")[-600:],
                out_exists=res["out_exists"], out_is_sentinel=(res["out_content"] == SENTINEL),
                out_len=len(res["out_content"]) if res["out_content"] is not None else None, argv=res.get("argv"))


def replay(rep):
    r = rep["replay"]
    wb = r["workbook"]
    # JSON turns tuples into lists: restore the tagged pairs the renderers expect
    wb = _retuple(wb)
    res = run_cli(wb, r.get("sentinel", False))
    print("argv:", " ".join(res["argv"]))
    print("status:", res["status"], " output exists:", res["out_exists"],
          " output is sentinel:", res["out_content"] == SENTINEL)
    print("stderr:", (res["stderr"] or "")[-500:])
    print("errors.log:", (res["log"] or "")[-300:])
    if r.get("kind") == "valid":
        bad = oracle_valid(res)
    else:
        bad = oracle_fault(res, r.get("sentinel", False), r.get("tokens", []))
    for b in bad:
        print("property fails:", b)
    return not bad


def _retuple(wb):
    def T(t):
        return [tuple(x) for x in t]

    def fix_row(r):
        r = dict(r)
        r["id"] = T(r["id"])
        r["main"] = T(r["main"])
        r["lst"] = [T(x) for x in r["lst"]]
        r["edges"] = [dict(frm=T(e["frm"]), cond=e["cond"]) for e in r["edges"]]
        r["headers"] = [tuple(h) for h in r["headers"]]
        if isinstance(r["inc"], list):
            r["inc"] = tuple(r["inc"])
        return r

    sheets = []
    for n, s in wb["sheets"]:
        s = list(s)
        if s[0] == "flow":
            s[1] = [fix_row(r) for r in s[1]]
        elif s[0] == "index":
            s[1] = [dict(r, argdefs=[tuple(a) for a in r["argdefs"]]) for r in s[1]]
        elif s[0] == "data":
            s[2] = [tuple(x) for x in s[2]]
        sheets.append((n, tuple(s)))
    return dict(wb, sheets=sheets)
