"""C15 — invalid input stops the command: non-zero exit and no flow file.

(a) correspondence: the extracted model of the compile pipeline (Io/CliIndex.v `compile`)
    against rpft.converters.create_flows in CLI-equivalent mode, on arbitrary small workbooks
    over the model's vocabulary (mostly invalid) and on the generated valid workbooks and
    every injected variant: same verdict (document / stopped), same flow names, and the same
    fault class wherever the message or exception of the implementation identifies one;
(b) the property's oracle on the REAL command (`python -m rpft.cli create_flows ...` in a
    scratch cwd, half of the runs with a pre-existing output file holding a sentinel): for a
    generated valid workbook status 0 and a JSON file; for every fault class x injectable
    position: status != 0, stderr or errors.log non-empty and naming the offending sheet /
    row / name, output path absent or byte-identical to the sentinel;
(c) the same fault stream under a MATRIX OF INVOCATION ENVIRONMENTS (c15_env.py, translator/c15_configs.py): what a
    CRITICAL record does is decided when rpft.cli is imported, from the environment, the options and the working
    directory.  The surface is discovered from the tree at hand on every run (every environment variable the package
    reads, every option of the subcommand, the log files) and the faults are run under every configuration
    (variable x plausible values, log file pre-existing / unopenable, unwritable cwd, --tags, --datamodels, unknown
    options) and every run shape (csv/json/xlsx, several inputs, output path styles, subcommand alias, option
    spelling); a configuration whose handlers differ from the default ones gets every fault class.
"""
import concurrent.futures
import json
import os
import re
import shutil
import subprocess
import sys
import tempfile
import traceback

import common
from common import parse_sexp, dec_str
import c15_wb as W
import c15_env as E

LEVEL = "proof"
SENTINEL = E.SENTINEL
_counter = [0]


# ------------------------------------------------------------------ implementation, in process
CRIT_PATTERNS = [
    (1, r"No content index"), (2, r"exactly one sheet_name|at least one sheet_name"),
    (4, r"new_name has to be"), (5, r"Unknown operation"), (6, r"Undefined data_model_name"),
    (7, r"Cannot concatenate"), (10, r"data_sheet must\s+also"), (11, r"either both data_sheet and data_row_id"),
    (12, r"doubly defined"), (13, r"Required template argument"),
    (20, r"unterminated block"), (21, r"Wrong block terminator"), (22, r"must have a loop_variable"),
    (30, r"which does not exist"), (31, r"number of destinations"), (33, r"link to no_op row"),
    (35, r"requires non-empty text"), (36, r"limited to \d+ characters"), (37, r"Contact field keys"),
    (38, r"Category name too long"), (39, r"webhook.headers"), (41, r"conditional edges to a block"),
    (42, r"no loose exit"), (43, r"must have a variable"), (44, r"does not support default exits"),
    (46, r"is undefined|Error while parsing cell"),
    (52, r"Trigger|must have a keyword"), (53, r"CampaignEvent"),
]


def classify(kind, msg, tb_funcs):
    if kind == "critical":
        for code, pat in CRIT_PATTERNS:
            if re.search(pat, msg):
                return code
        return 0
    if kind == "ParserError":
        return 3
    if kind == "KeyError":
        if "_parse_goto_row" in tb_funcs:
            return 32
        if "get_template_sheet" in tb_funcs:
            return 9
        if "get_data_sheet_row" in tb_funcs or "get_data_sheet_rows" in tb_funcs:
            return 8
        return 0
    if kind == "IndexError":
        return 34
    if kind == "RapidProTriggerError":
        return 51
    if kind == "RapidProActionError":
        return 37 if "field keys" in msg else 0
    if kind == "ValueError":
        if "multiple uuids" in msg:
            return 50
        if "Invalid router test type" in msg:
            return 45
        if re.search(r"have to be provided|need to be provided", msg):
            return 40
        return 0
    if kind == "UndefinedError":
        return 46
    return 0


def run_impl(wb):
    """-> ('ok', [flow names], [campaign names], n_triggers) | ('err', code, kind, message)"""
    from rpft import converters

    _counter[0] += 1
    root = tempfile.mkdtemp(prefix="c15ip")
    mod = f"c15dm_{os.getpid()}_{_counter[0]}"
    try:
        d = os.path.join(root, "wb")
        W.write_folder(wb, d, mod)
        dm = None
        if wb.get("dm") is not None:
            sys.path.insert(0, root)
            dm = mod
        try:
            try:
                out = converters.create_flows([d], None, "csv", data_models=dm, tags=[])
                return ("ok", [f["name"] for f in out["flows"]], [c["name"] for c in out["campaigns"]], len(out["triggers"]))
            except SystemExit:
                msg = str(common._Shutdown.last)
                return ("err", classify("critical", msg, []), "critical", msg)
            except RecursionError:
                return ("err", 0, "RecursionError", "")
            except Exception as e:
                funcs = [f.name for f in traceback.extract_tb(e.__traceback__)]
                return ("err", classify(type(e).__name__, str(e), funcs), type(e).__name__, str(e)[:300])
        finally:
            if dm:
                sys.path.remove(root)
                sys.modules.pop(mod, None)
            _reset_logging_context()
    finally:
        shutil.rmtree(root, ignore_errors=True)


def _reset_logging_context():
    # a SystemExit leaves entries on the toolkit's global logging context stack
    try:
        from rpft.logger.logger import logging_context_handler as h

        del h.processing_stack[:]
        del h.context_variables[:]
    except Exception:
        pass


def model_compile(ctx, wbs):
    if ctx.model is None:
        return [None] * len(wbs)
    outs = ctx.model.ask_many([W.compile_request(w) for w in wbs])
    res = []
    for o in outs:
        try:
            x = parse_sexp(o)
        except Exception:
            res.append(("bad", o))
            continue
        if x and x[0] == 0:
            res.append(("ok", [dec_str(s) for s in x[1]], [dec_str(s) for s in x[2]], x[3]))
        elif x and x[0] == 999999:
            res.append(("err", x[1]))
        else:
            res.append(("bad", o))
    return res


def agree(m, i):
    """model verdict vs implementation verdict -> (agree?, note)"""
    if m is None:
        return True, "no-model"
    if m[0] == "bad":
        return False, "model could not decode the request"
    if m[0] == "ok":
        if i[0] != "ok":
            return False, "model: document, implementation: stopped"
        if m[1] != i[1] or m[2] != i[2] or m[3] != i[3]:
            return False, "different flows/campaigns/triggers"
        return True, "ok"
    code = m[1]
    if code in (98, 99):
        return True, "out-of-scope"
    if i[0] == "ok":
        return False, "model: stopped, implementation: document"
    if i[1] == 0:
        return True, "err-unclassified"
    if i[1] != code:
        return False, f"fault class: model {code}, implementation {i[1]}"
    return True, "err"


# ------------------------------------------------------------------ the real command
_DISC = [None]


def discovery():
    """the invocation surface of the tree at hand (discovered once per process)"""
    if _DISC[0] is None:
        _DISC[0] = E.C.discover(common.SRC, common.PY)
    return _DISC[0]


def run_cli(wb, sentinel, inv=None):
    """runs `python -m rpft.cli create_flows` on the workbook in a scratch cwd, under the invocation `inv`
    (default: nothing set, csv folder, relative paths).
    -> dict(status, stderr, log, out_exists, out_content, argv, env, cwd)"""
    return E.run_cli(wb, sentinel, inv or E.default_inv(), discovery())


def oracle_fault(res, sentinel, tokens, start=0):
    """the property on one faulty run -> list of problems (empty = holds).
    start: 0 = the configuration lets the command get to the workbook (the whole property applies);
    1 = under this configuration the command ends before it reads anything (e.g. the log file cannot be opened):
    it cannot name a fault it never saw, the rest applies; 2 = it is not asked to compile: only the output path."""
    bad = []
    if start != 2:
        if res["status"] == 0:
            bad.append("exit status 0")
        text = (res["stderr"] or "") + "\n" + (res["log"] or "")
        if not text.strip():
            bad.append("nothing on stderr nor in errors.log")
        elif start == 0:
            missing = [t for t in tokens if t.lower() not in text.lower()]
            if missing:
                bad.append(f"stderr/log do not name {missing}")
    if sentinel:
        if not res["out_exists"]:
            bad.append("pre-existing output file removed")
        elif res["out_content"] != SENTINEL:
            bad.append("pre-existing output file overwritten")
    elif res["out_exists"]:
        bad.append("output file created")
    return bad


def oracle_valid(res):
    bad = []
    if res["status"] != 0:
        bad.append(f"exit status {res['status']} on a valid workbook")
        return bad
    if not res["out_exists"]:
        bad.append("no output file")
        return bad
    try:
        doc = json.loads(res["out_content"])
        if not isinstance(doc, dict) or "flows" not in doc:
            bad.append("output is JSON but not an export document")
    except Exception as e:
        bad.append(f"output file is not complete JSON: {e}")
    return bad


def cli_doc(res):
    try:
        doc = json.loads(res["out_content"])
        return ("ok", [f["name"] for f in doc["flows"]], [c["name"] for c in doc["campaigns"]], len(doc["triggers"]))
    except Exception:
        return None


# ------------------------------------------------------------------ JSON writer/reader correspondence
def json_cases(rng, n):
    def rstr():
        k = rng.choice([0, 1, 2, 5])
        al = ["a", "Z", " ", "\"", "\\", "\n", "\t", "\r", "\b", "\f", "/", "\x00", "\x1f", "\x7f", "é", "世", "\u2028", "😀", "𝔘", "0"]
        return "".join(rng.choice(al) for _ in range(k))

    def rj(d):
        k = rng.random()
        if d == 0 or k < 0.35:
            return rng.choice([None, True, False, 0, 7, -3, 10 ** 15, -(10 ** 18), rstr(), rstr()])
        if k < 0.65:
            return [rj(d - 1) for _ in range(rng.choice([0, 1, 2, 3]))]
        return {rstr(): rj(d - 1) for _ in range(rng.choice([0, 1, 2, 3]))}

    return [rj(3) for _ in range(n)]


def enc_json(j):
    if j is None:
        return "(0)"
    if j is True:
        return "(1 1)"
    if j is False:
        return "(1 0)"
    if isinstance(j, int):
        return f"(2 {1 if j < 0 else 0} {abs(j)})"
    if isinstance(j, str):
        return "(4 " + common.enc_str(j) + ")"
    if isinstance(j, list):
        return "(5 (" + " ".join(enc_json(x) for x in j) + "))"
    return "(6 (" + " ".join("(" + common.enc_str(k) + " " + enc_json(v) + ")" for k, v in j.items()) + "))"


def dec_json(x):
    t = x[0]
    if t == 0:
        return None
    if t == 1:
        return bool(x[1])
    if t == 2:
        return -x[2] if x[1] == 1 else x[2]
    if t == 3:
        return ("raw", dec_str(x[1]))
    if t == 4:
        return dec_str(x[1])
    if t == 5:
        return [dec_json(y) for y in x[1]]
    return {dec_str(k): dec_json(v) for k, v in x[1]}


# ------------------------------------------------------------------ invocation environments
def cli_in_request(wb, old, cfg_id):
    o = "()" if old is None else "(" + common.enc_str(old) + ")"
    return f"(115 6 {W.FUEL} {W.enc_dm(wb)} {W.enc_workbook(wb)} {o} {cfg_id})"


def config_table(ctx, disc, cfgs):
    """per configuration id: dict(start, stops, status, like) — what the regenerated table c15_log_configs says, read
    through the extracted model (so that the runs below are compared with what the theorems are about); probed here
    when there is no model or the table belongs to another matrix"""
    info, source = {}, "Gen/Tables.v through the extracted model"
    if ctx.model is not None:
        try:
            x = parse_sexp(ctx.model.ask("(115 5)"))
            for r in x[1]:
                info[r[0]] = dict(start=r[1], stops=bool(r[2]), status=r[3], like=bool(r[4]))
            if x[0] != E.config_digest(cfgs):
                ctx.disagree("the configuration matrix of Gen/Tables.v is not the one discovered in the tree now",
                             [c["name"] for c in cfgs][:80], x[0], E.config_digest(cfgs))
                info = {}
        except Exception as e:
            ctx.stats["config_table_error"] = f"{type(e).__name__}: {e}"[:200]
            info = {}
    if not info:
        source = "probed by the harness"
        for i, r in enumerate(E.C.probe_all(cfgs, disc, common.SRC, common.PY)):
            if r.get("unavailable") or r.get("usage_error"):
                continue
            st = E.C.start_code(r)
            obs = ((r.get("log") or {}).get("observed")) or [E.C.NEVER, 0]
            if st == 0:
                info[i] = dict(start=0, stops=(obs[0] <= 50 and obs[1] != 0), status=obs[1], like=(obs[0] == 50))
            else:
                info[i] = dict(start=st, stops=False, status=r.get("status") or 1, like=False)
    return info, source


def tally_invocation(ctx, inv, start):
    t = ctx.stats.setdefault("invocations", {})

    def bump(group, key):
        g = t.setdefault(group, {})
        g[key] = g.get(key, 0) + 1

    name = inv["cfg"]["name"]
    bump("by_configuration_kind", name.split(":")[0] if ":" in name else name)
    bump("by_configuration", name)
    bump("by_start", {0: "gets to the workbook", 1: "ends before, non-zero", 2: "ends before, zero"}.get(start, str(start)))
    shape = dict(E.DEFAULT_SHAPE, **inv.get("shape", {}))
    for k, val in shape.items():
        bump("by_" + k, str(val))


def environment_jobs(ctx, base_jobs):
    """-> (jobs (kind, workbook, sentinel, meta, invocation), table of the configurations)"""
    rng, scale = ctx.rng, ctx.scale * (3 if ctx.tier == "thorough" else 1)
    disc = discovery()
    cfgs = E.C.enumerate_configs(disc)
    info, source = config_table(ctx, disc, cfgs)
    inv_stats = ctx.stats.setdefault("invocations", {})
    inv_stats["discovered"] = dict(
        environment_variables=disc["env_where"], computed_names_at=disc["env_dynamic"], environment_as_a_whole_at=disc["env_opaque"],
        options=[" ".join(o["option_strings"]) or o["dest"] for o in disc["options"]], subcommands=disc["subcommands"],
        log_files=disc["log_files"], values_tried=disc["values"], options_not_handled=disc.get("unhandled_options", []),
        formats_not_run=E.uncovered_formats(disc), configurations=len(cfgs), configuration_table=source)
    groups = {}
    for i, c in enumerate(cfgs):
        inf = info.get(i)
        sig = "rejected by the argument parser / cannot be set up here" if inf is None else \
            (f"start={inf['start']} critical-stops={inf['stops']} status={inf['status']} like-default={inf['like']}")
        groups.setdefault(sig, []).append(c["name"])
    inv_stats["configurations_by_what_a_CRITICAL_record_does"] = {k: (v if len(v) <= 12 else v[:12] + [f"... {len(v) - 12} more"])
                                                                  for k, v in groups.items()}

    faults = [j for j in base_jobs if j[0] == "fault" and not j[3].get("not_evaluated")]
    valids = [j for j in base_jobs if j[0] == "valid"]
    if not faults or not valids:
        return [], info
    by_key = {}
    for j in faults:
        by_key.setdefault(j[3]["key"], []).append(j)
    keys = sorted(by_key)
    order = list(keys)
    rng.shuffle(order)
    cursor = [0]

    def next_fault(exclude=()):
        for _ in range(len(order)):
            k = order[cursor[0] % len(order)]
            cursor[0] += 1
            if k not in exclude:
                return rng.choice(by_key[k])
        return None

    def sweep(exclude=()):
        return [rng.choice(by_key[k]) for k in keys if k not in exclude]

    out = []

    def add(j, cfg, cfg_id, shape):
        if j is None:
            return
        out.append((j[0], j[1], rng.random() < 0.5, j[3], dict(cfg=cfg, cfg_id=cfg_id, shape=shape)))

    base = info.get(0)
    swept = set()
    for i, cfg in enumerate(cfgs):
        inf = info.get(i)
        if inf is None or i == 0:
            continue
        family = cfg["name"].split("=")[0].split(" ")[0]
        if inf["start"] != 0:
            picks = [(next_fault(), {}) for _ in range(2)]
        elif inf != base:
            # the handlers that see a CRITICAL record are not the default ones: every fault class
            picks = [(j, {}) for j in sweep()]
            if scale > 1:
                picks += [(next_fault(), {}) for _ in range(4 * scale)]
        elif family not in swept:
            # first value of every variable / option: every fault class (a read the probe cannot see)
            swept.add(family)
            picks = [(j, {}) for j in sweep()]
        else:
            picks = []
            for _ in range(2 * scale):
                sh = E.random_shape(rng, disc)
                # with a second input that has a content index of its own, a workbook without one is not faulty
                picks.append((next_fault(("no_content_index",) if sh.get("multi") else ()), sh))
        for j, sh in picks:
            add(j, cfg, i, sh)
        if inf["start"] != 0 or inf != base or rng.random() < 0.34:
            add(rng.choice(valids), cfg, i, {})
    # run shapes under the default configuration
    for label, delta in E.shape_dimensions(disc):
        excl = ("no_content_index",) if delta.get("multi") else ()
        for _ in range(3 * scale):
            add(next_fault(excl), dict(E.DEFAULT_CFG), 0, dict(delta))
        add(rng.choice(valids), dict(E.DEFAULT_CFG), 0, dict(delta))
    # shapes combined
    for _ in range(6 * scale):
        sh = E.random_shape(rng, disc, p=0.8)
        add(next_fault(("no_content_index",) if sh.get("multi") else ()), dict(E.DEFAULT_CFG), 0, sh)
    return out, info


# ------------------------------------------------------------------ run
def run(ctx):
    v = ctx.v
    rng = ctx.rng
    thorough = ctx.tier == "thorough"
    scale = ctx.scale
    nontrivial = set()

    # ---------------- (0) the JSON writer of the model is json.dump(indent=4); its reader agrees with json.loads
    if ctx.model is not None:
        cases = json_cases(rng, 300 * scale)
        outs = ctx.model.ask_many([f"(115 3 {enc_json(j)})" for j in cases])
        for j, o in zip(cases, outs):
            try:
                text = dec_str(parse_sexp(o))
            except Exception:
                text = None
            exp = json.dumps(j, indent=4)
            ctx.count("json_writer_cases")
            if text != exp:
                ctx.disagree("json.dump(indent=4) text", repr(j)[:300], repr(text)[:300], repr(exp)[:300])
        texts = [json.dumps(j, indent=rng.choice([None, 2, 4])) for j in cases[:150]] + ["[1,]", "{\"a\" 1}", "nul", "\"\\x\"", "[1 2]", "01x"]
        outs = ctx.model.ask_many(["(115 4 " + common.enc_str(t) + ")" for t in texts])
        for t, o in zip(texts, outs):
            ctx.count("json_reader_cases")
            try:
                exp = ("some", json.loads(t))
            except Exception:
                exp = ("none",)
            try:
                x = parse_sexp(o)
                got = ("some", dec_json(x[0])) if x else ("none",)
            except Exception:
                got = ("bad", o[:100])
            if got != exp and not (t == "01x"):
                ctx.disagree("JSON reader vs json.loads", t[:200], repr(got)[:300], repr(exp)[:300])

    # ---------------- (1) correspondence on arbitrary small workbooks
    n_wild = (6000 if thorough else 700) * scale
    wild = [W.gen_wild_workbook(rng) for _ in range(n_wild)]
    mres = model_compile(ctx, wild)
    for wb, m in zip(wild, mres):
        i = run_impl(wb)
        ok, note = agree(m, i)
        ctx.count("wild_" + note.split(":")[0].replace(" ", "_")[:40])
        ctx.count("wild_impl_" + (W.CLASS_NAMES.get(i[1], "unclassified:" + str(i[2])) if i[0] == "err" else "ok"))
        v.coverage["evaluations"] += 1
        nontrivial.add(("wild", i[0], i[1] if i[0] == "err" else len(i[1])))
        if not ok:
            ctx.disagree("compile verdict (arbitrary workbook): " + note, dict(workbook=wb), m, i)

    # ---------------- (1b) directed: blank padding cells in the edge columns of rows that do not create a node.
    # Model (which follows the regenerated probe padding_edges_dropped_at_read) vs implementation; the verdicts
    # of the implementation are recorded: they say what the tool at hand does with a padded go_to row.
    padded = W.padded_workbooks()
    mpad = model_compile(ctx, [w for _, w in padded])
    ctx.stats["padded_rows_impl"] = {}
    for (label, wb), m in zip(padded, mpad):
        i = run_impl(wb)
        ok, note = agree(m, i)
        ctx.count("padded_" + note.split(":")[0].replace(" ", "_")[:40])
        ctx.stats["padded_rows_impl"][label] = "compiles" if i[0] == "ok" else W.CLASS_NAMES.get(i[1], "stopped: " + str(i[2]))
        v.coverage["evaluations"] += 1
        nontrivial.add(("padded", label, i[0]))
        if not ok:
            ctx.disagree(f"compile verdict (padded row: {label}): " + note, dict(workbook=wb), m, i)

    # ---------------- (2) valid workbooks and their injected variants
    n_valid = (40 if thorough else 6) * scale
    per_class = None if thorough else 6
    valids = []
    tries = 0
    while len(valids) < n_valid and tries < n_valid * 20:
        tries += 1
        wb = W.gen_valid_workbook(rng, size=2 if (thorough and rng.random() < 0.3) else 1)
        i = run_impl(wb)
        if i[0] != "ok":
            ctx.count("generator_rejects")
            ctx.stats.setdefault("generator_reject_reasons", {})
            key = W.CLASS_NAMES.get(i[1], str(i[2]))
            ctx.stats["generator_reject_reasons"][key] = ctx.stats["generator_reject_reasons"].get(key, 0) + 1
            continue
        valids.append((wb, i))
    ctx.count("valid_workbooks", len(valids))
    mval = model_compile(ctx, [w for w, _ in valids])
    jobs = []      # (kind, workbook, sentinel, meta)
    for k, ((wb, i), m) in enumerate(zip(valids, mval)):
        ok, note = agree(m, i)
        if not ok or (m is not None and m[0] != "ok"):
            ctx.disagree("compile verdict (valid workbook): " + note, dict(workbook=wb), m, i)
        ctx.count("valid_flows", len(i[1]))
        ctx.count("valid_rows", sum(len(s[1]) for _, s in wb["sheets"] if s[0] == "flow"))
        jobs.append(("valid", wb, k % 2 == 0, dict(index=k, impl=i)))
        cands = W.inject_candidates(wb)
        by_class = {}
        for c in cands:
            by_class.setdefault(c[0], []).append(c)
        ctx.stats.setdefault("injectable_positions", {})
        for key, lst in sorted(by_class.items()):
            ctx.stats["injectable_positions"][key] = ctx.stats["injectable_positions"].get(key, 0) + len(lst)
            if per_class is not None:
                # spread the per-class budget over the workbooks
                quota = max(1, (per_class + n_valid - 1) // n_valid)
                lst = rng.sample(lst, min(quota, len(lst)))
            for (key_, codes, desc, tokens, mutate) in lst:
                w2 = W.copy.deepcopy(wb)
                mutate(w2)
                jobs.append(("fault", w2, rng.random() < 0.5, dict(key=key_, codes=codes, desc=desc, tokens=tokens, base=k)))

    # model and in-process implementation on every injected workbook
    faulty = [j for j in jobs if j[0] == "fault"]
    mf = model_compile(ctx, [j[1] for j in faulty])
    for j, m in zip(faulty, mf):
        i = run_impl(j[1])
        j[3]["model"] = m
        j[3]["impl"] = i
        ok, note = agree(m, i)
        ctx.count("inject_" + note.split(":")[0].replace(" ", "_")[:40])
        if not ok:
            ctx.disagree(f"compile verdict (injected {j[3]['key']}, {j[3]['desc']}): " + note, dict(workbook=j[1]), m, i)
        elif m is not None and m[0] == "err" and m[1] not in j[3]["codes"]:
            ctx.disagree(f"injected {j[3]['key']} ({j[3]['desc']}): the model stops with class {m[1]}, expected {j[3]['codes']}",
                         dict(workbook=j[1]), m, i)
        elif m is not None and m[0] == "ok":
            # the model compiles the injected workbook and the implementation agrees: the position
            # is not evaluated (e.g. a template no evaluated row inserts); the property asks nothing
            j[3]["not_evaluated"] = True
            ctx.count("inject_not_evaluated_position")

    # ---------------- (2c) the invocation environments: the same faults under every configuration and run shape
    try:
        env_jobs, env_info = environment_jobs(ctx, jobs)
    except Exception as e:      # the discovery met a tree it cannot read: say so, do not hide the rest of the check
        env_jobs, env_info = [], {}
        ctx.disagree("the invocation-environment stream could not be set up on this tree", None,
                     f"{type(e).__name__}: {e}"[:300], traceback.format_exc()[-600:])
    jobs = [j + (None,) for j in jobs] + env_jobs

    # the real command, in a pool
    def work(job):
        return run_cli(job[1], job[2], job[4])

    with concurrent.futures.ThreadPoolExecutor(max_workers=16) as ex:
        results = list(ex.map(work, jobs))

    # what the model of the command says under the configuration of each fault run (Io/Cli.v cli_in)
    predictions = {}
    if ctx.model is not None:
        ask = [(n, j) for n, j in enumerate(jobs) if j[0] == "fault" and j[4] is not None and j[3].get("model") is not None
               and j[3]["model"][0] == "err" and j[3]["model"][1] not in (98, 99) and j[4]["cfg_id"] in env_info]
        outs = ctx.model.ask_many([cli_in_request(j[1], SENTINEL if j[2] else None, j[4]["cfg_id"]) for _, j in ask])
        for (n, _), o in zip(ask, outs):
            try:
                predictions[n] = parse_sexp(o)
            except Exception:
                predictions[n] = None

    samples = []
    for n, (job, res) in enumerate(zip(jobs, results)):
        kind, wb, sentinel, meta, inv = job
        if res.get("unavailable"):
            ctx.count("cli_configuration_unavailable_here")
            continue
        v.coverage["evaluations"] += 1
        ctx.count("cli_runs")
        ctx.count("cli_with_sentinel" if sentinel else "cli_without_output_file")
        start = 0
        where = ""
        if inv is not None:
            start = env_info.get(inv["cfg_id"], {}).get("start", 0)
            where = " [" + E.describe(inv) + "]"
            tally_invocation(ctx, inv, start)
        rep_extra = dict(inv=inv, cfg_start=start) if inv is not None else {}
        if kind == "valid":
            nontrivial.add(("valid", meta["index"], E.describe(inv) if inv else ""))
            if start != 0:
                # the configuration does not let the command get to the workbook: nothing may appear at the output path
                bad = oracle_fault(res, sentinel, [], start)
                if bad:
                    v.failing_input("output_touched_by_a_command_that_cannot_start",
                                    f"valid workbook{where}: {'; '.join(bad)}",
                                    dict(workbook=wb, sentinel=sentinel, kind="fault", key="not_started", tokens=[],
                                         observed=_short(res), **rep_extra))
                continue
            bad = oracle_valid(res)
            if bad:
                v.failing_input("valid_workbook_rejected", f"valid workbook{where}: {bad}",
                                dict(workbook=wb, sentinel=sentinel, kind="valid", observed=_short(res), **rep_extra))
            else:
                d = cli_doc(res)
                exp = list(meta["impl"][1])
                multi = (inv or {}).get("shape", {}).get("multi")
                if multi == "extra-first":
                    exp = [E.EXTRA_FLOW] + exp
                elif multi == "extra-last":
                    exp = exp + [E.EXTRA_FLOW]
                if d is not None and (d[1] != exp):
                    ctx.disagree("command output vs library call" + where, dict(workbook=wb), exp, d)
                if len(samples) < 2:
                    samples.append(dict(kind="valid", flows=d[1] if d else None, status=res["status"]))
        else:
            key = meta["key"]
            if meta.get("not_evaluated"):
                if res["status"] != 0 and start == 0:
                    ctx.disagree(f"model: document, command: status {res['status']} ({key}, {meta['desc']}){where}", dict(workbook=wb), meta.get("model"), _short(res))
                continue
            ctx.count("fault_" + key)
            nontrivial.add((key, meta["desc"].split(" ")[0], meta["base"], E.describe(inv) if inv else ""))
            bad = oracle_fault(res, sentinel, meta["tokens"], start)
            if bad:
                v.failing_input(key, f"{key} at {meta['desc']}{where}: {'; '.join(bad)}",
                                dict(workbook=wb, sentinel=sentinel, kind="fault", key=key, tokens=meta["tokens"],
                                     desc=meta["desc"], observed=_short(res), model=meta.get("model"), **rep_extra))
            # model prediction vs observed status
            m = meta.get("model")
            if m is not None and m[0] in ("ok", "err") and not (m[0] == "err" and m[1] in (98, 99)) and start == 0:
                if (m[0] == "ok") != (res["status"] == 0):
                    ctx.disagree(f"model prediction vs exit status ({key}, {meta['desc']}){where}", dict(workbook=wb), m, _short(res))
            if n in predictions:
                pr = predictions[n]
                ctx.count("cli_in_predictions")
                if not pr or pr[0] != 1:
                    ctx.count("cli_in_model_does_not_say")
                    ctx.disagree(f"cli_in: the model does not say what the command does under configuration {inv['cfg']['name']} "
                                 f"({key}, {meta['desc']})", dict(workbook=wb), pr, _short(res))
                else:
                    kept = (dec_str(pr[2][0]) == SENTINEL) if (sentinel and pr[2]) else (not pr[2])
                    seen_kept = (res["out_content"] == SENTINEL) if sentinel else (not res["out_exists"])
                    if pr[1] != res["status"] or kept != seen_kept:
                        ctx.disagree(f"cli_in (status, output kept) under configuration {inv['cfg']['name']} ({key}, {meta['desc']})",
                                     dict(workbook=wb), [pr[1], kept], [res["status"], seen_kept])
            if len(samples) < 8 and not bad:
                samples.append(dict(kind=key, at=meta["desc"] + where, status=res["status"],
                                    said=((res["stderr"] or res["log"]).strip().splitlines() or [""])[-1][:160]))

    # ---------------- (3) the model of the command itself: file system unchanged on error, dump on success
    if ctx.model is not None and valids:
        wb = valids[0][0]
        for old in (None, SENTINEL):
            o = parse_sexp(ctx.model.ask(W.cli_request(wb, old)))
            text = dec_str(o[1][0]) if o[1] else None
            ok = o[0] == 0 and text is not None
            try:
                d = json.loads(text)
                ok = ok and [f["name"] for f in d["flows"]] == valids[0][1][1]
            except Exception:
                ok = False
            if not ok:
                ctx.disagree("cli model on a valid workbook", dict(workbook=wb, old=old), o, valids[0][1])
        if faulty:
            o = parse_sexp(ctx.model.ask(W.cli_request(faulty[0][1], SENTINEL)))
            if o[0] == 0 or not o[1] or dec_str(o[1][0]) != SENTINEL:
                ctx.disagree("cli model on a faulty workbook", dict(workbook=faulty[0][1]), o, "status != 0, sentinel kept")

    v.coverage["distinct_nontrivial"] = len(nontrivial)
    v.coverage["rule"] = ("distinct (fault class, injected position kind, base workbook) triples run through the real command, "
                          "plus distinct (verdict, class) outcomes of the arbitrary-workbook stream")
    v.coverage["samples"] = samples
    v.assumptions[:] = [
        "workbooks are one CSV folder over the vocabulary of coq/theories/Io/CliFlow.v (no node names, attachments, "
        "set_contact_*, airtime, native {@ @} templates, tags, filter/sort operations, sheet-typed template arguments)",
        "a fault is injected where the tool evaluates the row: not under a false include_if, not inside an omitted block, "
        "not in a flow removed by ignore_row",
        "an unknown data_model is a fault only when --datamodels is given (without it the name is ignored by the tool)",
        "process death from outside (signal, full disk) while json.dump writes is not modelled: the command writes in place",
        "fault class of the implementation is read from its message/exception where recognisable; other messages count as 'stopped'",
        "invocation environments: every environment variable read anywhere in the package (ast scan + traced probe) x a fixed list of "
        "plausible values plus the string constants the CLI/logger modules compare things with; log file pre-existing / a directory / "
        "a dangling symlink; a cwd nobody can write to (/sys); --tags, --datamodels, every other option of the subcommand; formats "
        "csv, json, xlsx (google_sheets needs the network: not run); a variable whose name is computed in code the probe does not "
        "execute, values outside the list, and the process environment of Python itself (PYTHON*) are not covered",
        "under a configuration in which the command ends before it reads the workbook (log file cannot be opened) 'names the problem' "
        "is not asked: the tool never saw the fault; non-zero status, something on stderr and an untouched output path are",
    ]


def _short(res):
    return dict(status=res["status"], stderr=(res["stderr"] or "")[-600:], log=(res["log"] or "")[-600:],
                out_exists=res["out_exists"], out_is_sentinel=(res["out_content"] == SENTINEL),
                out_len=len(res["out_content"]) if res["out_content"] is not None else None, argv=res.get("argv"),
                env=res.get("env"), cwd=res.get("cwd"))


def replay(rep):
    r = rep["replay"]
    wb = r["workbook"]
    # JSON turns tuples into lists: restore the tagged pairs the renderers expect
    wb = _retuple(wb)
    inv = r.get("inv")
    start = r.get("cfg_start", 0)
    res = run_cli(wb, r.get("sentinel", False), inv)
    if res.get("unavailable"):
        print("this configuration cannot be set up on this machine")
        return True
    if inv:
        print("invocation:", E.describe(inv), " environment:", res.get("env"), " cwd:", res.get("cwd"))
    print("argv:", " ".join(res["argv"]))
    print("status:", res["status"], " output exists:", res["out_exists"],
          " output is sentinel:", res["out_content"] == SENTINEL)
    print("stderr:", (res["stderr"] or "")[-500:])
    print("log:", (res["log"] or "")[-300:])
    if r.get("kind") == "valid":
        bad = oracle_valid(res)
    else:
        bad = oracle_fault(res, r.get("sentinel", False), r.get("tokens", []), start)
    for b in bad:
        print("property fails:", b)
    return not bad


def _retuple(wb):
    def T(t):
        return [tuple(x) for x in t]

    def fix_row(r):
        r = dict(r)
        r["id"] = T(r["id"])
        r["main"] = T(r["main"])
        r["lst"] = [T(x) for x in r["lst"]]
        r["edges"] = [dict(frm=T(e["frm"]), cond=e["cond"]) for e in r["edges"]]
        r["headers"] = [tuple(h) for h in r["headers"]]
        if isinstance(r["inc"], list):
            r["inc"] = tuple(r["inc"])
        return r

    sheets = []
    for n, s in wb["sheets"]:
        s = list(s)
        if s[0] == "flow":
            s[1] = [fix_row(r) for r in s[1]]
        elif s[0] == "index":
            s[1] = [dict(r, argdefs=[tuple(a) for a in r["argdefs"]]) for r in s[1]]
        elif s[0] == "data":
            s[2] = [tuple(x) for x in s[2]]
        sheets.append((n, tuple(s)))
    return dict(wb, sheets=sheets)
