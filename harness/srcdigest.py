"""Normalised-AST digests of the functions of a Python source file (no import of the file: `ast` only).
Docstrings, comments, formatting and line numbers do not matter; any other change of a function's code does."""
import ast
import hashlib
import json
import os


def _strip_doc(node):
    body = getattr(node, "body", None)
    if isinstance(body, list) and body and isinstance(body[0], ast.Expr) and isinstance(getattr(body[0], "value", None), ast.Constant) \
            and isinstance(body[0].value.value, str):
        node.body = body[1:] or [ast.Pass()]


def file_digests(path):
    """-> {qualname: digest} for every function/method, plus '<module>' for the module-level statements outside functions/classes"""
    try:
        tree = ast.parse(open(path, encoding="utf-8").read())
    except (OSError, SyntaxError) as e:
        return {"<unreadable>": type(e).__name__}
    out = {}

    def dig(node):
        for n in ast.walk(node):
            _strip_doc(n)
        return hashlib.sha256(ast.dump(node, include_attributes=False).encode()).hexdigest()[:12]

    def walk(node, prefix):
        rest = []
        for ch in getattr(node, "body", []):
            if isinstance(ch, (ast.FunctionDef, ast.AsyncFunctionDef)):
                out[prefix + ch.name] = dig(ch)
            elif isinstance(ch, ast.ClassDef):
                walk(ch, prefix + ch.name + ".")
            else:
                rest.append(ch)
        m = ast.Module(body=rest, type_ignores=[])
        out[prefix + "<body>"] = dig(m)

    walk(tree, "")
    return out


def drift(verif, repo, files):
    """functions of `files` (relative to the repo root) whose digest differs from translator/source_baseline.json"""
    bp = os.path.join(verif, "translator", "source_baseline.json")
    if not os.path.exists(bp):
        return None
    base = json.load(open(bp)).get("files", {})
    changed = []
    for f in files:
        if not f.endswith(".py"):
            continue
        cur = file_digests(os.path.join(repo, f))
        old = base.get(f, {})
        for k in sorted(set(cur) | set(old)):
            if cur.get(k) != old.get(k):
                changed.append(f"{f}:{k}")
    return changed
