"""C10 — content index resolution is sequential with last definition winning.

(a) correspondence: generated histories (index rows of every type, nested indexes, renames,
    duplicates, ignore rows, draft status, 0..3 tag columns, tag filters, sheets spread over
    1..3 workbooks, every workbook order) go through the real `rpft.converters.create_flows`
    on CSV folders and through the extracted Gallina model (engine 110); compared projection:
    ordered flow names and, per flow, the (workbook, sheet) of the template, the template
    argument default in force and the (workbook, sheet, row) of the data row; ordered
    campaigns (name, sheet, group); ordered triggers (sheet, row, flow).
(b) oracle: a reference interpretation of the index written from the property text
    (`ref_run`, declarative: survivors of ignore rows, last content / first position),
    evaluated against the implementation on every history.
Also: TagMatcher construction/matches and int() against the model, directly."""
import csv
import itertools
import os
import shutil
import tempfile

from common import enc_str, enc_list, parse_sexp, dec_str, run_cli_mode

LEVEL = "proof"

FLOW_SHEETS = ["A", "B", "C"]
DATA_SHEETS = ["D1", "D2"]
CAMP_SHEETS = ["C1", "C2"]
TRIG_SHEETS = ["T1", "T2"]
SUB_SHEETS = ["sub1", "sub2", "sub3"]
NEW_NAMES = ["A", "B", "X", "Y", "C1", "T1", "A - r1", "B - r2", "D1"]
ROW_IDS = ["r1", "r2", "r3"]
TAGS = ["a", "b", "c"]
ROOT = "content_index"
TYPES = ["create_flow", "ignore_row", "template_definition", "data_sheet", "create_campaign",
         "create_triggers", "content_index", "other"]
WEIGHTS = [34, 14, 8, 9, 10, 8, 10, 4]
ROW_FIELDS = ["type", "status", "tags", "sheets", "new", "dsheet", "drow", "group", "targ"]


# ------------------------------------------------------------------ generator

def gen_row(rng, st, ntags, here, malformed):
    """One abstract index row.  `here` = name of the index sheet it is written in."""
    ty = rng.choices(TYPES, WEIGHTS)[0]
    row = dict(type=ty, status="", tags=[], sheets=[], new="", dsheet="", drow="", group="", targ="")
    x = rng.random()
    row["status"] = "" if x < 0.8 else ("draft" if x < 0.92 else rng.choice(["Draft", "live", "draf", "drafts"]))
    row["tags"] = [("" if rng.random() < 0.6 else rng.choice(TAGS)) for _ in range(ntags)]
    if ty == "create_flow":
        row["sheets"] = [rng.choice(FLOW_SHEETS)]
        if rng.random() < 0.5:
            row["new"] = rng.choice(NEW_NAMES)
        y = rng.random()
        if y < 0.22:
            row["dsheet"] = rng.choice(st["data_names"])
        elif y < 0.36:
            row["dsheet"] = rng.choice(st["data_names"])
            row["drow"] = rng.choice(ROW_IDS)
        elif malformed and y < 0.40:
            row["drow"] = rng.choice(ROW_IDS)
    elif ty == "ignore_row":
        row["sheets"] = [rng.choice(FLOW_SHEETS + NEW_NAMES + CAMP_SHEETS + TRIG_SHEETS)]
    elif ty == "template_definition":
        row["sheets"] = [rng.choice(FLOW_SHEETS)]
        st["n"] += 1
        row["targ"] = "" if rng.random() < 0.35 else f"t{st['n']}"
        if rng.random() < 0.2:
            row["new"] = rng.choice(NEW_NAMES)
    elif ty == "data_sheet":
        row["sheets"] = [rng.choice(DATA_SHEETS)]
        if rng.random() < 0.12:
            row["sheets"].append(rng.choice(DATA_SHEETS + ["E"]))
        if rng.random() < 0.5:
            row["new"] = rng.choice(["D1", "D2", "E"])
    elif ty == "create_campaign":
        row["sheets"] = [rng.choice(CAMP_SHEETS)]
        if rng.random() < 0.45:
            row["new"] = rng.choice(NEW_NAMES)
        st["n"] += 1
        row["group"] = f"g{st['n']}"
    elif ty == "create_triggers":
        row["sheets"] = [rng.choice(TRIG_SHEETS)]
        if rng.random() < 0.2:
            row["new"] = rng.choice(NEW_NAMES)
    elif ty == "content_index":
        later = [s for s in st["subs"] if here == ROOT or s > here]
        if malformed and rng.random() < 0.15:
            later = SUB_SHEETS + [ROOT]          # may be cyclic
        row["sheets"] = [rng.choice(later)] if later else [rng.choice(FLOW_SHEETS)]
        if not later:
            row["type"] = "create_flow"
    else:
        row["type"] = rng.choice(["", "foo", "CREATE_FLOW", "ignore", "create flow"])
        row["sheets"] = [rng.choice(FLOW_SHEETS)]
    if malformed:
        z = rng.random()
        if z < 0.08:
            row["sheets"] = []
        elif z < 0.16:
            row["sheets"] = row["sheets"] + [rng.choice(FLOW_SHEETS)]
        elif z < 0.30:
            row["sheets"] = [rng.choice(["missing"] + FLOW_SHEETS + DATA_SHEETS + CAMP_SHEETS + TRIG_SHEETS + SUB_SHEETS)]
    return row


def gen_params(rng, malformed):
    x = rng.random()
    if x < 0.35:
        return []
    params = []
    if malformed and rng.random() < 0.3:
        params.append(rng.choice(["a", "1.0", "", "x1", "1 2"]))
    for _ in range(rng.choice([1, 1, 2, 2, 3])):
        pos = rng.choice(["1", "1", "2", "2", "3", "1", "2"]) if rng.random() < 0.8 else \
            rng.choice(["0", "-1", " 2", "+1", "1_0", "01", "4", "2 ", "\t1"])
        params.append(pos)
        for _ in range(rng.choice([0, 1, 1, 2, 3])):
            params.append(rng.choice(TAGS + TAGS + ["", "zz", "A"]))
    return params


def gen_case(rng, malformed=False):
    """Mostly-valid stream: up to 6 draws until the reference interpretation of the history (in
    generation order of the workbooks) succeeds; the malformed stream takes the first draw."""
    case = gen_case1(rng, malformed)
    if malformed:
        return case
    for _ in range(5):
        if ref(case, case["labels"])[0] == "ok":
            break
        case = gen_case1(rng, malformed)
    return case


def gen_case1(rng, malformed=False):
    """An abstract history: workbooks (label -> sheets), tag-filter parameters."""
    nwb = rng.choice([1, 1, 2, 2, 2, 3, 3])
    labels = [f"w{i}" for i in range(nwb)]
    wbs = {l: {} for l in labels}
    st = dict(n=0, data_names=DATA_SHEETS + DATA_SHEETS + ["E"])

    def place(name, p_exist=1.0, p_extra=0.3):
        if rng.random() > (p_exist if not malformed else p_exist * 0.85):
            return []
        first = rng.choice(labels)
        return [l for l in labels if l == first or rng.random() < p_extra]

    for n in FLOW_SHEETS:
        for l in place(n):
            wbs[l][n] = dict(kind="flow")
    for n in DATA_SHEETS:
        for l in place(n):
            k = rng.choice([1, 2, 2, 3, 3])
            ids = rng.sample(ROW_IDS, k)
            if rng.random() < 0.06:
                ids.append(ids[0])
            if rng.random() < 0.04:
                ids = []
            wbs[l][n] = dict(kind="data", ids=ids)
    for n in CAMP_SHEETS:
        for l in place(n):
            wbs[l][n] = dict(kind="campaign")
    for n in TRIG_SHEETS:
        for l in place(n):
            fl = [rng.choice(["A", "A", "B", "X", "A - r1"]) for _ in range(rng.choice([1, 1, 2]))]
            wbs[l][n] = dict(kind="triggers", flows=fl)
    budget = rng.randint(1, 15)
    idx_places = [(ROOT, l) for l in place(ROOT, 0.995 if not malformed else 0.93, 0.45)]
    for n in SUB_SHEETS:
        idx_places += [(n, l) for l in place(n, 0.85, 0.3)]
    st["subs"] = sorted({n for n, _ in idx_places if n != ROOT})
    # distribute the row budget: the root indexes first
    counts = {p: 0 for p in idx_places}
    for _ in range(budget):
        if not idx_places:
            break
        roots = [p for p in idx_places if p[0] == ROOT]
        p = rng.choice(roots) if roots and rng.random() < 0.55 else rng.choice(idx_places)
        counts[p] += 1
    for (n, l) in idx_places:
        ntags = rng.choice([0, 0, 1, 2, 3])
        rows = [gen_row(rng, st, ntags, n, malformed) for _ in range(counts[(n, l)])]
        wbs[l][n] = dict(kind="index", ntags=ntags, rows=rows)
    case = dict(labels=labels, wbs=wbs, params=gen_params(rng, malformed))
    avoid_empty_wrong_kind(case)
    return case


EXPECTED_KIND = {"create_flow": "flow", "template_definition": "flow", "data_sheet": "data",
                 "create_campaign": "campaign", "create_triggers": "triggers", "content_index": "index"}


def avoid_empty_wrong_kind(case):
    """A header-only table parses without error under any row model, so an *empty* sheet used
    in the wrong role is not an error in the implementation; the model abstracts sheets by
    kind and has no such notion.  Outside the domain: such references are redirected to a
    missing sheet."""
    def empty(sh):
        return (sh["kind"] == "index" and not sh["rows"]) or (sh["kind"] == "data" and not sh["ids"])

    for l in case["labels"]:
        for n, sh in case["wbs"][l].items():
            if sh["kind"] != "index":
                continue
            for r in sh["rows"]:
                want = EXPECTED_KIND.get(r["type"])
                if want is None:
                    continue
                for i, s in enumerate(r["sheets"]):
                    for l2 in case["labels"]:
                        sh2 = case["wbs"][l2].get(s)
                        if sh2 is not None and sh2["kind"] != want and empty(sh2):
                            r["sheets"][i] = "missing"


# ------------------------------------------------------------------ rendering to CSV

FLOW_MSG = "F~{l}~{n}/{{% if val is defined %}}{{{{val}}}}{{% endif %}}/{{% if arg is defined %}}{{{{arg}}}}{{% endif %}}"


def sheet_table(label, name, sh):
    k = sh["kind"]
    if k == "index":
        hdr = ["type", "sheet_name", "new_name", "data_sheet", "data_row_id", "group", "status", "template_arguments"]
        hdr += [f"tags.{i + 1}" for i in range(sh["ntags"])]
        out = [hdr]
        for r in sh["rows"]:
            out.append([r["type"], "|".join(r["sheets"]), r["new"], r["dsheet"], r["drow"], r["group"], r["status"],
                        (f"arg;;{r['targ']}|" if r["targ"] else "")] + list(r["tags"]))
        return out
    if k == "flow":
        return [["row_id", "type", "from", "message_text"],
                ["1", "send_message", "start", FLOW_MSG.format(l=label, n=name)]]
    if k == "data":
        return [["ID", "val"]] + [[i, f"D~{label}~{name}~{j}"] for j, i in enumerate(sh["ids"])]
    if k == "campaign":
        return [["offset", "unit", "event_type", "delivery_hour", "message", "relative_to", "start_mode", "flow"],
                ["1", "D", "M", "", f"C~{label}~{name}", "created_on", "I", ""]]
    if k == "triggers":
        return [["type", "keywords", "flow"]] + [["K", f"T~{label}~{name}~{j}", f] for j, f in enumerate(sh["flows"])]
    raise ValueError(k)


def write_case(case, order, root):
    paths = []
    for l in order:
        p = os.path.join(root, l)
        os.mkdir(p)
        paths.append(p)
        for name, sh in case["wbs"][l].items():
            with open(os.path.join(p, name + ".csv"), "w", newline="", encoding="utf-8") as f:
                csv.writer(f).writerows(sheet_table(l, name, sh))
    return paths


def project_impl(out):
    """The projection C10 talks about, from the rendered container."""
    flows = []
    for f in out["flows"]:
        texts = [a.get("text") for n in f["nodes"] for a in n["actions"]]
        if len(texts) != 1 or texts[0] is None:
            raise ValueError(f"unexpected flow shape {f['name']!r}: {texts!r}")
        m, val, arg = texts[0].split("/")
        _, l, n = m.split("~")
        data = None
        if val:
            _, dl, dn, dj = val.split("~")
            data = (dl, dn, int(dj))
        flows.append((f["name"], (l, n), arg, data))
    camps = []
    for c in out["campaigns"]:
        msgs = [e["message"]["eng"] for e in c["events"]]
        _, l, n = msgs[0].split("~")
        camps.append((c["name"], (l, n), c["group"]["name"]))
    trigs = []
    for t in out["triggers"]:
        _, l, n, j = t["keywords"][0].split("~")
        trigs.append(((l, n), int(j), t["flow"]["name"]))
    return ("ok", flows, camps, trigs)


def run_impl(case, order):
    from rpft.converters import create_flows

    root = tempfile.mkdtemp(prefix="c10_")
    try:
        paths = write_case(case, order, root)
        r = run_cli_mode(create_flows, paths, None, "csv", None, list(case["params"]))
        if r[0] == "ok":
            try:
                return project_impl(r[1])
            except Exception as e:      # an output that is not made of marker flows: report, never crash
                return ("shape", repr(e)[:200])
        if r[1] == "RecursionError":
            return ("diverges",)
        return ("err", r[1], r[2][:200])
    finally:
        shutil.rmtree(root, ignore_errors=True)


def check_index_parse(case, order):
    """The abstract rows are what the implementation's own row codec reads from the CSV
    (guards the generator and the rendering; the row codec itself is E2's subject)."""
    import tablib
    from rpft.parsers.common.cellparser import CellParser
    from rpft.parsers.common.rowparser import RowParser
    from rpft.parsers.common.sheetparser import SheetParser
    from rpft.parsers.creation.contentindexrowmodel import ContentIndexRowModel

    for l in order:
        for name, sh in case["wbs"][l].items():
            if sh["kind"] != "index":
                continue
            tab = sheet_table(l, name, sh)
            t = tablib.Dataset(headers=tab[0])
            for r in tab[1:]:
                t.append(r)
            got = SheetParser(RowParser(ContentIndexRowModel, CellParser()), t).parse_all()
            for g, r in zip(got, sh["rows"]):
                targ = g.template_argument_definitions[0].default_value if g.template_argument_definitions else ""
                a = (g.type, g.status, list(g.tags), list(g.sheet_name), g.new_name, g.data_sheet, g.data_row_id, g.group, targ)
                b = tuple(r[k] for k in ROW_FIELDS)
                if a != b or len(got) != len(sh["rows"]):
                    return (a, b)
    return None


# ------------------------------------------------------------------ model side

def enc_row(r):
    return enc_list([enc_str(r["type"]), enc_str(r["status"]), enc_list([enc_str(t) for t in r["tags"]]),
                     enc_list([enc_str(s) for s in r["sheets"]]), enc_str(r["new"]), enc_str(r["dsheet"]),
                     enc_str(r["drow"]), enc_str(r["group"]), enc_str(r["targ"])])


def enc_body(sh):
    k = sh["kind"]
    if k == "index":
        return "(0 " + enc_list([enc_row(r) for r in sh["rows"]]) + ")"
    if k == "flow":
        return "(1)"
    if k == "data":
        return "(2 " + enc_list([enc_str(i) for i in sh["ids"]]) + ")"
    if k == "campaign":
        return "(3)"
    return "(4 " + enc_list([enc_str(f) for f in sh["flows"]]) + ")"


def enc_case(case, order):
    wbs = enc_list([enc_list([enc_list([enc_str(n), enc_body(sh)]) for n, sh in case["wbs"][l].items()]) for l in order])
    return f"(110 1 {enc_list([enc_str(p) for p in case['params']])} {wbs})"


def dec_model(s, order):
    x = parse_sexp(s)
    if x and x[0] == 999999:
        return ("diverges",) if x[1] == 99 else ("err", x[1])
    if x and x[0] in (999998, 999997):
        return ("badinput", s)

    def sid(y):
        return (order[y[0]], dec_str(y[1]))

    flows = [(dec_str(f[0]), sid(f[1]), dec_str(f[2]), (sid(f[3][0][0]) + (f[3][0][1],)) if f[3] else None) for f in x[1]]
    camps = [(dec_str(c[0]), sid(c[1]), dec_str(c[2])) for c in x[2]]
    trigs = [(sid(t[0]), t[1], dec_str(t[2])) for t in x[3]]
    return ("ok", flows, camps, trigs)


# ------------------------------------------------------------------ reference interpretation
# Written from the property text.  Declarative where the property is: a definition counts
# iff no later ignore row names it; per name the content of the last surviving definition
# at the position of the first.

class RefErr(Exception):
    pass


class RefDiverges(Exception):
    pass


def ref_int(p):
    try:
        return int(p)
    except ValueError:
        return None


def ref_patterns(params):
    """position (0-based) -> allowed tags; a position is constrained once it has a tag"""
    pats = {}
    cur = None
    for p in params or []:
        v = ref_int(p)
        if v is not None:
            cur = v - 1
        else:
            if cur is None:
                raise RefErr("tags")
            pats.setdefault(cur, []).append(p)
    return pats


def ref_matches(pats, tags):
    return all(not (tag != "" and i in pats and tag not in pats[i]) for i, tag in enumerate(tags))


def ref_run(case, order):
    wbs = [case["wbs"][l] for l in order]

    def resolve(name):
        have = [i for i, wb in enumerate(wbs) if name in wb]
        if not have:
            raise RefErr("sheet not found " + name)
        return (order[have[-1]], name), wbs[have[-1]][name]

    def want(name, kind):
        ident, sh = resolve(name)
        if sh["kind"] != kind:
            raise RefErr(f"{name} is not a {kind} sheet")
        return ident, sh

    pats = ref_patterns(case["params"])

    def active(r):
        return r["status"] != "draft" and ref_matches(pats, r["tags"])

    # 1. the sequence of effective rows: top to bottom, nested indexes in place
    def flat(rows, depth):
        if depth > 30:
            raise RefDiverges()
        for r in rows:
            if not active(r):
                continue
            if r["type"] == "data_sheet":
                if len(r["sheets"]) < 1:
                    raise RefErr("sheet_name")
            elif len(r["sheets"]) != 1:
                raise RefErr("sheet_name")
            if r["type"] == "content_index":
                _, sh = want(r["sheets"][0], "index")
                yield from flat(sh["rows"], depth + 1)
            else:
                yield r

    roots = [(l, case["wbs"][l][ROOT]) for l in order if ROOT in case["wbs"][l]]
    if not roots:
        raise RefErr("no index")
    ops = []
    data = {}            # registry of data sheets: sequential, last definition of a name wins
    models = [0]
    templates = {}       # sheet name -> (identity, sheet, argument default): never removed
    for _, sh in roots:
        if sh["kind"] != "index":
            raise RefErr("root is not an index")
        for r in flat(sh["rows"], 0):
            ops.append(r)
            # things that happen (and may fail) when the row is met
            if r["type"] == "data_sheet":
                model, rows = None, {}
                for n in r["sheets"]:
                    if n in data:
                        m, rs = data[n]
                    else:
                        ident, dsh = want(n, "data")
                        models[0] += 1
                        m, rs = models[0], {}
                        for j, i in enumerate(dsh["ids"]):
                            rs[i] = ident + (j,)
                    if model is not None and model != m:
                        raise RefErr("concat models")
                    model = m
                    rows.update(rs)
                data[r["new"] or r["sheets"][0]] = (model, rows)
            elif r["type"] == "template_definition":
                ident, sh2 = resolve(r["sheets"][0])
                templates[r["sheets"][0]] = (ident, sh2, r["targ"])
            elif r["type"] == "create_campaign":
                want(r["sheets"][0], "campaign")
            elif r["type"] == "create_triggers":
                want(r["sheets"][0], "triggers")

    def ignored_later(i, key):
        return any(o["type"] == "ignore_row" and o["sheets"][0] == key for o in ops[i + 1:])

    def last_wins(defs):
        """[(name, content)] -> ordered [(name, content)]: last content, first position"""
        names = []
        for n, _ in defs:
            if n not in names:
                names.append(n)
        return [(n, [c for m, c in defs if m == n][-1]) for n in names]

    # 2. flows
    surv = [o for i, o in enumerate(ops) if o["type"] == "create_flow" and not ignored_later(i, o["new"] or o["sheets"][0])]
    for o in surv:
        s = o["sheets"][0]
        if s not in templates:
            ident, sh2 = resolve(s)
            templates[s] = (ident, sh2, "")
    defs = []
    for o in surv:
        s = o["sheets"][0]
        base = o["new"] or s

        def inst(name, drow):
            ident, sh2, targ = templates[s]
            if sh2["kind"] != "flow":
                raise RefErr("not a flow sheet")
            defs.append((name, (ident, targ, drow)))

        if o["dsheet"] and not o["drow"]:
            if o["dsheet"] not in data:
                raise RefErr("data sheet not registered")
            for i, mark in data[o["dsheet"]][1].items():
                inst(f"{base} - {i}", mark)
        elif not o["dsheet"] and o["drow"]:
            raise RefErr("row id without data sheet")
        elif o["dsheet"]:
            if o["dsheet"] not in data or o["drow"] not in data[o["dsheet"]][1]:
                raise RefErr("data row not registered")
            inst(f"{base} - {o['drow']}", data[o["dsheet"]][1][o["drow"]])
        else:
            inst(base, None)
    flows = [(n, c[0], c[1], c[2]) for n, c in last_wins(defs)]

    # 3. campaigns (by name) and trigger sheets (by sheet name)
    cdefs = [(o["new"] or o["sheets"][0], (resolve(o["sheets"][0])[0], o["group"])) for i, o in enumerate(ops)
             if o["type"] == "create_campaign" and not ignored_later(i, o["new"] or o["sheets"][0])]
    camps = [(n, c[0], c[1]) for n, c in last_wins(cdefs)]
    tdefs = [(o["sheets"][0], resolve(o["sheets"][0])) for i, o in enumerate(ops)
             if o["type"] == "create_triggers" and not ignored_later(i, o["sheets"][0])]
    trigs = []
    for n, (ident, sh2) in last_wins(tdefs):
        for j, f in enumerate(sh2["flows"]):
            trigs.append((ident, j, f))
    names = [f[0] for f in flows]
    if any(t[2] not in names for t in trigs):
        raise RefErr("trigger refers to an undefined flow")
    return ("ok", flows, camps, trigs)


def ref(case, order):
    try:
        return ref_run(case, order)
    except RefErr as e:
        return ("err", str(e))
    except RefDiverges:
        return ("diverges",)


def same(a, b):
    """results agree: both diverge, both fail (messages are never compared), or equal projections"""
    if a[0] != b[0]:
        return False
    return a[0] != "ok" or a[1:] == b[1:]


def diff_class(a, b):
    if a[0] != b[0]:
        return "ok-vs-error"
    for i, k in ((1, "flows"), (2, "campaigns"), (3, "triggers")):
        if a[i] != b[i]:
            return k + "-differ"
    return "same"


# ------------------------------------------------------------------ shrinking

def variants(case):
    """smaller histories: one row / one sheet / one workbook / one parameter less"""
    for l in case["labels"]:
        for n, sh in case["wbs"][l].items():
            if sh["kind"] == "index":
                for i in range(len(sh["rows"])):
                    c = clone(case)
                    del c["wbs"][l][n]["rows"][i]
                    yield c
    for l in case["labels"]:
        for n in list(case["wbs"][l]):
            c = clone(case)
            del c["wbs"][l][n]
            yield c
    if len(case["labels"]) > 1:
        for l in case["labels"]:
            c = clone(case)
            c["labels"] = [x for x in c["labels"] if x != l]
            del c["wbs"][l]
            yield c
    for i in range(len(case["params"])):
        c = clone(case)
        del c["params"][i]
        yield c


def clone(case):
    import copy
    return copy.deepcopy(case)


def shrink(case, order, bad, limit=150):
    """greedy: keep any smaller history on which bad(case, order) still holds"""
    n = 0
    progress = True
    while progress and n < limit:
        progress = False
        for c in variants(case):
            o = [l for l in order if l in c["labels"]]
            n += 1
            try:
                if bad(c, o):
                    case, order, progress = c, o, True
                    break
            except Exception:
                pass
            if n >= limit:
                break
    return case, order


# ------------------------------------------------------------------ the run

def hand_written_cases():
    """the probes of DESIGN §5-C10, kept as fixed cases"""
    def row(ty, sheet, **k):
        r = dict(type=ty, status="", tags=[], sheets=[sheet], new="", dsheet="", drow="", group="", targ="")
        r.update(k)
        return r

    F = dict(kind="flow")
    c1 = dict(labels=["w0", "w1"], params=[], wbs={
        "w0": {ROOT: dict(kind="index", ntags=0, rows=[
            row("create_flow", "A"), row("create_flow", "B", new="A"), row("create_flow", "B"),
            row("content_index", "sub1"), row("ignore_row", "B"), row("create_flow", "B", status="draft"),
            row("create_flow", "A", new="B")]),
            "sub1": dict(kind="index", ntags=0, rows=[row("create_flow", "C"), row("ignore_row", "A"), row("create_flow", "A")]),
            "A": F, "B": F, "C": F},
        "w1": {ROOT: dict(kind="index", ntags=0, rows=[row("create_flow", "C", new="A"), row("template_definition", "A", targ="t1"),
                                                       row("ignore_row", "A"), row("create_flow", "A", new="Z")]),
               "A": F, "sub1": dict(kind="index", ntags=0, rows=[row("create_flow", "B", new="Q")])}})
    c2 = dict(labels=["w0"], params=["1", "a", "2", "b"], wbs={
        "w0": {ROOT: dict(kind="index", ntags=2, rows=[
            row("create_flow", "A", tags=["a", ""]), row("create_flow", "A", new="X", tags=["b", ""]),
            row("create_flow", "A", new="Y", tags=["", "b"]), row("create_flow", "A", new="Z", tags=["a", "c"]),
            row("create_campaign", "C1", group="g1"), row("create_campaign", "C1", new="K", group="g2", tags=["c", "b"]),
            row("create_triggers", "T1"), row("data_sheet", "D1"), row("create_flow", "A", new="W", dsheet="D1")]),
            "A": F, "C1": dict(kind="campaign"), "T1": dict(kind="triggers", flows=["A", "Y"]),
            "D1": dict(kind="data", ids=["r1", "r2"])}})
    # a self-nested index: outside the domain; all three sides must say "diverges"
    c3 = dict(labels=["w0"], params=[], wbs={"w0": {ROOT: dict(kind="index", ntags=0, rows=[
        row("create_flow", "A"), row("content_index", ROOT)]), "A": F}})
    c4 = dict(labels=["w0"], params=[], wbs={"w0": {ROOT: dict(kind="index", ntags=0, rows=[row("content_index", "sub1")]),
                                                     "sub1": dict(kind="index", ntags=0, rows=[row("content_index", "sub2")]),
                                                     "sub2": dict(kind="index", ntags=0, rows=[row("content_index", "sub1")])}})
    # the history of coq/theories/Index/IndexExamples.v (the witness of the non-vacuity Examples
    # and of C10_design_item3_literal_refuted), replayed on the implementation on every run
    def t(r, tag=""):
        r["tags"] = [tag]
        return r
    c5 = dict(labels=["w0", "w1"], params=["1", "a"], wbs={
        "w0": {ROOT: dict(kind="index", ntags=1, rows=[
            t(row("create_flow", "A"), "a"), t(row("create_flow", "B", new="X")), t(row("create_flow", "A", new="X")),
            t(row("create_flow", "C", status="draft")), t(row("create_flow", "C"), "b"),
            t(row("create_campaign", "C1", new="camp", group="g1")), t(row("ignore_row", "A")),
            t(row("content_index", "sub1")), t(row("create_triggers", "T1"))]),
            "sub1": dict(kind="index", ntags=1, rows=[
                t(row("create_flow", "A"), "a"), t(row("create_campaign", "C1", new="camp", group="g2")),
                t(row("template_definition", "A", targ="t1"))]),
            "A": F, "B": F, "C1": dict(kind="campaign"), "T1": dict(kind="triggers", flows=["X"])},
        "w1": {ROOT: dict(kind="index", ntags=1, rows=[t(row("data_sheet", "D1")), t(row("create_flow", "C", dsheet="D1"))]),
               "A": F, "C": F, "D1": dict(kind="data", ids=["r1", "r2"])}})
    return [c1, c2, c3, c4, c5]


def run(ctx):
    from rpft.parsers.creation.tagmatcher import TagMatcher

    v = ctx.v
    rng = ctx.rng
    m = ctx.model
    thorough = ctx.tier == "thorough"
    n_hist = (30000 if thorough else 1000) * ctx.scale
    dist = {"histories": 0, "runs": 0, "ok": 0, "err": 0, "diverges": 0, "malformed_stream": 0,
            "workbooks": {}, "rows": {}, "rows_in_ok_runs": {}, "row_types": {}, "active_rows_ok_runs": 0, "tag_filter_nonempty": 0,
            "nested_depth>=1": 0, "ok_with_overwrite": 0, "ok_with_effective_ignore": 0, "multi_copy_sheet": 0,
            "err_kinds": {}}
    nontrivial = set()
    samples = []

    def bump(d, k):
        d[k] = d.get(k, 0) + 1

    def oracle_and_tie(case, order, tag):
        dist["runs"] += 1
        v.coverage["evaluations"] += 1
        im = run_impl(case, order)
        rf = ref(case, order)
        bump(dist, im[0] if im[0] in ("ok", "err", "diverges") else "err")
        if im[0] == "err":
            bump(dist["err_kinds"], im[1])
        if im[0] == "ok":
            names = [f[0] for f in im[1]]
            key = (tuple(names), tuple(c[0] for c in im[2]), len(im[3]), tuple(f[1] for f in im[1]))
            if len(im[1]) + len(im[2]) + len(im[3]) >= 2:
                nontrivial.add(key)
        # (b) the property's oracle on the implementation
        if not same(im, rf):
            def bad(c, o):
                return not same(run_impl(c, o), ref(c, o))
            # shrink only while the class is new: a mass failure must still end in minutes
            if v.viol_by_key.get(diff_class(im, rf), 0) < 2 and sum(v.viol_by_key.values()) < 12:
                c2, o2 = shrink(case, order, bad)
            else:
                c2, o2 = case, order
            im2, rf2 = run_impl(c2, o2), ref(c2, o2)
            v.failing_input(diff_class(im2, rf2),
                            f"create_flows gives {im2!r}; sequential last-definition-wins reading gives {rf2!r}",
                            dict(fn="history", case=c2, order=o2, impl=repr(im2), reference=repr(rf2)))
        # (a) correspondence with the extracted model
        if m:
            mo = dec_model(m.ask(enc_case(case, order)), order)
            mo_cmp = mo if mo[0] != "err" else ("err",)
            im_cmp = im if im[0] != "err" else ("err",)
            if mo_cmp != im_cmp:
                def bad2(c, o):
                    a = dec_model(m.ask(enc_case(c, o)), o)
                    b = run_impl(c, o)
                    return (a if a[0] != "err" else ("err",)) != (b if b[0] != "err" else ("err",))
                c2, o2 = shrink(case, order, bad2) if len(ctx.disagreements) < 3 else (case, order)
                ctx.disagree("create_flows projection (" + tag + ")", dict(case=c2, order=o2),
                             repr(dec_model(m.ask(enc_case(c2, o2)), o2)), repr(run_impl(c2, o2)))
        return im, rf

    # fixed cases first
    for case in hand_written_cases():
        for order in itertools.permutations(case["labels"]):
            oracle_and_tie(case, list(order), "fixed")

    # the witness of the Coq Examples (props/C10.v: C10_last_definition_wins_nonvacuous,
    # C10_design_item3_literal_refuted) must be what the implementation produces
    c5 = hand_written_cases()[4]
    want5 = ("ok",
             [("X", ("w1", "A"), "t1", None), ("A", ("w1", "A"), "t1", None),
              ("C - r1", ("w1", "C"), "", ("w1", "D1", 0)), ("C - r2", ("w1", "C"), "", ("w1", "D1", 1))],
             [("camp", ("w0", "C1"), "g2")], [(("w0", "T1"), 0, "X")])
    got5 = run_impl(c5, ["w0", "w1"])
    v.coverage["evaluations"] += 1
    if not same(got5, want5):
        ctx.disagree("witness history of the Coq Examples (IndexExamples.v)", dict(case=c5, order=["w0", "w1"]),
                     repr(want5), repr(got5))

    for k in range(n_hist):
        malformed = rng.random() < 0.15
        case = gen_case(rng, malformed)
        dist["histories"] += 1
        if malformed:
            dist["malformed_stream"] += 1
        bump(dist["workbooks"], len(case["labels"]))
        nrows = 0
        for l in case["labels"]:
            for n, sh in case["wbs"][l].items():
                if sh["kind"] == "index":
                    nrows += len(sh["rows"])
                    for r in sh["rows"]:
                        bump(dist["row_types"], r["type"] if r["type"] in TYPES else "other")
        bump(dist["rows"], nrows)
        if case["params"]:
            dist["tag_filter_nonempty"] += 1
        if any(sum(1 for l in case["labels"] if n in case["wbs"][l]) > 1 for n in FLOW_SHEETS + CAMP_SHEETS + TRIG_SHEETS + DATA_SHEETS + SUB_SHEETS):
            dist["multi_copy_sheet"] += 1
        bad_parse = check_index_parse(case, case["labels"])
        if bad_parse:
            ctx.disagree("index rows as parsed by the row codec vs generated rows", dict(case=case), repr(bad_parse[1]), repr(bad_parse[0]))
            continue
        orders = list(itertools.permutations(case["labels"]))
        if not thorough and len(orders) > 2 and rng.random() < 0.5:
            orders = rng.sample(orders, 3)
        for order in orders:
            im, rf = oracle_and_tie(case, list(order), "generated")
            if im[0] == "ok" and rf[0] == "ok":
                # how demanding was this history?
                pats = ref_patterns(case["params"])
                rows = [r for l in order for n, sh in case["wbs"][l].items() if sh["kind"] == "index" for r in sh["rows"]]
                act = [r for r in rows if r["status"] != "draft" and ref_matches(pats, r["tags"])]
                dist["active_rows_ok_runs"] += len(act)
                bump(dist["rows_in_ok_runs"], nrows)
                if any(r["type"] == "content_index" for r in act):
                    dist["nested_depth>=1"] += 1
                keys = [(r["type"], r["new"] or (r["sheets"] or [""])[0]) for r in act if r["type"] in ("create_flow", "create_campaign")]
                if len(set(keys)) < len(keys):
                    dist["ok_with_overwrite"] += 1
                if any(r["type"] == "ignore_row" and any(k[1] == r["sheets"][0] for k in keys) for r in act if r["sheets"]):
                    dist["ok_with_effective_ignore"] += 1
        if len(samples) < 3 and k % 50 == 7:
            samples.append(dict(labels=case["labels"], params=case["params"],
                                sheets={l: {n: (sh["kind"], len(sh.get("rows", []))) for n, sh in case["wbs"][l].items()} for l in case["labels"]}))

    # ------------------------------------------------ TagMatcher and int(), directly
    n_tm = (30000 if thorough else 3000) * ctx.scale
    tm_dist = {"cases": 0, "match": 0, "no_match": 0, "value_error": 0}
    reqs, cases = [], []
    for _ in range(n_tm):
        params = gen_params(rng, rng.random() < 0.2)
        tags = [("" if rng.random() < 0.4 else rng.choice(TAGS + ["zz", "A"])) for _ in range(rng.choice([0, 1, 2, 3, 4]))]
        cases.append((params, tags))
        reqs.append(f"(110 3 {enc_list([enc_str(p) for p in params])} {enc_list([enc_str(t) for t in tags])})")
    outs = m.ask_many(reqs) if m else [None] * len(reqs)
    for (params, tags), o in zip(cases, outs):
        v.coverage["evaluations"] += 1
        tm_dist["cases"] += 1
        try:
            im = TagMatcher(params).matches(tags)
        except ValueError:
            im = "ValueError"
        # the property's reading (C10-6): every non-empty tag at a constrained position is listed
        try:
            pats = ref_patterns(params)
            want = all(tag == "" or i not in pats or tag in pats[i] for i, tag in enumerate(tags))
        except RefErr:
            want = "ValueError"
        tm_dist["value_error" if im == "ValueError" else ("match" if im else "no_match")] += 1
        if im != want:
            v.failing_input("tag-filter", f"TagMatcher({params!r}).matches({tags!r}) = {im!r}, expected {want!r}",
                            dict(fn="tags", params=params, tags=tags))
        if o is not None:
            x = parse_sexp(o)
            mo = "ValueError" if isinstance(x, list) else (x == 1)
            if mo != im:
                ctx.disagree("TagMatcher.matches", dict(params=params, tags=tags), repr(mo), repr(im))
    dist["tagmatcher"] = tm_dist

    if m:
        alpha = ["0", "1", "7", "-", "+", "_", " ", "a", "\t", "\x1f", ".", "٣"]
        L = 4 if thorough else 3
        strs = [""] + ["".join(t) for n in range(1, L + 1) for t in itertools.product(alpha[:9] if n == L else alpha, repeat=n)]
        strs = [s for s in strs if not any(ord(c) > 127 and c.isdigit() for c in s)] + ["123456789012345678", "-0", "+007", "1_2_3", "９"]
        outs = m.ask_many([f"(110 2 {enc_str(s)})" for s in strs])
        n_int = 0
        for s, o in zip(strs, outs):
            v.coverage["evaluations"] += 1
            x = parse_sexp(o)
            mo = None if x == [] else (-x[0][1] if x[0][0] == 1 else x[0][1])
            im = ref_int(s)
            if any(ord(c) > 127 and c.isdigit() for c in s):
                continue   # non-ASCII decimal digits: outside the modelled domain (documented)
            n_int += 1
            if mo != im:
                ctx.disagree("int()", repr(s), repr(mo), repr(im))
        dist["int_strings"] = n_int

    ctx.stats["c10"] = dist
    v.coverage["distinct_nontrivial"] = len(nontrivial)
    v.coverage["rule"] = (
        "generated histories: 1..3 workbooks, root index in >= 1 of them, nested indexes sub1..sub3 (acyclic, depth <= 3), "
        "1..15 index rows of all types (create_flow incl. new_name/data_sheet/data_row_id, ignore_row, template_definition "
        "with an argument default, data_sheet, create_campaign, create_triggers, content_index, unknown types), draft/other "
        "status, 0..3 tag columns, generated tag filters; every sheet present in 1..3 workbooks with a marker naming "
        "(workbook, sheet, row); each history run under every workbook order (quick: up to 3 orders); 15% malformed stream "
        "(missing sheets, wrong-kind sheets, 0/2 sheet names, cyclic nesting, bad tag parameters). Each run: implementation "
        "vs reference interpretation (oracle) and vs extracted model (correspondence). non-trivial = distinct successful "
        "output (names, order, source sheets) with >= 2 flows/campaigns/triggers")
    v.coverage["samples"] = samples
    v.assumptions += [
        "index rows reach the fold as the row codec parses them (checked per history: generated row == parsed row)",
        "marker flows/campaigns/triggers compile without error (one send_message node, one M event, K triggers)",
        "cyclic index nesting is outside the domain (implementation: RecursionError, model: out of fuel)",
        "int() of a tag parameter: ASCII only (CPython also accepts non-ASCII decimal digits)",
    ]


def replay(rep):
    r = rep["replay"]
    if r["fn"] == "tags":
        from rpft.parsers.creation.tagmatcher import TagMatcher
        try:
            im = TagMatcher(r["params"]).matches(r["tags"])
        except ValueError:
            im = "ValueError"
        try:
            pats = ref_patterns(r["params"])
            want = all(tag == "" or i not in pats or tag in pats[i] for i, tag in enumerate(r["tags"]))
        except RefErr:
            want = "ValueError"
        return im == want
    if r["fn"] == "history":
        im = run_impl(r["case"], r["order"])
        rf = ref(r["case"], r["order"])
        print("implementation:", im)
        print("reference     :", rf)
        return same(im, rf)
    return True
