"""Reference rendering of abstract rows for RowSem (Flow/RowSem.v): the expected action
payloads and the initial decision of each row type, written from the RapidPro flow
specification and the sheet documentation (trusted, small), and the S-expression encoding
of rows.

Rows are encoded with ALL their edge entries, the blank padding entries of a rectangular sheet included (callers pass
sheetgen.written_rows): reading them is RowSem's business (read_row: an entry after the first that is blank throughout
is not an edge, in a row of any type; a has_group test names its group in a row of any type)."""
import json

from common import enc_str
from flowutil import json_sexp, ostr, canon_action
import sheetgen

WILD = 9999999
CLS = {"action": 0, "wait": 1, "split": 2, "group": 3, "random": 4, "flow": 5, "outcome": 6}


def field_key(name):
    return name.strip().lower().replace(" ", "_")


def num(s):
    try:
        return int(s)
    except ValueError:
        return float(s)


def expected_action(row):
    t = row["type"]
    a = row.get("arg", "")
    if t == "send_message":
        atts = []
        for k in ("image", "audio", "video"):
            v = row.get(k, "").strip()
            if v:
                atts.append(f"{k}:{v}")
        atts += [x for x in row.get("attachments", []) if x]
        return {"type": "send_msg", "text": a, "attachments": atts, "quick_replies": [q for q in row.get("choices", []) if q]}
    if t == "save_value":
        return {"type": "set_contact_field", "field": {"name": row["save_name"], "key": field_key(row["save_name"])}, "value": a}
    if t == "add_to_group":
        return {"type": "add_contact_groups", "groups": [{"name": a[0]}]}
    if t == "remove_from_group":
        return {"type": "remove_contact_groups", "groups": [{"name": a[0]}]}
    if t == "save_flow_result":
        d = {"type": "set_run_result", "name": row["save_name"], "value": a}
        if row.get("result_category"):
            d["category"] = row["result_category"]
        return d
    if t.startswith("set_contact_"):
        return {"type": t, t[len("set_contact_"):]: a}
    if t == "add_contact_urn":
        return {"type": "add_contact_urn", "path": a, "scheme": row.get("urn_scheme") or "tel"}
    if t == "start_new_flow":
        return {"type": "enter_flow", "flow": {"name": a}}
    if t == "call_webhook":
        return {"type": "call_webhook", "result_name": row["save_name"], "url": row["webhook_url"],
                "method": row.get("webhook_method") or "POST", "body": a, "headers": {k: v for k, v in row.get("webhook_headers", [])}}
    if t == "transfer_airtime":
        return {"type": "transfer_airtime", "amounts": {k: num(v) for k, v in a}, "result_name": row["save_name"]}
    return None


def cname(s):
    return "()" if s is None else "(" + enc_str(s) + ")"


def dec0(random=False, operand="", wait="(0)", result=None, cases=(), cats=(), default=None, noresp=None):
    cs = " ".join("(%s (%s) %d)" % (enc_str(t), " ".join(ostr(x) for x in args), i) for t, args, i in cases)
    return "((%d %s %s %s (%s) (%s) %s %s))" % (
        1 if random else 0, enc_str(operand), wait, ostr(result or None), cs,
        " ".join(cname(c) for c in cats), cname(default), "()" if noresp is None else "(" + cname(noresp) + ")")


def row_sexp(row):
    t = row["type"]
    act = expected_action(row)
    if act is not None:
        act = canon_action(act)   # same normal form as the implementation side (falsy optional fields dropped)
    acts = "(" + (json_sexp(act) if act is not None else "") + ")"
    if t in sheetgen.ACTION_TYPES:
        ty = "(0 %d %s ())" % (CLS["action"], acts)
    elif t == "wait_for_response":
        to = row.get("no_response", "")
        w = "(2 %d)" % int(to) if to and int(to) > 0 else "(1)"
        ty = "(0 %d () %s)" % (CLS["wait"], dec0(operand="@input.text", wait=w, result=row.get("save_name"),
                                                  noresp="No Response" if to and int(to) > 0 else None))
    elif t == "split_by_value":
        ty = "(0 %d () %s)" % (CLS["split"], dec0(operand=row["arg"], result=row.get("save_name")))
    elif t == "split_by_group":
        ty = "(0 %d () %s)" % (CLS["group"], dec0(operand="@contact.groups", result=row.get("save_name")))
    elif t == "split_random":
        ty = "(0 %d () %s)" % (CLS["random"], dec0(random=True, result=row.get("save_name")))
    elif t == "start_new_flow":
        ty = "(0 %d %s %s)" % (CLS["flow"], acts, dec0(operand="@child.run.status",
                                                      cases=[("has_only_text", ["completed"], 0), ("has_only_text", ["expired"], 1)],
                                                      cats=["Complete"], default="Expired"))
    elif t == "call_webhook":
        ty = "(0 %d %s %s)" % (CLS["outcome"], acts, dec0(operand="@results.%s.category" % field_key(row["save_name"]),
                                                         cases=[("has_only_text", ["Success"], 0)], cats=["Success"], default="Failure"))
    elif t == "transfer_airtime":
        ty = "(0 %d %s %s)" % (CLS["outcome"], acts, dec0(operand="@results.%s" % field_key(row["save_name"]),
                                                         cases=[("has_category", ["Success"], 0)], cats=["Success"], default="Failure"))
    elif t == "go_to":
        ty = "(1 (" + " ".join(enc_str(x) for x in row["arg"]) + "))"
    elif t == "no_op":
        ty = "(2)"
    elif t == "hard_exit":
        ty = "(3)"
    elif t == "loose_exit":
        ty = "(4)"
    elif t == "begin_block":
        ty = "(5)"
    elif t == "end_block":
        ty = "(6)"
    else:
        raise ValueError(f"row type {t} has no reference reading")
    es = []
    for e in row["edges"]:
        f = e["from"]
        fs = "()" if f == "" else ("(0)" if f == "start" else "(1 " + enc_str(f) + ")")
        es.append("(%s %s %s %s %s)" % (fs, enc_str(e["value"]), enc_str(e["variable"]), enc_str(e["ctype"]), enc_str(e["name"])))
    name = row.get("node_uuid") or row.get("node_name") or ""
    return "(%s %s %s (%s))" % (ty, enc_str(row.get("row_id", "")), enc_str(name), " ".join(es))


def rows_sexp(rows):
    return "(" + " ".join(row_sexp(r) for r in rows) + ")"


# ---------------------------------------------------------------- decoding a flow sexp (diagnostics)
def _s(x):
    if x == [WILD]:
        return "￿WILD"
    return "".join(chr(c) for c in x)


def _payload(x):
    """inverse of flowutil.json_sexp"""
    tag = x[0]
    if tag == 0:
        return None
    if tag == 1:
        return bool(x[1])
    if tag == 2:
        return -x[2] if x[1] else x[2]
    if tag == 3:
        return float(_s(x[1]))
    if tag == 4:
        return _s(x[1])
    if tag == 5:
        return [_payload(y) for y in x[1]]
    return {_s(k): _payload(v) for k, v in x[1]}


def flow_from_sexp(x):
    nodes = []
    for n in x[2]:
        nd = {"uuid": _s(n[0]), "actions": [dict(_payload(a[1]), uuid=_s(a[0])) for a in n[1]],
              "exits": [{"uuid": _s(e[0]), "destination_uuid": (_s(e[1][0]) if e[1] else None)} for e in n[2]]}
        if n[3]:
            r = n[3][0]
            if r[0] == 1:
                rt = {"type": "switch", "operand": _s(r[1]),
                      "cases": [{"uuid": _s(k[0]), "type": _s(k[1]), "arguments": [(_s(a[0]) if a else None) for a in k[2]], "category_uuid": _s(k[3])} for k in r[2]],
                      "categories": [{"uuid": _s(c[0]), "name": _s(c[1]), "exit_uuid": _s(c[2])} for c in r[3]],
                      "default_category_uuid": _s(r[4])}
                w = r[5]
                if w[0] == 1:
                    rt["wait"] = {"type": "msg"}
                elif w[0] == 2:
                    rt["wait"] = {"type": "msg", "timeout": {"seconds": w[1], "category_uuid": _s(w[2])}}
                if r[6]:
                    rt["result_name"] = _s(r[6][0])
            else:
                rt = {"type": "random", "categories": [{"uuid": _s(c[0]), "name": _s(c[1]), "exit_uuid": _s(c[2])} for c in r[1]]}
                if r[2]:
                    rt["result_name"] = _s(r[2][0])
            nd["router"] = rt
        nodes.append(nd)
    return {"uuid": _s(x[0]), "name": _s(x[1]), "nodes": nodes}
