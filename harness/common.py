"""Shared machinery of ./check: build (translator -> coqc -> extraction -> ocamlopt),
proof status, model process, evidence, known findings, verdict (DESIGN 2.4/2.5)."""
import fcntl
import hashlib
import json
import os
import re
import shutil
import subprocess
import sys
import tempfile
import time

VERIF = os.path.dirname(os.path.dirname(os.path.abspath(__file__)))
REPO = os.environ.get("RPFT_REPO", "/repo")
SRC = os.path.join(REPO, "src")
COQ = os.path.join(VERIF, "coq")
EXTRACT = os.path.join(COQ, "extract")
MODEL_BIN = os.path.join(EXTRACT, "rpft_model")
PY = "/venv/bin/python"
REPLAYS = os.path.join(VERIF, "replays")
EVIDENCE = os.path.join(VERIF, "evidence")

ERR = "(999999"  # prefix of model error results


def impl_env():
    env = dict(os.environ)
    env["PYTHONPATH"] = SRC
    env["PYTHONDONTWRITEBYTECODE"] = "1"
    env.setdefault("PYTHONHASHSEED", "0")
    env["RPFT_SRC"] = SRC
    return env


def use_impl():
    """Make `import rpft` resolve to /repo/src in this process and give it CLI semantics:
    a CRITICAL log record raises SystemExit(1), as the repository's ShutdownHandler does."""
    if SRC not in sys.path:
        sys.path.insert(0, SRC)
    sys.dont_write_bytecode = True
    import logging

    # module loggers of rpft.rapidpro.models print warnings through logging's last-resort
    # handler: keep stderr clean (warnings are not part of any property)
    rl = logging.getLogger("rpft")
    if not rl.handlers:
        rl.addHandler(logging.NullHandler())
        rl.propagate = False
    lg = logging.getLogger("main")
    if not any(isinstance(h, _Shutdown) for h in lg.handlers):
        lg.addHandler(_Shutdown())
        lg.setLevel(logging.INFO)
    return lg


import logging as _logging


class _Shutdown(_logging.Handler):
    """In-process equivalent of rpft.logger.logger.ShutdownHandler."""

    last = None

    def emit(self, record):
        if record.levelno >= _logging.CRITICAL:
            _Shutdown.last = record.getMessage()
            raise SystemExit(1)


class Crit(Exception):
    pass


def run_cli_mode(fn, *a, **k):
    """Run fn under CLI semantics. Returns ('ok', value) or ('err', kind, message)."""
    try:
        return ("ok", fn(*a, **k))
    except SystemExit:
        return ("err", "critical", str(_Shutdown.last))
    except RecursionError as e:
        return ("err", "RecursionError", "")
    except Exception as e:  # uncaught exception = traceback + status 1 under the CLI
        return ("err", type(e).__name__, str(e))


# ------------------------------------------------------------------------------ build

def sh(cmd, cwd=None, timeout=1200, env=None):
    p = subprocess.run(cmd, cwd=cwd, shell=isinstance(cmd, str), stdout=subprocess.PIPE,
                       stderr=subprocess.STDOUT, timeout=timeout, env=env, text=True)
    return p.returncode, p.stdout


class BuildStatus:
    def __init__(self):
        self.translator_ok = True
        self.translator_msg = ""
        self.make_ok = True
        self.make_log = ""
        self.failed_files = []
        self.extract_ok = True
        self.extract_log = ""
        self.tables_digest = ""


def build(verbose=False):
    """Regenerate Tables.v from /repo's current tree and rebuild whatever depends on what
    changed.  Serialised by a lock so that concurrent checks do not trample each other."""
    st = BuildStatus()
    os.makedirs(REPLAYS, exist_ok=True)
    os.makedirs(EVIDENCE, exist_ok=True)
    lock = open(os.path.join(VERIF, ".lock"), "w")
    fcntl.flock(lock, fcntl.LOCK_EX)
    try:
        rc, out = sh([PY, os.path.join(VERIF, "translator", "gen_tables.py")], env=impl_env(), timeout=300)
        if rc != 0:
            st.translator_ok = False
            st.translator_msg = out[-2000:]
            return st
        tv = os.path.join(COQ, "theories", "Gen", "Tables.v")
        st.tables_digest = hashlib.sha256(open(tv, "rb").read()).hexdigest()[:16]
        sh(["python3", os.path.join(VERIF, "tools", "gen_coqproject.py")])
        rc, out = sh("timeout 3000 make -k -j16 2>&1", cwd=COQ, timeout=3100)
        st.make_log = out
        if rc != 0:
            st.make_ok = False
            st.failed_files = sorted(set(re.findall(r'File "\./([^"]+)", line', out)))
        # extraction + OCaml: rebuild when the dispatcher .vo is newer than the binary
        disp = os.path.join(COQ, "theories", "Wire", "Dispatch.vo")
        if os.path.exists(disp):
            need = (not os.path.exists(MODEL_BIN)) or os.path.getmtime(disp) > os.path.getmtime(MODEL_BIN) \
                or os.path.getmtime(os.path.join(EXTRACT, "driver.ml")) > os.path.getmtime(MODEL_BIN)
            if need:
                rc, out = sh("timeout 600 coqc -Q ../theories RPFT Extract.v 2>&1 && "
                             "timeout 600 ocamlfind ocamlopt -O3 -w -a model.mli model.ml driver.ml -o rpft_model 2>&1",
                             cwd=EXTRACT, timeout=1300)
                st.extract_log = out
                if rc != 0 or not os.path.exists(MODEL_BIN):
                    st.extract_ok = False
        else:
            st.extract_ok = False
            st.extract_log = "Dispatch.vo missing (model does not compile)"
    finally:
        fcntl.flock(lock, fcntl.LOCK_UN)
        lock.close()
    return st


ALLOWED_AXIOMS = ("functional_extensionality", "proof_irrelevance", "Eqdep.Eq_rect_eq", "classic", "JMeq_eq",
                  "propositional_extensionality", "constructive_indefinite_description", "epsilon", "dependent_unique_choice", "relational_choice")


def run_coqchk(scratch, prop):
    """thorough tier: the independent checker re-checks props/<prop>.vo and every library it depends on and
    prints the axioms they rely on (-o).  -> dict(rc, axioms, wall_s, tail)"""
    t0 = time.time()
    rc, out = sh(f"timeout 2400 coqchk -silent -o -Q {COQ}/theories RPFT -Q {scratch} RPFTProps RPFTProps.{prop} 2>&1",
                 cwd=scratch, timeout=2500)
    axioms = []
    m = re.search(r"\* Axioms:(.*?)(?:\n\s*\n|\* |\Z)", out, re.S)
    if m:
        axioms = [a.strip() for a in m.group(1).splitlines() if a.strip() and a.strip() != "<none>"]
    switched_off = [l.strip() for l in out.splitlines()
                    if re.match(r"\* (Constants/Inductives relying on|Inductives whose positivity)", l.strip()) and "<none>" not in l]
    ok = rc == 0 and not switched_off and "Set is predicative" in out \
        and all(any(al.split(".")[-1] in a for al in ALLOWED_AXIOMS) for a in axioms)
    return dict(rc=rc, ok=ok, axioms=axioms, wall_s=round(time.time() - t0, 1), tail=out[-1500:])


def proof_status(prop, chk=False):
    """Compile props/<prop>.v on its own and read what Print Assumptions printed.
    Returns dict(obligations, discharged, theorems=[(name, ok, axioms)], log); with chk also "coqchk"."""
    src = os.path.join(COQ, "props", f"{prop}.v")
    text = open(src).read()
    names = re.findall(r"^\s*(?:Theorem|Lemma|Example)\s+([A-Za-z0-9_']+)", text, re.M)
    scratch = tempfile.mkdtemp(prefix="rpftprop")
    chkres = None
    try:
        shutil.copy(src, os.path.join(scratch, f"{prop}.v"))
        rc, out = sh(f"timeout 900 coqc -Q {COQ}/theories RPFT -Q {scratch} RPFTProps {prop}.v 2>&1", cwd=scratch, timeout=1000)
        if chk and rc == 0:
            chkres = run_coqchk(scratch, prop)
    finally:
        shutil.rmtree(scratch, ignore_errors=True)
    res = {"obligations": len(names), "discharged": 0, "theorems": [], "log": out[-4000:], "rc": rc, "axioms": []}
    if chkres is not None:
        res["coqchk"] = chkres
    if rc != 0:
        # which theorem failed: the first whose Print Assumptions output is missing
        m = re.search(r'line (\d+), characters', out)
        bad_line = int(m.group(1)) if m else None
        failing = None
        if bad_line:
            for mm in re.finditer(r"^\s*(?:Theorem|Lemma|Example)\s+([A-Za-z0-9_']+)", text, re.M):
                if text.count("\n", 0, mm.start()) + 1 <= bad_line:
                    failing = mm.group(1)
        res["failing"] = failing
        return res
    # split the output into one block per Print Assumptions
    blocks = re.split(r"(?=Closed under the global context|Axioms:)", out)
    blocks = [b for b in blocks if b.startswith("Closed") or b.startswith("Axioms:")]
    allowed = ALLOWED_AXIOMS
    for i, n in enumerate(names):
        if i < len(blocks):
            b = blocks[i]
            if b.startswith("Closed"):
                res["theorems"].append((n, True, []))
                res["discharged"] += 1
            else:
                axs = re.findall(r"^([A-Za-z0-9_.']+)\s*:", b, re.M)
                ok = all(any(a.split(".")[-1].startswith(al.split(".")[-1]) for al in allowed) for a in axs)
                res["theorems"].append((n, ok, axs))
                res["axioms"] += axs
                if ok:
                    res["discharged"] += 1
        else:
            res["theorems"].append((n, False, ["<no Print Assumptions output>"]))
    return res


# ------------------------------------------------------------------------------ model

def enc_str(s):
    return "(" + " ".join(str(ord(c)) for c in s) + ")"


def enc_list(items):
    return "(" + " ".join(items) + ")"


def parse_sexp(s):
    """'(1 (2 3))' -> [1, [2, 3]]"""
    toks = re.findall(r"\(|\)|\d+", s)
    pos = 0

    def item():
        nonlocal pos
        t = toks[pos]
        pos += 1
        if t == "(":
            out = []
            while toks[pos] != ")":
                out.append(item())
            pos += 1
            return out
        return int(t)

    return item()


def dec_str(x):
    return "".join(chr(c) for c in x)


class Model:
    """The extracted Gallina model as a co-process: one request per line."""

    def __init__(self):
        self.p = subprocess.Popen([MODEL_BIN], stdin=subprocess.PIPE, stdout=subprocess.PIPE, text=True, bufsize=1 << 20)
        self.calls = 0

    def ask(self, line):
        self.p.stdin.write(line + "\n")
        self.p.stdin.flush()
        self.calls += 1
        return self.p.stdout.readline().strip()

    def ask_many(self, lines):
        """Batch: a writer thread feeds the requests while this thread reads the answers, so
        neither pipe can fill up whatever the line lengths are."""
        import threading

        def feed():
            try:
                for i in range(0, len(lines), 500):
                    self.p.stdin.write("\n".join(lines[i:i + 500]) + "\n")
                self.p.stdin.flush()
            except Exception:
                pass

        t = threading.Thread(target=feed, daemon=True)
        t.start()
        out = [self.p.stdout.readline().strip() for _ in lines]
        t.join()
        self.calls += len(lines)
        return out

    def close(self):
        try:
            self.p.stdin.close()
            self.p.wait(timeout=10)
        except Exception:
            self.p.kill()


# ------------------------------------------------------------------------------ findings

def load_known():
    path = os.path.join(VERIF, "known_findings.json")
    if not os.path.exists(path):
        return []
    return json.load(open(path)).get("findings", [])


class Verdict:
    """Collects what a check saw and turns it into exit status, stdout lines, evidence."""

    def __init__(self, prop, tier, seed, level="proof"):
        self.prop = prop
        self.tier = tier
        self.seed = seed
        self.level = level
        self.t0 = time.time()
        self.violations = []      # (replay_path, summary, has_input)
        self.known_hits = {}      # finding id -> count
        self.viol_by_key = {}
        self.coverage = {"evaluations": 0, "distinct_nontrivial": 0, "rule": "", "samples": []}
        self.assumptions = []
        self.known = [k for k in load_known() if k.get("property") == prop and k.get("status", "open") == "open"]

    def failing_input(self, key, summary, replay):
        """A concrete input on which the property fails on the implementation.
        key = finding class; matched against known_findings.json by its 'key'."""
        for k in self.known:
            if k["key"] == key:
                self.known_hits[key] = self.known_hits.get(key, 0) + 1
                if self.known_hits[key] == 1:
                    print(f"KNOWN-FINDING: property={self.prop} {k['what']}")
                return False
        self.viol_by_key[key] = self.viol_by_key.get(key, 0) + 1
        if self.viol_by_key[key] > 2:
            return True   # same class already reported twice; counted in the evidence
        path = self.write_replay(dict(kind="failing-input", key=key, summary=summary, replay=replay))
        self.violations.append(path)
        print(f"VIOLATION property={self.prop} replay={path}")
        return True

    def broken(self, what, detail):
        """A proof obligation / correspondence / translator step that no longer checks and for
        which the search found no failing input."""
        path = self.write_replay(dict(kind="no-failing-input-found", broken=what, detail=detail))
        self.violations.append(path)
        print(f"VIOLATION property={self.prop} replay={path} no-failing-input-found")

    def write_replay(self, obj):
        os.makedirs(REPLAYS, exist_ok=True)
        h = hashlib.sha256(json.dumps(obj, sort_keys=True, default=str).encode()).hexdigest()[:10]
        path = os.path.join(REPLAYS, f"{self.prop}_{h}.json")
        obj["property"] = self.prop
        with open(path, "w") as f:
            json.dump(obj, f, indent=1, default=str)
        return path

    def finish(self, proof=None, extra=None):
        cov = dict(self.coverage)
        if proof is not None:
            cov["obligations"] = proof["obligations"]
            cov["discharged"] = proof["discharged"]
            cov["theorems"] = [dict(name=n, ok=ok, axioms=ax) for (n, ok, ax) in proof["theorems"]]
            cov["checker_cmd"] = f"coqc -Q coq/theories RPFT coq/props/{self.prop}.v (after make of its dependencies; Print Assumptions under every theorem)"
            cov["trusted_base"] = [
                "Coq 8.16.1 kernel (vm_compute used; native_compute not used)",
                "axioms reported by Print Assumptions: " + (", ".join(sorted(set(proof.get("axioms", [])))) or "none (Closed under the global context)"),
                "translator/gen_tables.py (Tables.v regenerated from /repo on this run)",
                "extraction: ExtrOcamlBasic only; OCaml 4.13.1; coq/extract/driver.ml",
                "correspondence harness harness/*.py (generators, canonicalisation)",
                "hand-written Gallina mirrors of the Python functions (modelled, tied by differential execution)",
            ]
            if proof.get("coqchk"):
                c = proof["coqchk"]
                cov["coqchk"] = dict(cmd=f"coqchk -silent -o -Q coq/theories RPFT RPFTProps.{self.prop}", rc=c["rc"], axioms=c["axioms"], wall_s=c["wall_s"])
                cov["trusted_base"].append("coqchk -o (independent checker over the property file and every library it depends on): "
                                           + ("rc=%d; axioms: %s" % (c["rc"], ", ".join(c["axioms"]) or "<none>")))
        if extra:
            cov.update(extra)
        try:
            head = subprocess.run(["git", "-C", REPO, "rev-parse", "--short", "HEAD"], capture_output=True, text=True, timeout=20).stdout.strip()
            dirty = bool(subprocess.run(["git", "-C", REPO, "status", "--porcelain", "--untracked-files=no"], capture_output=True, text=True, timeout=20).stdout.strip())
            cov["repo_tree"] = {"path": REPO, "commit": head, "modified_working_tree": dirty}
        except Exception:
            pass
        if self.viol_by_key:
            cov["violations_by_class"] = self.viol_by_key
        for k in self.known:
            cov.setdefault("known_findings_seen", {})[k["key"]] = self.known_hits.get(k["key"], 0)
        ev = {
            "property_id": self.prop,
            "tier": self.tier,
            "seed": self.seed,
            "level": self.level,
            "coverage": cov,
            "assumptions": self.assumptions,
            "wall_s": round(time.time() - self.t0, 2),
            "violations": len(self.violations),
        }
        os.makedirs(EVIDENCE, exist_ok=True)
        with open(os.path.join(EVIDENCE, f"{self.prop}.json"), "w") as f:
            json.dump(ev, f, indent=1, default=str)
        return 1 if self.violations else 0


def scratch_dir(prefix="rpft"):
    return tempfile.mkdtemp(prefix=prefix)
