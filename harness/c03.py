"""C03 — loops, blocks, include_if are pure sugar.  Twin sheets: a generated sugared
sheet and its reference desugaring (loops unrolled into blocks with lexically scoped
variables, false include_if removed), BOTH compiled by the implementation and compared by
the Coq-verified bisimulation checker (equal traces for all input sequences); the
desugared sheet's reference meaning (RowSem with blocks: an edge from a block leaves every
loose exit, never a hard exit) is also compared with the sugared sheet's compiled flow.
insert_as_block ("an inserted template replaced by a block containing that template's rows instantiated with its own data
row and arguments"): harness/c03_insert.py — generated workbooks whose flows insert templates with arguments of every type
the sheet language has (strings, native ints / bools / None / lists / dicts, blanks, sheet arguments), with typed data rows,
inside loops and nested, against an independent reference desugaring; the binding of the arguments also as call histories
on one ContentIndexParser and against the typed model Comp/InsertArgs.v."""
import json
import re

import c03_blocks
import c03_insert
import flowutil
import rowref
import sheetgen
from common import parse_sexp

LEVEL = "translation_validation"
CTX = {"cx": "CXVAL", "cy": "other"}


def has_sugar(rows):
    return any(r["type"] in ("begin_for", "begin_block") or "include_if" in r for r in rows)


def classify(tree):
    """input classes used as finding keys"""
    keys = set()

    def walk(items, bound):
        for it in items:
            if it[0] == "for":
                if len(it[4]) == 0 and sheetgen.include(it[1]):
                    keys.add("empty-loop")
                if it[2] in CTX or (it[3] in CTX if it[3] else False) or it[2] in bound or (it[3] in bound if it[3] else False) or it[3] == it[2]:
                    keys.add("loop-variable-shadows-outer-variable")
                walk(it[6], bound | {it[2]} | ({it[3]} if it[3] else set()))
            elif it[0] == "block":
                walk(it[2], bound)
    walk(tree, set())
    return keys


# ------------------------------------------------------------------ the twins' desugaring IS the model's (Comp/Desugar.v)
# A twin tree is projected onto the rows of the block-mechanics model: row type, include_if, the row_id cell, and ONE
# text cell that is the concatenation of every other cell of the row (path-tagged, no escaping, so that substituting
# {{variables}} commutes with it); loop variables and the loop's elements as they are.  The Gallina `desugar` of the
# projected sugared sheet must be the projection of sheetgen.desugar's output, row for row.
_REF = re.compile(r"\{\{(\w+)\}\}")


def _flat(v, path=""):
    if isinstance(v, dict):
        return "".join(_flat(v[k], path + "/" + k) for k in sorted(v))
    if isinstance(v, list):
        return "".join(_flat(x, path + "/" + str(i)) for i, x in enumerate(v))
    return "\x02" + path + "\x03" + (v if isinstance(v, str) else repr(v))


def _segs(text, names):
    out, pos = [], 0
    for mt in _REF.finditer(text):
        if mt.group(1) not in names:
            continue
        if mt.start() > pos:
            out.append(("lit", text[pos:mt.start()]))
        out.append(("ref", mt.group(1)))
        pos = mt.end()
    if pos < len(text):
        out.append(("lit", text[pos:]))
    return out


def _cells(row, drop):
    return _flat({k: v for k, v in row.items() if k not in drop})


def project_sugared(tree):
    names = set(CTX)

    def collect(items):
        for it in items:
            if it[0] == "for":
                names.update(x for x in (it[2], it[3]) if x)
                collect(it[6])
            elif it[0] == "block":
                collect(it[2])
    collect(tree)
    rows = []

    def inc_of(row):
        """the include_if cell in the model's language: a literal, or the comparison {{ v == "word" }} / {{ v != "word" }}"""
        mt = sheetgen.INCLUDE_CMP.match(str(row.get("include_if", "")).strip())
        if mt:
            return ("cmp", mt.group(1), mt.group(2) == "==", mt.group(3))
        return "true" if sheetgen.include(row) else "false"

    def walk(items):
        for it in items:
            if it[0] == "row":
                r = it[1]
                rows.append(dict(kind="plain", inc=inc_of(r), id=_segs(r.get("row_id", ""), names),
                                 text=_segs(_cells(r, ("row_id", "include_if")), names)))
            else:
                head = it[1]
                h = dict(kind=it[0], inc=inc_of(head), id=_segs(head.get("row_id", ""), names),
                         text=_segs(_cells(head, ("row_id", "include_if", "type")), names))
                if it[0] == "for":
                    h.update(vars=[it[2]] + ([it[3]] if it[3] else []), iter=("lit", [str(e) for e in it[4]]))
                rows.append(h)
                walk(it[6] if it[0] == "for" else it[2])
                rows.append(dict(kind="end" + it[0], inc="true"))
    walk(tree)
    return rows


def project_desugared(des):
    out = []
    for r in des:
        if r["type"] == "begin_block":
            out.append(("block", r.get("row_id", ""), _cells(r, ("row_id", "include_if", "type"))))
        elif r["type"] == "end_block":
            out.append(("endblock", "", ""))
        else:
            out.append(("plain", r.get("row_id", ""), _cells(r, ("row_id", "include_if"))))
    return out


def compare_desugarings(ctx, tree, des, rep):
    """model desugar (wire 103) of the projected twin vs the projection of the harness's reference desugaring"""
    rows = project_sugared(tree)
    md = c03_blocks.model_desugar(ctx.model, rows, CTX)
    want = ("ok", project_desugared(des))
    if any(isinstance(r["inc"], tuple) for r in rows):
        ctx.count("desugar_model_vs_twin_reference_with_comparison_cell")
    ctx.count("desugar_model_vs_twin_reference")
    if md != want:
        ctx.disagree("twins: desugar (Comp/Desugar.v) of the sugared sheet differs from the reference desugaring the twin is built from",
                     rep, repr(md)[:1500], repr(want)[:1500])


def judge(ctx, tree, nontrivial, samples):
    v, m, rng = ctx.v, ctx.model, ctx.rng
    sug = sheetgen.flatten_sugared(tree)
    des = sheetgen.desugar(tree, dict(CTX))
    if not has_sugar(sug):
        return
    v.coverage["evaluations"] += 1
    h1, c1 = sheetgen.render_sheet(sug, rng)
    h2, c2 = sheetgen.render_sheet(des, rng)
    r1 = flowutil.compile_workbook(flowutil.template_workbook("f1", h1, c1, CTX))
    r2 = flowutil.compile_workbook(flowutil.template_workbook("f1", h2, c2, CTX))
    classes = classify(tree)
    rep = dict(sugared=dict(headers=h1, cells=[[c.get(h, "") for h in h1] for c in c1]),
               desugared=dict(headers=h2, cells=[[c.get(h, "") for h in h2] for c in c2]), desugared_rows=des)

    def fail(kind, summary):
        key = "empty-loop" if "empty-loop" in classes else (sorted(classes)[0] if classes else kind)
        v.failing_input(key, summary, rep)

    if m:
        compare_desugarings(ctx, tree, des, rep)
    if r1[0] != "ok" and r2[0] != "ok":
        ctx.count("both_rejected")
        return
    if r1[0] != "ok":
        fail("sugared-does-not-compile", f"the sugared sheet is rejected ({r1[1]}: {r1[2][:120]}) while its desugared form compiles")
        return
    if r2[0] != "ok":
        fail("desugared-does-not-compile", f"the desugared sheet is rejected ({r2[1]}: {r2[2][:120]}) while the sugared form compiles")
        return
    f1, f2 = r1[1]["flows"][0], r2[1]["flows"][0]
    if not m:
        tr = flowutil.distinguishing_trace(f1, f2)
        if tr is not None:
            fail("sugar-changes-behaviour", f"sequence {tr!r} separates the sugared sheet's flow from its desugared twin's")
        return
    b = m.ask("(6 2 %s %s)" % (flowutil.flow_sexp(f1), flowutil.flow_sexp(f2)))
    if b != "1":
        tr = flowutil.distinguishing_trace(f1, f2)
        if tr is None:
            ctx.disagree("bisimulation checker rejects the twins but no distinguishing sequence found", rep, b, "")
        else:
            fail("sugar-changes-behaviour", f"sequence {tr!r} separates the sugared sheet's flow from its desugared twin's")
        return
    ctx.count("twins_equivalent")
    # reference meaning of the block-structured twin vs the sugared sheet's compiled flow
    rs = m.ask("(7 2 %s %s)" % (rowref.rows_sexp(des), flowutil.flow_sexp(f1)))
    if rs == "1":
        ctx.count("matches_block_reference")
    elif rs == "0":
        ctx.count("outside_reference_domain")
    else:
        ref = parse_sexp(m.ask("(7 1 %s)" % rowref.rows_sexp(des)))
        tr = flowutil.distinguishing_trace(rowref.flow_from_sexp(ref[0]), f1) if ref else None
        if tr is None:
            ctx.disagree("reference checker rejects but no distinguishing sequence found", rep, rs, "")
        else:
            fail("block-exit-semantics", f"sequence {tr!r} separates the reference meaning (edges from a block leave every loose exit, never a hard exit) from the compiled flow")
        return
    prof = json.dumps([(r["type"], len(r["edges"])) for r in sug])
    if sum(1 for r in sug if r["type"] == "begin_for") >= 1:
        nontrivial.add(prof)
    if len(samples) < 3:
        samples.append(rep["sugared"])


def directed_trees():
    """hand-written sugared sheets for the clause "an edge that names a block leaves from every still-unconnected ordinary
    exit of the block but never from a hard exit": inside a block / a loop body, a row whose blank-condition edge goes to a
    hard_exit row, written before or after the conditional rows that turn the row into a decision, and a row that leaves the
    block afterwards (by name, or as the next row)"""
    E = sheetgen.edge
    out = []
    for kind in ("block", "for"):
        for src in ("send_message", "wait_for_response"):
            for hard_first in (True, False):
                for by_name in (True, False):
                    a = {"type": src, "row_id": "B1_a", "edges": [E()]}
                    if src == "send_message":
                        a["arg"] = "Question"
                    hard = ("row", {"type": "hard_exit", "row_id": "", "edges": [E("B1_a")]})
                    yes = ("row", {"type": "send_message", "row_id": "B1_y", "edges": [E("B1_a", value="yes")], "arg": "Yes branch"})
                    body = [("row", a)] + ([hard, yes] if hard_first else [yes, hard])
                    head = {"row_id": "B1" if by_name else "", "edges": [E("r0")]}
                    blk = ("block", head, body) if kind == "block" else ("for", head, "x0", None, ["one"], ["one"], body)
                    after = {"type": "send_message", "row_id": "r9", "edges": [E("B1" if by_name else "")], "arg": "After block"}
                    out.append([("row", {"type": "send_message", "row_id": "r0", "edges": [E("start")], "arg": "Intro"}), blk, ("row", after)])
    return out


def run(ctx):
    thorough = ctx.tier == "thorough"
    n = (12000 if thorough else 700) * ctx.scale
    nontrivial, samples = set(), []
    dist = {"with_loop": 0, "with_block": 0, "with_include_if": 0, "nested": 0}
    for tree in directed_trees():
        ctx.count("directed_block_exit_sheets")
        judge(ctx, tree, nontrivial, samples)
    for i in range(n):
        rng = ctx.rng
        g = sheetgen.SugarGen(rng, wf=True, special_text=rng.random() < 0.4, empty_loops=rng.random() < 0.3,
                              ctxvars=tuple(CTX), shadow=rng.random() < 0.35)
        tree = g.gen_tree(rng.choice([3, 4, 6, 9]))
        sug = sheetgen.flatten_sugared(tree)
        dist["with_loop"] += any(r["type"] == "begin_for" for r in sug)
        dist["with_block"] += any(r["type"] == "begin_block" for r in sug)
        dist["with_include_if"] += any("include_if" in r for r in sug)
        dist["nested"] += sheetgen.tree_depth(tree) >= 2
        judge(ctx, tree, nontrivial, samples)
    ctx.stats["distribution"] = dist
    # the loop mechanics themselves: model (Comp/Blocks.v) <-> FlowParser, scope / unevaluated-content oracles
    nontrivial |= {("blocks", c) for c in c03_blocks.run(ctx, (6000 if thorough else 500) * ctx.scale)}
    # insert_as_block: workbooks whose flows insert templates (typed arguments, data rows, inside loops, nested) against the
    # reference desugaring "a block containing the template's rows instantiated with its own data row and arguments"
    ins_nontrivial, ins_samples = c03_insert.run(ctx, (1500 if thorough else 45) * ctx.scale)
    nontrivial |= {("insert", c) for c in ins_nontrivial}
    samples += [dict(insert_as_block_workbook=s) for s in ins_samples[:1]]
    ctx.v.coverage["programs"] = ctx.stats.get("twins_equivalent", 0) + ctx.stats.get("insert_as_block_twins", {}).get("twins_equivalent", 0)
    ctx.v.coverage["disagreements_checked"] = len(ctx.disagreements) + sum(ctx.v.viol_by_key.values())
    ctx.v.coverage["distinct_nontrivial"] = len(nontrivial)
    ctx.v.coverage["samples"] = samples
    ctx.v.coverage["rule"] = (
        "generated sugared sheets: loops over `a;b` cells, native lists {@ [..] @} and {@ range(n) @}, 0..3 elements, index "
        "variables, nesting up to 3, bodies with branches/joins/go_to/hard exits, blocks, include_if false on rows and on "
        "loop/block heads (with undefined variables inside), context variables from a data row, loop variables that shadow them; "
        "each compiled together with its reference desugaring and judged by the Coq-verified checker. "
        "non-trivial = distinct sugared row profile containing at least one loop; "
        "insert_as_block: generated workbooks (main flow with a typed data row; 1-4 block templates with 0-3 declared arguments - required / "
        "default / sheet-typed -, with and without a typed data row, looping over their arguments, switching rows with them, handing them on to "
        "templates they insert themselves; insert rows at top level, in loops over ranges / native lists of ints, bools, None, lists, dicts, strings / "
        "`a;b` cells / data row ids, in blocks; template_arguments blank | text | {{ }} | native list | native scalar, blank and missing and surplus "
        "positions) compiled next to their reference desugaring (block of the template's rows instantiated in {data row} + {declared name -> argument "
        "| default for the empty string}); non-trivial = distinct profile (delivery form, classes of the argument values) with a falsy object or >= 2 insertions; "
        "and histories of map_template_arguments_to_context calls with object arguments on ONE ContentIndexParser")
    ctx.v.assumptions += [
        "the reference desugaring (harness/sheetgen.py: desugar) is written from the property text and DESIGN Appendix B; it is compared, twin by twin, "
        "with the Gallina desugar of Comp/Desugar.v (about which C03_desugar_equiv is proved) on the projection row type / include_if / row_id / all other cells",
        "loop bodies use the variables only in the forms {{x}} / {{i}} (textual substitution = Jinja rendering of str values)",
        "insert_as_block: the reference desugaring of harness/c03_insert.py (written from the property text; expressions are ASTs printed into the cells "
        "and evaluated by the harness with Python's semantics: ==, truth value, str(), len, int filter as documented) is trusted; a whole-cell native "
        "template whose value is a str that reads as a Python literal ('0', 'False': Jinja's NativeEnvironment evaluates it) is kept out of the generated "
        "inputs (counted as reference_has_no_reading); a bare dict as the value of the template_arguments cell is not generated",
    ]


def replay(rep):
    import common
    r = rep["replay"]
    if r.get("fn") == "blocks":
        return c03_blocks.replay(r)
    if r.get("fn") in ("insert", "binding"):
        return c03_insert.replay(r)
    m = common.Model()
    outs = []
    for side in ("sugared", "desugared"):
        s = r[side]
        outs.append(flowutil.compile_workbook(flowutil.template_workbook("f1", s["headers"], [dict(zip(s["headers"], c)) for c in s["cells"]], CTX)))
    if outs[0][0] != "ok" or outs[1][0] != "ok":
        m.close()
        return outs[0][0] != "ok" and outs[1][0] != "ok"
    f1, f2 = outs[0][1]["flows"][0], outs[1][1]["flows"][0]
    ok = m.ask("(6 2 %s %s)" % (flowutil.flow_sexp(f1), flowutil.flow_sexp(f2))) == "1"
    if ok:
        ok = m.ask("(7 2 %s %s)" % (rowref.rows_sexp(r["desugared_rows"]), flowutil.flow_sexp(f1))) in ("1", "0")
    m.close()
    return ok
