"""Generator of abstract flow sheets (core vocabulary + sugar) and their rendering to CSV
columns, written from the sheet-format documentation (not from the parser's code).

An abstract row is a dict:
  type, row_id, edges=[{from, value, variable, ctype, name}], arg (main argument: str or
  list, by row type), and optional fields (save_name, choices, image, audio, video,
  attachments, result_category, urn_scheme, obj_id, node_uuid, node_name, no_response,
  webhook_url, webhook_method, webhook_headers, loop_variable, include_if, data_sheet,
  data_row_id, template_arguments).
"""
import re
import uuid as _uuid

ACTION_TYPES = ["send_message", "save_value", "add_to_group", "remove_from_group", "save_flow_result",
                "set_contact_language", "set_contact_name", "set_contact_status", "set_contact_timezone",
                "add_contact_urn"]
DECISION_TYPES = ["wait_for_response", "split_by_value", "split_by_group", "split_random"]
OUTCOME_TYPES = ["start_new_flow", "call_webhook", "transfer_airtime"]
NODE_TYPES = ACTION_TYPES + DECISION_TYPES + OUTCOME_TYPES

LIST_MAIN_ARG = {"add_to_group", "remove_from_group", "split_by_group", "go_to", "begin_for", "transfer_airtime"}

TEST_TYPES = ["has_any_word", "has_all_words", "has_phrase", "has_only_phrase", "has_beginning", "has_only_text",
              "has_number_eq", "has_number_lt", "has_pattern", "has_text", "has_number", "has_email"]
# has_all_words is not a RapidPro test the toolkit knows -> kept out by default
TEST_TYPES_OK = [t for t in TEST_TYPES if t != "has_all_words"]
NO_ARG_TESTS = {"has_text", "has_number", "has_email", "has_date", "has_error", "has_state", "has_time"}

WORDS = ["hello", "yes", "no", "red", "blue", "7", "a b", "x;y", "p|q", "back\\slash", "é", "ok,fine", "Q \"q\"", "two\nlines"]
SIMPLE = ["alpha", "beta", "gamma", "delta", "one", "two", "3", "yes", "no"]
MARKUP_WORDS = ["Tom & Jerry", "a<b", "Mr O'Neil", 'say "hi"', "x>y", "<b>bold</b>", "R&D"]

# Words that are ALSO names the tool invents or reserves (documentation of the sheet format and of RapidPro flows): the
# category of the default branch ("Other"; "All Responses" in the RapidPro editor), of the timeout branch ("No Response"),
# of the outcome branches (Complete/Expired, Success/Failure) and the words that select those branches in a condition
# cell, the names of unnamed buckets ("Bucket <n>"), `start` (an edge from nowhere), the marker of a hard exit, and the
# text of a missing group uuid ("None", joined to the group name by "_" in a generated category name).  A user can write
# any of them as a condition value, a category name, a row id, a result / field name or a group name (Gen(collide=True)).
RESERVED = ["Other", "No Response", "All Responses", "Success", "Failure", "Complete", "Completed", "Expired",
            "Bucket 1", "Bucket 2", "Bucket 3", "None", "start", "HARD_EXIT"]
RESERVED_CATEGORY_NAMES = ["Other", "No Response", "All Responses", "Success", "Failure", "Complete", "Expired"]


def case_variant(rng, w):
    """the word in one of the capitalisations a user may write it in"""
    return rng.choice([w, w, w.lower(), w.lower(), w.upper(), w.title(), w.capitalize(), w.swapcase()])


def esc(s):
    return s.replace("\\", "\\\\").replace("|", "\\|").replace(";", "\\;")


def join_list(vals):
    """cell text of a list of strings for a list-typed column (documented syntax: `;`
    separated, a one-element list carries a trailing `;`)."""
    vals = list(vals)
    if not vals:
        return ""
    if len(vals) == 1:
        return esc(vals[0]) + ";"
    return ";".join(esc(v) for v in vals)


def join_star(vals):
    """cell text for a `*` column (one value per edge): trailing blanks are left out (the
    remaining edges keep the default), a single value is written as a one-element list so
    that it is NOT broadcast."""
    vals = list(vals)
    while vals and vals[-1] == "":
        vals.pop()
    if not vals:
        return ""
    return join_list(vals)


def join_pairs(pairs):
    if not pairs:
        return ""
    if len(pairs) == 1:
        return esc(pairs[0][0]) + ";" + esc(pairs[0][1]) + "|"
    return "|".join(esc(k) + ";" + esc(v) for k, v in pairs)


def new_uuid(rng):
    return str(_uuid.UUID(int=rng.getrandbits(128), version=4))


def edge(frm="", value="", variable="", ctype="", name=""):
    return {"from": frm, "value": value, "variable": variable, "ctype": ctype, "name": name}


def blank_cond(e):
    return e["value"] == "" and e["variable"] == "" and e["ctype"] == "" and e["name"] == ""


def pad_rows(rows, width=None):
    """the rows as a rectangular sheet with edges.N.* columns literally holds them: every row has `width` edge entries
    (default: the widest row's), the missing ones blank throughout"""
    import copy
    width = width or max([len(r["edges"]) for r in rows] + [1])
    out = []
    for r in rows:
        r = copy.deepcopy(r)
        r["edges"] = r["edges"] + [edge() for _ in range(width - len(r["edges"]))]
        out.append(r)
    return out


def written_rows(rows, headers):
    """the abstract rows as the rendered sheet holds them (what a model of the PARSER must be given): padded to the
    number of edges.N columns when the sheet was rendered with the long headers, unchanged with the short ones"""
    n = 0
    while f"edges.{n + 1}.from" in headers:
        n += 1
    return pad_rows(rows, n) if n else rows


# ---------------------------------------------------------------- rendering to columns
def main_arg_cell(row):
    t, a = row["type"], row.get("arg", "")
    if t == "transfer_airtime":
        return join_pairs(a)
    if t in LIST_MAIN_ARG:
        if isinstance(a, str):
            return a           # already cell text (e.g. a template such as {@ range(3) @})
        return join_list(a)
    return a                   # string-typed main argument: the cell is the text itself


def render_sheet(rows, rng=None, layout=None):
    """-> (headers, [dict header->cell]).  layout 'short' uses from/condition/... columns,
    'long' uses edges.N.* columns; by default 'short' when the rng says so."""
    maxe = max([len(r["edges"]) for r in rows] + [1])
    if layout is None:
        layout = "short" if (rng is None or rng.random() < 0.6) else "long"
    # A sheet is rectangular: with the long headers a row that has fewer edges than the widest row has blank
    # edges.N.* cells.  A blank cell is not an edge, in a row of any type (the defect `padded-edge-columns` - go_to /
    # no_op / exit / block rows applied such an entry to the preceding row, rows merged through their node name were
    # rejected - is repaired; a tree that reads padding as an edge again is reported through these sheets).
    out = []
    used = set()
    for r in rows:
        c = {"row_id": r.get("row_id", ""), "type": r["type"]}
        es = r["edges"]
        if layout == "short":
            if len(es) == 1:
                e = es[0]
                c["from"], c["condition"], c["condition_var"], c["condition_type"], c["condition_name"] = (
                    esc(e["from"]), esc(e["value"]), esc(e["variable"]), esc(e["ctype"]), esc(e["name"]))
            else:
                c["from"] = join_star([e["from"] for e in es]) if any(e["from"] for e in es) else ""
                if len(es) >= 2 and all(e["from"] == "" for e in es):
                    # all-blank `from` list cannot be written in one cell: fall back to long headers
                    return render_sheet(rows, rng, "long")
                if len(es) >= 2 and es[-1]["from"] == "":
                    return render_sheet(rows, rng, "long")
                c["condition"] = join_star([e["value"] for e in es])
                c["condition_var"] = join_star([e["variable"] for e in es])
                c["condition_type"] = join_star([e["ctype"] for e in es])
                c["condition_name"] = join_star([e["name"] for e in es])
        else:
            for i, e in enumerate(es):
                p = f"edges.{i + 1}."
                c[p + "from"] = e["from"]
                c[p + "condition.value"] = e["value"]
                c[p + "condition.variable"] = e["variable"]
                c[p + "condition.type"] = e["ctype"]
                c[p + "condition.name"] = e["name"]
        c["message_text"] = main_arg_cell(r)
        for k in ("save_name", "image", "audio", "video", "result_category", "urn_scheme", "obj_id", "node_name",
                  "no_response", "include_if", "data_sheet", "data_row_id"):
            if r.get(k, "") != "":
                c[k] = r[k]
        if r.get("node_uuid"):
            c["_nodeId"] = r["node_uuid"]
        if r.get("choices"):
            c["choices"] = join_list(r["choices"])
        if r.get("attachments"):
            c["attachments"] = join_list(r["attachments"])
        if r.get("loop_variable"):
            lv = r["loop_variable"]
            c["loop_variable"] = lv[0] if len(lv) == 1 else join_list(lv)
        if r.get("webhook_url"):
            c["webhook.url"] = r["webhook_url"]
            c["webhook.method"] = r.get("webhook_method", "")
            c["webhook.headers"] = join_pairs(r.get("webhook_headers", []))
        if r.get("template_arguments"):
            c["template_arguments"] = r["template_arguments"]
        used |= {k for k, v in c.items() if v != ""}
        out.append(c)
    base = ["row_id", "type"]
    if layout == "short":
        base += ["from", "condition", "condition_var", "condition_type", "condition_name"]
    else:
        for i in range(maxe):
            p = f"edges.{i + 1}."
            base += [p + "from", p + "condition.value", p + "condition.variable", p + "condition.type", p + "condition.name"]
    rest = ["include_if", "loop_variable", "message_text", "save_name", "choices", "image", "audio", "video", "attachments",
            "result_category", "urn_scheme", "obj_id", "_nodeId", "node_name", "no_response",
            "webhook.url", "webhook.method", "webhook.headers", "data_sheet", "data_row_id", "template_arguments"]
    headers = base + [h for h in rest if h in used or h == "message_text"]
    return headers, out


# ---------------------------------------------------------------- generation
class Gen:
    """Generates plain (sugar-free) sheets.  wf=True stays inside wf_core: every `from`
    names an earlier row, at most one default continuation per row, distinct (test,args)
    per decision, one operand per decision, distinct category names per decision."""

    def __init__(self, rng, wf=True, special_text=True, prefix="", has_group=False, clash_names=False, collide=False):
        self.rng = rng
        # collide: the words of the sheet (condition values, explicit category names, group names, bucket names, row
        # ids, result / field names) come from a SMALL per-sheet vocabulary that holds names the tool invents or
        # reserves (RESERVED) in every capitalisation, so that they meet the invented names and one another: "other"
        # next to the default branch, "yes" / "YES" / "Yes" in one decision, a category called "Yes" before a test for
        # "yes", a group called "Other", a value "none_other" next to a has_group test for "other", "Bucket 3" as the
        # first bucket ...  An explicit name that IS the name of an existing category of the decision (the open finding
        # category-name-clash) is written only with clash_names.  No draw is made when collide is off.
        self.collide = collide
        self.tags = {}       # what the collide mode wrote (distribution, for the evidence)
        self.used_ids = set()
        if collide:
            k = rng.choice([1, 1, 2, 2, 3])
            self.vocab = [rng.choice(["Other"] * 6 + RESERVED[:8] * 2 + RESERVED + ["yes", "no", "a b", "7"]) for _ in range(k)]
        self.clash_names = clash_names  # now and then an explicit category name that another category of the decision has
                                        # already: the name invented for an earlier unnamed test, "Other", "No Response"
        self.has_group = has_group      # also write has_group tests (group membership by group NAME) on edges of rows
                                        # that are not group splits: waits, value splits, action rows, no_op decisions
        self.wf = wf
        self.special_text = special_text
        self.prefix = prefix
        self.rows = []
        self.info = {}       # key -> bookkeeping of what may still leave that row
        self.order = []      # keys of rows that have a row_id (can be named in `from`)
        self.prev = None     # key of the row a blank `from` refers to
        self.n = 0
        self.groups = {}
        self.counter = 0

    def fresh_id(self, p="r"):
        self.n += 1
        if self.collide and self.rng.random() < 0.25:
            rid = self.prefix + case_variant(self.rng, self.rng.choice(RESERVED + self.vocab))
            if rid not in self.used_ids:
                self.used_ids.add(rid)
                self.tag("row id that is an invented / reserved name" + (" (`start` itself: nothing can name the row)" if rid == "start" else ""))
                return rid
        return f"{self.prefix}{p}{self.n}"

    def text(self):
        self.counter += 1
        return f"{self.rng.choice(WORDS if self.special_text else SIMPLE)} #{self.counter}"

    def word(self):
        return self.rng.choice(WORDS if self.special_text else SIMPLE)

    def simple(self):
        return self.rng.choice(SIMPLE)

    def tag(self, t):
        self.tags[t] = self.tags.get(t, 0) + 1

    # -- collide mode: words that meet the names the tool invents ---------------------------------------------
    def cword(self):
        """a word of the sheet's vocabulary in some capitalisation, now and then in a derived form the tool's naming
        rule produces itself (`_alt` appended to a taken name, `None_` before a group name)"""
        r = self.rng
        w = case_variant(r, r.choice(self.vocab))
        x = r.random()
        if x < 0.12:
            w = w + r.choice(["_alt", "_Alt", "_alt_alt"])
        elif x < 0.2:
            w = r.choice(["none_", "None_"]) + w
        return w

    def cvalue(self):
        """a condition value"""
        if self.collide and self.rng.random() < 0.8:
            return self.cword()
        return self.word()

    def gname(self):
        """a group name"""
        if self.collide and self.rng.random() < 0.5:
            self.tag("group named like an invented / reserved name")
            return self.cword()
        return self.simple() + " group"

    def sname(self, prefix):
        """a result / field name"""
        if self.collide and self.rng.random() < 0.3:
            self.tag("result or field named like an invented / reserved name")
            return case_variant(self.rng, self.rng.choice(RESERVED[:8]))
        return prefix + " " + self.simple()

    @staticmethod
    def auto_name(inf, args):
        """the name the documented rule invents for an unnamed test: the arguments title-cased and joined by "_",
        "_alt" appended while a category of the decision has that name"""
        nm = "_".join(str(a).title() for a in args)
        while nm in inf["catnames"]:
            nm += "_alt"
        return nm

    def new_info(self, t, **kw):
        d = {"type": t, "has_default": False, "tests": set(), "names": set(), "var": None}
        d.update(kw)
        # the category names of the decision as the documented naming rule gives them (collide mode keeps an explicit
        # name apart from them unless clash_names asks for the clash)
        d["catnames"] = {"Other", "No Response"}
        d["titles"] = {}
        return d

    # -- an edge condition legal for a source row (None: nothing more may leave it) ----------
    def cond_from(self, key):
        r = self.rng
        inf = self.info[key]
        t = inf["type"]
        if t in ACTION_TYPES:
            if not inf["has_default"] and (inf.get("no_cases") or r.random() < 0.6):
                inf["has_default"] = True
                return self.default_edge(inf)
            if inf.get("no_cases"):
                return None
            if inf["var"] is None:
                inf["var"] = ("@fields." + self.simple()) if r.random() < 0.5 else ""
            return self.case_cond(inf, inf["var"])
        if t == "wait_for_response":
            x = r.random()
            if inf.get("timeout") and not inf.get("noresp") and x < 0.25:
                inf["noresp"] = True
                return edge(value=r.choice(["no response", "No Response"] + (["NO RESPONSE", "no Response"] if self.collide else [])))
            if not inf["has_default"] and x < 0.5:
                inf["has_default"] = True
                return self.default_edge(inf)
            return self.case_cond(inf, "")
        if t == "split_by_value":
            if not inf["has_default"] and r.random() < 0.35:
                inf["has_default"] = True
                return self.default_edge(inf)
            return self.case_cond(inf, r.choice(["", "", "@ignored.variable"]) if not self.wf else "")
        if t == "no_op_dec":
            if inf["var"] is not None and not inf["has_default"] and r.random() < 0.35:
                inf["has_default"] = True
                return self.default_edge(inf)
            first = inf["var"] is None
            if first:
                inf["var"] = "@fields." + self.simple()
            return self.case_cond(inf, inf["var"] if (first or r.random() < 0.5) else "")
        if t == "no_op_plain":
            if inf["has_default"]:
                return None
            inf["has_default"] = True
            return edge()
        if t == "split_by_group":
            if not inf["has_default"] and r.random() < 0.4:
                inf["has_default"] = True
                return self.default_edge(inf)
            g = self.gname()
            if g in inf["tests"]:
                return None
            inf["tests"].add(g)
            return self.named(inf, edge(value=g), [None, g])
        if t == "split_random":
            name = f"b{len(inf['tests']) + 1}"
            if self.collide:
                # a bucket the sheet does not name (the tool calls it "Bucket <number of buckets + 2>"), or one the sheet
                # calls so itself.  bnames: the bucket names so far, by that rule; a name that IS another bucket's name
                # (finding bucket-name-clash: the invented name does not avoid a name the sheet gave, an explicit name
                # takes over the bucket that was given the same invented name) is written only with clash_names
                bn = inf.setdefault("bnames", [])
                if r.random() < 0.6:
                    name = r.choice(["", "", case_variant(r, "Bucket %d" % (len(bn) + r.choice([1, 2, 2, 3, 4])))])
                auto = "Bucket %d" % (len(bn) + 2)
                if (auto if name == "" else name) in bn and not self.clash_names:
                    name = f"b{len(inf['tests']) + 1}"
                if name == "":
                    self.tag("bucket without a name" + (" whose invented name is another bucket's name (clash)" if auto in bn else
                             " after a bucket the sheet calls `Bucket <n>`" if any(x.startswith("Bucket ") for x in bn) else ""))
                    if auto not in bn:
                        bn.append(auto)
                    inf["tests"].add(f"\0{len(inf['tests'])}")
                    return edge()
                if name.lower().startswith("bucket "):
                    self.tag("bucket named like an invented bucket name" + (" that another bucket has (clash)" if name in bn else ""))
                if name not in bn:
                    bn.append(name)
                if r.random() < 0.3:
                    inf["tests"].add(name)
                    return edge(value=f"b{len(inf['tests'])}", name=name)
            inf["tests"].add(name)
            return edge(value=name)
        if t == "start_new_flow":
            opts = [o for o in ("completed", "expired") if o not in inf["tests"]]
            if self.collide and r.random() < 0.25:
                return self.foreign_outcome(("complete", "completed", "expired"))
            if not opts:
                return None
            o = r.choice(opts)
            inf["tests"].add(o)
            if self.collide:
                return edge(value=case_variant(r, r.choice(["completed", "complete"]) if o == "completed" else "expired"),
                            name=r.choice(["", "", case_variant(r, r.choice(RESERVED_CATEGORY_NAMES))]))
            return edge(value=r.choice(["completed", "Complete", "complete", "Completed"]) if o == "completed" else r.choice(["expired", "Expired"]))
        if t in ("call_webhook", "transfer_airtime"):
            opts = [o for o in ("success", "failure") if o not in inf["tests"]]
            if self.collide and r.random() < 0.25:
                return self.foreign_outcome(("success", "failure"))
            if not opts:
                return None
            o = r.choice(opts)
            inf["tests"].add(o)
            if o == "failure" and r.random() < 0.5:
                return edge()
            if self.collide:
                return edge(value=case_variant(r, o), name=r.choice(["", "", case_variant(r, r.choice(RESERVED_CATEGORY_NAMES))]))
            return edge(value=r.choice([o, o.title()]))
        if t == "block":
            if inf["has_default"]:
                return None
            inf["has_default"] = True
            return edge()
        return None

    def default_edge(self, inf):
        if self.collide and any(t == "Other" for t in inf["titles"].values()):
            self.tag("default edge written AFTER an unnamed test whose value title-cases to Other")
        inf["default_written"] = True
        return edge()

    def foreign_outcome(self, own):
        """an edge from an outcome row whose value is a reserved word of ANOTHER kind of row (not an outcome of this
        row: ignored, with an error in the log)"""
        r = self.rng
        w = case_variant(r, r.choice([x for x in RESERVED if x.lower() not in own]))
        self.tag("outcome row: edge with a reserved word that is not one of its outcomes")
        return edge(value=w)

    def named(self, inf, e, args):
        """book-keeping of the category names of a decision (what the documented naming rule invents for an unnamed
        test); in collide mode an unnamed test may get an explicit name that collides in spelling - not in identity -
        with invented names"""
        r = self.rng
        if self.collide and not e["name"] and r.random() < 0.3:
            x = r.random()
            if x < 0.4:
                cand = case_variant(r, r.choice(RESERVED_CATEGORY_NAMES))       # "other", "OTHER", "No response", ...
            elif x < 0.8:
                cand = r.choice(self.vocab).title()                                # what a test for that word is called
                if r.random() < 0.3:
                    cand = "None_" + cand
            else:
                cand = r.choice(sorted(inf["catnames"])) + "_alt"                  # what the next clash would be called
            if r.random() < 0.15:
                cand += "_alt"
            if cand not in inf["catnames"] or cand in inf["names"]:
                e["name"] = cand
                inf["names"].add(cand)
                self.tag("explicit category name spelt like an invented / reserved name (no category of the decision has it)")
        if e["name"]:
            inf["catnames"].add(e["name"])
        else:
            nm = self.auto_name(inf, args)
            base = "_".join(str(a).title() for a in args)
            if self.collide:
                if nm != base:
                    self.tag("unnamed test whose invented name is taken (`_alt`): " + ("by an explicit name" if base in inf["names"] else
                             "by the default / No Response category" if base in ("Other", "No Response") else "by another invented name"))
                if base == "Other":
                    self.tag("unnamed test whose value title-cases to Other, default edge " + ("written before" if inf.get("default_written") else "not yet written"))
            inf["catnames"].add(nm)
            inf["titles"][(e["ctype"], e["value"])] = base
        return e

    def case_cond(self, inf, var):
        r = self.rng
        ctype = r.choice(["", "", ""] + TEST_TYPES_OK)
        if self.has_group and r.random() < 0.15:
            ctype = "has_group"
        if ctype == "has_group":
            value = self.gname()
        elif ctype in NO_ARG_TESTS:
            # tests without arguments are usually written with a blank value: the edge is still conditional
            value = r.choice(["", "", "x"])
        else:
            value = self.cvalue()
        key = (ctype or "has_any_word", "" if ctype in NO_ARG_TESTS else value)
        if key in inf["tests"] or (ctype in NO_ARG_TESTS and any(k[0] == ctype for k in inf["tests"] if isinstance(k, tuple))):
            if self.wf:
                return None
        inf["tests"].add(key)
        name = ""
        if r.random() < (0.4 if not self.collide else 0.15):
            name = "Cat " + r.choice(["Yes", "No", "Maybe", self.simple()])
            if self.wf and name in inf["names"]:
                name = name + " " + str(len(inf["names"]))
            if inf["names"] and r.random() < 0.3:
                # two tests of one decision may share a result category (e.g. "yes" and "ok" both "Positive"):
                # the category is the one already there, and the edge written last says where it leads
                name = r.choice(sorted(inf["names"]))
            inf["names"].add(name)
        if self.clash_names and r.random() < 0.08:
            taken = ["Other", "No Response"] + [k[1].title() for k in sorted(inf["tests"], key=repr) if isinstance(k, tuple) and k[1] and k[1] != value]
            name = r.choice(taken)
        return self.named(inf, edge(value=value, variable=var, ctype=ctype, name=name), [None, value] if ctype == "has_group" else [value])

    # -- rows -----------------------------------------------------------------------------
    def node_row(self, t, rid):
        r = self.rng
        row = {"type": t, "row_id": rid, "edges": []}
        inf = self.new_info(t)
        if t == "send_message":
            row["arg"] = self.text()
            if r.random() < 0.3:
                row["choices"] = [self.word() for _ in range(r.choice([1, 2, 3]))]
            if r.random() < 0.15:
                row[r.choice(["image", "audio", "video"])] = "http://x/" + self.simple()
            if r.random() < 0.1:
                row["attachments"] = ["image:http://y/" + self.simple()]
        elif t == "save_value":
            row["arg"] = self.word()
            row["save_name"] = self.sname("field")
        elif t in ("add_to_group", "remove_from_group", "split_by_group"):
            g = self.gname()
            if g not in self.groups:
                self.groups[g] = new_uuid(r) if r.random() < 0.3 else ""
            row["arg"] = [g]
            if self.groups[g] and r.random() < 0.7:
                row["obj_id"] = self.groups[g]
        elif t == "save_flow_result":
            row["arg"] = self.word()
            row["save_name"] = self.sname("result")
            if r.random() < 0.3:
                row["result_category"] = self.sname("cat")
        elif t.startswith("set_contact_"):
            row["arg"] = {"set_contact_language": "eng", "set_contact_name": "Name " + self.simple(),
                          "set_contact_status": "active", "set_contact_timezone": "Africa/Nairobi"}[t]
        elif t == "add_contact_urn":
            row["arg"] = "@results.phone_" + self.simple()
            if r.random() < 0.5:
                row["urn_scheme"] = r.choice(["tel", "whatsapp", "mailto"])
        elif t == "wait_for_response":
            if r.random() < 0.4:
                row["save_name"] = self.sname("ans")
            if r.random() < 0.4:
                row["no_response"] = str(r.choice([60, 300, 3600]))
                inf["timeout"] = True
        elif t == "split_by_value":
            row["arg"] = "@fields." + self.simple()
            if r.random() < 0.3:
                row["save_name"] = self.sname("res")
        elif t == "start_new_flow":
            row["arg"] = "flow " + self.simple()
            names = [k for k in self.groups if not k.startswith("flow:")]
            if names and r.random() < 0.25:
                row["arg"] = r.choice(sorted(names))      # a flow named like a group of the same workbook: two objects
            # one uuid per flow NAME (two explicit uuids for one name are a conflict the tool rightly
            # rejects: C06's subject, outside the reference meaning of rows)
            fkey = "flow:" + row["arg"]
            if fkey not in self.groups:
                self.groups[fkey] = new_uuid(r) if r.random() < 0.3 else ""
            if self.groups[fkey] and r.random() < 0.7:
                row["obj_id"] = self.groups[fkey]
        elif t == "call_webhook":
            row["arg"] = r.choice(["", "body " + self.simple()])
            row["webhook_url"] = "http://hook/" + self.simple()
            row["webhook_method"] = r.choice(["", "GET", "POST", "PUT"])
            row["webhook_headers"] = [["H" + str(i), self.simple()] for i in range(r.choice([0, 1, 2]))]
            row["save_name"] = self.sname("hook")
        elif t == "transfer_airtime":
            row["arg"] = [["KES", "10"], ["USD", "1.5"]][: r.choice([1, 2])]
            row["save_name"] = self.sname("air")
        if t in ACTION_TYPES and r.random() < 0.5:
            inf["no_cases"] = True
        if r.random() < 0.25:
            row["node_uuid"] = new_uuid(r)
        return row, inf

    def incoming(self, k):
        """k edges (at most) from rows that still accept one; the previous row first (blank from)"""
        r = self.rng
        es = []
        used = set()
        if self.prev is not None and (r.random() < 0.6 or self.prev not in self.order):
            c = self.cond_from(self.prev)
            if c is not None:
                c["from"] = "" if (self.prev not in self.order or r.random() < 0.7) else self.prev
                es.append(c)
                used.add(self.prev)
        cands = [x for x in self.order if x not in used]
        r.shuffle(cands)
        for src in cands:
            if len(es) >= k:
                break
            c = self.cond_from(src)
            if c is not None:
                c["from"] = src
                es.append(c)
                used.add(src)
        return es[:max(k, 1)]

    def step(self, first=False):
        """append one row; returns False when nothing could be added"""
        r = self.rng
        x = r.random()
        if first or x < 0.72:
            t = r.choice(ACTION_TYPES[:5] * 3 + ACTION_TYPES + DECISION_TYPES * 3 + OUTCOME_TYPES
                         + (DECISION_TYPES * 5 + DECISION_TYPES[:2] * 4 if self.collide else []))    # collide: names meet in decisions
            rid = self.fresh_id()
            row, inf = self.node_row(t, rid)
            if first:
                row["edges"] = [edge("start")]
            else:
                row["edges"] = self.incoming(r.choice([1, 1, 1, 1, 2, 2, 3] if not self.collide else [1, 2, 2, 3, 3, 4]))
                if not row["edges"]:
                    return False
            key = rid
            if r.random() < 0.12 and not first:
                row["row_id"] = ""
                key = "\0" + rid
            elif rid == "start":
                key = "\0" + rid        # `from start` is an edge from nowhere: no edge can name this row
            else:
                self.order.append(key)
            self.info[key] = inf
            self.rows.append(row)
            self.prev = key
            return True
        if x < 0.80:
            tgts = [k for k in self.order if self.info[k]["type"] in NODE_TYPES]
            es = self.incoming(r.choice([1, 1, 2]))
            if not es or not tgts:
                return False
            dest = [r.choice(tgts)] if (len(es) == 1 or r.random() < 0.5) else [r.choice(tgts) for _ in es]
            self.rows.append({"type": "go_to", "row_id": "", "edges": es, "arg": dest})
            return True
        if x < 0.88:
            es = self.incoming(1)
            if not es:
                return False
            self.rows.append({"type": r.choice(["hard_exit", "loose_exit"]), "row_id": "", "edges": es})
            return True
        es = self.incoming(r.choice([1, 1, 2]))
        if not es:
            return False
        rid = self.fresh_id("n")
        dec = r.random() < 0.5
        self.rows.append({"type": "no_op", "row_id": rid, "edges": es})
        self.info[rid] = self.new_info("no_op_dec" if dec else "no_op_plain")
        self.order.append(rid)
        self.prev = rid
        return True

    def generate(self, n_rows):
        tries = 0
        first = True
        while len(self.rows) < n_rows and tries < n_rows * 8:
            tries += 1
            if self.step(first):
                first = False
        return self.rows


def gen_core_sheet(rng, n_rows, wf=True, special_text=True, has_group=False, clash_names=False, collide=False):
    g = Gen(rng, wf=wf, special_text=special_text, has_group=has_group, clash_names=clash_names, collide=collide)
    rows = g.generate(n_rows)
    return rows, g


def gen_star_sheet(rng, n_edges, clash_names=False):
    """ONE decision and n_edges edges leaving it, written in collide mode with a vocabulary of one or two words: what
    FlowParser does with such a sheet is a sequence of add_exit calls on one long-lived node group, so the names the
    tool invented for the earlier edges are the history every later edge meets.  The decision is a wait (with or
    without timeout), a value / group / random split, an action row (implicit router), a no_op decision or an outcome
    row; every edge leads to a row of its own (a message), now and then to an earlier one (go_to) or to an exit.
    Every prefix rows[:k] (k >= the index returned) is a sheet in its own right: the state after k - 1 edges."""
    g = Gen(rng, wf=True, special_text=False, has_group=rng.random() < 0.4, clash_names=clash_names, collide=True)
    g.vocab = g.vocab[:rng.choice([1, 1, 2])]
    t = rng.choice(["wait_for_response"] * 3 + ["split_by_value"] * 2 + ["split_by_group", "split_random", "send_message", "no_op",
                    "start_new_flow", "call_webhook"])
    if t == "no_op":
        first, inf0 = g.node_row("send_message", "r0")
        first["edges"] = [edge("start")]
        first.pop("node_uuid", None)
        rows = [first, {"type": "no_op", "row_id": "d", "edges": [edge("r0")]}]
        src = "d"
        g.info[src] = g.new_info("no_op_dec")
    else:
        row, inf = g.node_row(t, "d")
        row["edges"] = [edge("start")]
        row.pop("node_uuid", None)
        inf["no_cases"] = False
        rows = [row]
        src = "d"
        g.info[src] = inf
    g.order = [src]
    g.tag("star: " + t)
    base = len(rows)
    msgs = []
    tries = 0
    while len(rows) - base < n_edges and tries < n_edges * 6:
        tries += 1
        c = g.cond_from(src)
        if c is None:
            continue
        c["from"] = src
        x = rng.random()
        if x < 0.1 and msgs:
            rows.append({"type": "go_to", "row_id": "", "edges": [c], "arg": [rng.choice(msgs)]})
        elif x < 0.2:
            rows.append({"type": rng.choice(["hard_exit", "loose_exit"]), "row_id": "", "edges": [c]})
        else:
            rid = "m%d" % len(rows)
            rows.append({"type": "send_message", "row_id": rid, "edges": [c], "arg": "message " + rid})
            msgs.append(rid)
    return rows, base, g


# ---------------------------------------------------------------- sugar: loops, blocks, include_if
# A sugared sheet is a tree: items are
#   ("row", row)                              plain row (may carry include_if)
#   ("for", head, var, idxvar, elems, cell, body)   begin_for ... end_for ; elems = the list
#                                             values as strings, cell = how the list is written
#   ("block", head, body)                     begin_block ... end_block
# Row fields inside loop bodies may contain {{var}} / {{idxvar}}.

def subst_row(row, env):
    def sub(v):
        if isinstance(v, str):
            for k, x in env.items():
                v = v.replace("{{" + k + "}}", x)
            return v
        if isinstance(v, list):
            return [sub(x) for x in v]
        if isinstance(v, dict):
            return {k: sub(x) for k, x in v.items()}
        return v
    return {k: sub(v) for k, v in row.items()}


INCLUDE_CMP = re.compile(r'^\{\{ (\w+) (==|!=) "([^"]*)" \}\}$')


def include(row, env=None):
    """the reference reading of an include_if cell: a literal, or the comparison `{{ v == "word" }}` of a loop /
    context variable with a word (what the generator writes), evaluated under the variables in force"""
    cell = str(row.get("include_if", "")).strip()
    m = INCLUDE_CMP.match(cell)
    if m and env is not None and m.group(1) in env:
        same = env[m.group(1)] == m.group(3)
        return same if m.group(2) == "==" else not same
    return cell.lower() != "false"


def flatten_sugared(tree):
    out = []
    for it in tree:
        if it[0] == "row":
            out.append(it[1])
        elif it[0] == "for":
            _, head, var, idxvar, elems, cell, body = it
            h = dict(head, type="begin_for", loop_variable=[var] + ([idxvar] if idxvar else []), arg=cell)
            out.append(h)
            out += flatten_sugared(body)
            out.append({"type": "end_for", "row_id": "", "edges": [edge()]})
        else:
            _, head, body = it
            out.append(dict(head, type="begin_block"))
            out += flatten_sugared(body)
            out.append({"type": "end_block", "row_id": "", "edges": [edge()]})
    return out


def desugar(tree, env=None):
    """The reference desugaring (DESIGN Appendix B rules 1-2): a loop becomes a block that
    carries the loop row's id and incoming edges and contains the body once per element, in
    order, with the loop and index variables substituted; rows and blocks whose include_if is
    false disappear with everything inside them (never instantiated)."""
    env = env or {}
    out = []
    for it in tree:
        if it[0] == "row":
            r = it[1]
            if not include(r, env):
                continue
            r = subst_row(r, env)
            r.pop("include_if", None)
            out.append(r)
        elif it[0] == "for":
            _, head, var, idxvar, elems, cell, body = it
            if not include(head, env):
                continue
            h = subst_row(head, env)
            h.pop("include_if", None)
            out.append(dict(h, type="begin_block"))
            for i, e in enumerate(elems):
                env2 = dict(env)
                env2[var] = e
                if idxvar:
                    env2[idxvar] = str(i)
                out += desugar(body, env2)
            out.append({"type": "end_block", "row_id": "", "edges": [edge()]})
        else:
            _, head, body = it
            if not include(head, env):
                continue
            h = subst_row(head, env)
            h.pop("include_if", None)
            out.append(dict(h, type="begin_block"))
            out += desugar(body, env)
            out.append({"type": "end_block", "row_id": "", "edges": [edge()]})
    return out


class SugarGen(Gen):
    """Generates sugared sheets (trees).  Bodies are generated by nested generators whose
    row ids are prefixed (and, inside loops, carry the loop variable so that every
    iteration has its own ids); body rows only take edges from rows of the same body, the
    first body row continues from the preceding row (blank `from`)."""

    def __init__(self, rng, wf=True, special_text=True, prefix="", depth=0, loopvars=(), first_blank=False, empty_loops=False,
                 shadow=False, ctxvars=(), cmpvars=()):
        super().__init__(rng, wf, special_text, prefix)
        self.ctxvars = tuple(ctxvars)
        self.cmpvars = tuple(cmpvars)      # loop variables bound to words (not indices, not range numbers): usable in include_if
        self.depth = depth
        self.loopvars = tuple(loopvars)
        self.first_blank = first_blank
        self.empty_loops = empty_loops
        self.shadow = shadow
        self.tree = []
        self.nblocks = 0

    def text(self):
        t = super().text()
        for v in self.loopvars:
            if self.rng.random() < 0.7:
                t += " {{" + v + "}}"
        for v in self.ctxvars:
            if self.rng.random() < 0.4:
                t += " {{" + v + "}}"
        return t

    def cmp_cell(self):
        """an include_if cell that depends on a loop variable: `{{ v == "word" }}` / `{{ v != "word" }}`"""
        r = self.rng
        return '{{ %s %s "%s" }}' % (r.choice(self.cmpvars), r.choice(["==", "!="]), r.choice(SIMPLE))

    def gen_tree(self, n_items):
        r = self.rng
        first = not self.first_blank
        tries = 0
        while len(self.tree) < n_items and tries < n_items * 8:
            tries += 1
            x = r.random()
            if (first and self.depth == 0) or x < 0.62 or self.depth >= 2:
                before = len(self.rows)
                if self.first_blank and not self.rows and not self.tree:
                    # first row of a body: continues from whatever precedes the block body
                    t = r.choice(ACTION_TYPES[:5] * 3 + DECISION_TYPES * 2 + OUTCOME_TYPES)
                    rid = self.fresh_id()
                    row, inf = self.node_row(t, rid)
                    row["edges"] = [edge()]
                    row.pop("node_uuid", None)
                    self.info[rid] = inf
                    self.order.append(rid)
                    self.rows.append(row)
                    self.prev = rid
                    ok = True
                else:
                    ok = self.step(first)
                if ok:
                    first = False
                    for row in self.rows[before:]:
                        if self.loopvars:
                            row.pop("node_uuid", None)   # a given node id inside a loop would repeat
                        self.tree.append(("row", row))
                        # a row nobody can refer to, switched off by include_if
                        if r.random() < 0.12 and self.order:
                            ghost = {"type": "send_message", "row_id": "", "edges": [edge(r.choice(self.order), value="ghost")],
                                     "arg": "never {{undefined_variable_" + str(len(self.tree)) + "}}", "include_if": r.choice(["FALSE", "false", "False"])}
                            self.tree.append(("row", ghost))
                        elif self.cmpvars and r.random() < 0.2:
                            # a row nobody can refer to that is there in some iterations only: its inclusion depends on a loop variable
                            srcs = [k for k in self.order if self.info[k]["type"] in ACTION_TYPES + ["wait_for_response", "split_by_value"]]
                            if srcs:
                                some = {"type": "send_message", "row_id": "", "edges": [edge(r.choice(srcs), value="some" + str(len(self.tree)))],
                                        "arg": "sometimes " + self.text(), "include_if": self.cmp_cell()}
                                self.tree.append(("row", some))
            else:
                if first or (self.prev is None and not self.order):
                    continue
                es = self.incoming(1 if r.random() < 0.7 else 2)
                es = [e for e in es if blank_cond(e)] if self.wf else es
                if not es:
                    continue
                self.nblocks += 1
                bid = self.fresh_id("B")
                head = {"row_id": bid, "edges": es}
                if r.random() < 0.55:
                    var = r.choice(["x", "item", "v"]) + str(self.depth)
                    idxvar = ("i" + str(self.depth)) if r.random() < 0.4 else None
                    outer = self.ctxvars + self.loopvars
                    if self.shadow and outer and r.random() < 0.6:
                        var = r.choice(outer)             # shadows a context variable or an enclosing loop's variable
                    if self.shadow and outer and idxvar and r.random() < 0.35:
                        idxvar = r.choice(outer)          # ... and so may the index variable (possibly the same name)
                    n = r.choice([1, 2, 2, 3] + ([0] if self.empty_loops else []))
                    style = r.choice(["plain", "plain", "native", "range"])
                    if style == "range":
                        elems = [str(i) for i in range(n)]
                        cell = "{@ range(%d) @}" % n
                    elif style == "native":
                        elems = [self.simple() for _ in range(n)]
                        cell = "{@ [" + ", ".join("'" + e + "'" for e in elems) + "] @}"
                    else:
                        # list elements are data: characters that mean something to HTML/XML (& < > ' ") are
                        # substituted as they are, like everything else
                        elems = [r.choice(MARKUP_WORDS) if r.random() < 0.35 else self.simple() for _ in range(n)]
                        cell = list(elems)
                        if n == 0:
                            elems, cell = [], "{@ [] @}"
                    cmpvars = tuple(v for v in self.cmpvars + ((var,) if style != "range" else ()) if v != idxvar and (style != "range" or v != var))
                    sub = SugarGen(r, self.wf, self.special_text, prefix=f"{bid}_{{{{{var}}}}}_", depth=self.depth + 1,
                                   loopvars=self.loopvars + (var,) + ((idxvar,) if idxvar else ()), first_blank=True,
                                   empty_loops=self.empty_loops, shadow=self.shadow, ctxvars=self.ctxvars, cmpvars=cmpvars)
                    body = sub.gen_tree(r.choice([1, 2, 3]))
                    if r.random() < 0.1:
                        head["include_if"] = "FALSE"
                    elif self.cmpvars and r.random() < 0.3:
                        head["include_if"] = self.cmp_cell()     # there in some iterations of the enclosing loop only
                    self.tree.append(("for", head, var, idxvar, elems, cell, body))
                else:
                    sub = SugarGen(r, self.wf, self.special_text, prefix=f"{bid}_", depth=self.depth + 1,
                                   loopvars=self.loopvars, first_blank=True,
                                   empty_loops=self.empty_loops, shadow=self.shadow, ctxvars=self.ctxvars, cmpvars=self.cmpvars)
                    body = sub.gen_tree(r.choice([1, 2, 3]))
                    if r.random() < 0.1:
                        head["include_if"] = "FALSE"
                    elif self.cmpvars and r.random() < 0.3:
                        head["include_if"] = self.cmp_cell()     # there in some iterations of the enclosing loop only
                    self.tree.append(("block", head, body))
                if include(head):
                    key = bid
                    if r.random() < 0.2 or INCLUDE_CMP.match(str(head.get("include_if", ""))):
                        # a block / loop nobody names: only the row written next can leave it (blank `from`)
                        head["row_id"] = ""
                        key = "\0" + bid
                    self.info[key] = self.new_info("block")
                    if key == bid:
                        self.order.append(bid)
                    self.prev = key
        return self.tree


def gen_sugared(rng, n_items, wf=True, special_text=True, empty_loops=False):
    g = SugarGen(rng, wf=wf, special_text=special_text, empty_loops=empty_loops)
    return g.gen_tree(n_items), g


def gen_merge_sheet(rng, n_rows, special_text=False):
    """a wf sheet that ends with an action row followed by 1-2 rows merged into its node
    through the node name (_nodeId): one unconditional edge from the row, same node id"""
    g = Gen(rng, wf=True, special_text=special_text)
    g.generate(n_rows)
    for _ in range(12):
        last = g.rows[-1] if g.rows else None
        if last and last["type"] in ACTION_TYPES and last.get("row_id"):
            break
        g.step(first=not g.rows)
    last = g.rows[-1]
    if not (last["type"] in ACTION_TYPES and last.get("row_id")):
        return g.rows, g
    last.setdefault("node_uuid", new_uuid(rng))
    prev = last
    for _ in range(rng.choice([1, 2])):
        t = rng.choice(ACTION_TYPES[:5])
        rid = g.fresh_id("m")
        row, inf = g.node_row(t, rid)
        row["node_uuid"] = last["node_uuid"]
        row["edges"] = [edge(prev["row_id"])]
        g.rows.append(row)
        prev = row
    return g.rows, g


def tree_depth(tree):
    d = 0
    for it in tree:
        if it[0] == "for":
            d = max(d, 1 + tree_depth(it[6]))
        elif it[0] == "block":
            d = max(d, 1 + tree_depth(it[2]))
    return d
