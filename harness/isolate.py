"""Evaluate implementation calls IN ISOLATION: every item is evaluated in its own forked copy of an
interpreter that has imported the implementation and has never called it.

    iso = Isolated()                       # starts `python isolate.py` (PYTHONPATH as the check's)
    iso.ask("c08_sessions", "isolated_apply", items) -> [result, ...]   (JSON values)
    iso.close()

The server process imports the handler module (and, through its `isolated_prepare()`, the parts of the
implementation the handler needs), then for each item forks; the child calls handler(item), writes the
JSON result into a pipe and exits with os._exit — whatever the call left behind in instance, class, module
or interpreter state dies with the child.  This is the reference "the same operation on a fresh object in
a process with no history" against which the long-lived objects of the history streams are compared.
Used by harness/c08.py and harness/c09.py (properties C08, C09)."""
import importlib
import json
import os
import subprocess
import sys

HERE = os.path.dirname(os.path.abspath(__file__))


class Isolated:
    def __init__(self):
        env = dict(os.environ)
        env["PYTHONDONTWRITEBYTECODE"] = "1"
        env.setdefault("PYTHONHASHSEED", "0")
        self.p = subprocess.Popen([sys.executable, os.path.join(HERE, "isolate.py")], stdin=subprocess.PIPE,
                                  stdout=subprocess.PIPE, text=True, env=env, cwd=HERE)
        self.calls = 0

    def ask(self, mod, fn, items):
        """-> list of results, one per item; an item whose child died gives {"crash": ...}"""
        if not items:
            return []
        self.p.stdin.write(json.dumps(dict(mod=mod, fn=fn, items=items)) + "\n")
        self.p.stdin.flush()
        line = self.p.stdout.readline()
        if not line:
            raise RuntimeError("isolation server died")
        self.calls += len(items)
        return json.loads(line)

    def close(self):
        try:
            self.p.stdin.close()
            self.p.wait(timeout=10)
        except Exception:
            self.p.kill()


def _child(handler, item, wfd):
    try:
        out = json.dumps(handler(item))
    except BaseException as e:  # noqa: B902 - the child must always answer
        out = json.dumps({"crash": f"{type(e).__name__}: {e}"})
    data = out.encode()
    while data:
        n = os.write(wfd, data)
        data = data[n:]
    os.close(wfd)
    os._exit(0)


def serve():
    sys.path.insert(0, HERE)
    import common
    common.use_impl()
    # the protocol has its own descriptor; anything the implementation prints goes to stderr
    out = os.fdopen(os.dup(1), "w")
    os.dup2(2, 1)
    prepared = {}
    for line in sys.stdin:
        line = line.strip()
        if not line:
            continue
        req = json.loads(line)
        mod = importlib.import_module(req["mod"])
        if req["mod"] not in prepared:
            prep = getattr(mod, "isolated_prepare", None)
            if prep:
                prep()                      # imports only: nothing of the implementation is CALLED here
            prepared[req["mod"]] = True
        handler = getattr(mod, req["fn"])
        results = []
        for item in req["items"]:
            rfd, wfd = os.pipe()
            pid = os.fork()
            if pid == 0:
                os.close(rfd)
                _child(handler, item, wfd)
            os.close(wfd)
            chunks = []
            while True:
                b = os.read(rfd, 1 << 16)
                if not b:
                    break
                chunks.append(b)
            os.close(rfd)
            os.waitpid(pid, 0)
            try:
                results.append(json.loads(b"".join(chunks).decode()))
            except Exception:
                results.append({"crash": "no answer from the isolated child"})
        out.write(json.dumps(results) + "\n")
        out.flush()


if __name__ == "__main__":
    serve()
