"""C13 — output is a function of the input: deterministic, repeatable, history-free.

A theorem about a pure model cannot see a leak through state the model does not have, so the
weight of this check is the HISTORY-DRIVEN tie (DESIGN §5-C13):

(a) histories: random sequences (2..8 calls quick) of converters.create_flows /
    save_data_sheets / convert_to_json / flows_to_sheets, ContentIndexParser(..).parse_all()
    (container kept), RapidProContainer.from_dict (container kept), container.render(),
    flow.to_rows(), on generated and repository workbooks, with tag filters, succeeding and
    failing, run in ONE process (harness/c13_worker.py, one subprocess per history so that
    nothing leaks between histories).  After every call the worker reads the hidden state the
    process really has (logging-context stacks, __defaults__/__kwdefaults__/attributes of
    every function of every rpft module, every module global, class attribute, pydantic field
    default, lru caches, cwd, environ) and reports any difference from the pristine picture.
    The LAST call of the history is the observed one: its output, with invented uuids renamed
    in order of first occurrence, must equal that of the same call in a FRESH process;
(b) every history under several PYTHONHASHSEED values (4 quick / 32 thorough); outputs of
    every call compared across seeds as canonical text (CSV bytes for exports);
(c) invented uuids are never shared between containers / calls of one process nor between
    objects of one output; identifiers that are not uuid4-shaped must be given ones, verbatim;
    exported sheets of a flow file carry the file's own node/object ids;
(c') REPEATED-STATE stream: the host process puts what it controls into a state it was in before (random.seed(k) with
    the same k, random.setstate(saved), clocks frozen freezegun-style, a fixed os.getpid()) and compiles again, the same or
    another workbook: the invented uuids of any two runs are disjoint, in one process and between processes started the
    same way (a twin process under the same PYTHONHASHSEED, the other hash seeds, the fresh process);
(d) per kept container: every render returns the same document; to_rows is repeatable;
    to_rows leaves no trace in render; render leaves no trace in to_rows other than
    completing absent identifiers (reported as its own finding class);
(e) correspondence with the extracted model (Io/Hidden.v through Wire/C13Wire.v): the whole
    history goes through `run`; per call the outcome (projection: flow names, flow/node
    uuids, first action with its group/flow reference, group list; Ok/critical/raise) and the
    hidden part (stack depth, defaults pristine, number of kept containers) must agree, up to
    the renaming of invented ids over the whole trace; TagMatcher alone; the regenerated
    inventory against the worker's own introspection.
"""
import concurrent.futures
import json
import os
import re
import shutil
import subprocess
import tempfile
import time

import c13_lists
import flowutil
import sheetgen
from common import PY, REPO, VERIF, enc_str, impl_env, parse_sexp, dec_str

LEVEL = "proof"
WORKER = os.path.join(os.path.dirname(os.path.abspath(__file__)), "c13_worker.py")
UUID_RE = re.compile(r"[0-9a-fA-F]{8}-[0-9a-fA-F]{4}-[0-9a-fA-F]{4}-[0-9a-fA-F]{4}-[0-9a-fA-F]{12}")
UUID4_RE = re.compile(r"^[0-9a-f]{8}-[0-9a-f]{4}-4[0-9a-f]{3}-[89ab][0-9a-f]{3}-[0-9a-f]{12}$")

IH = ["type", "sheet_name", "new_name", "status", "tags.1", "tags.2"]
FH = ["row_id", "type", "from", "condition", "loop_variable", "message_text", "obj_id", "_nodeId"]
SHEETS = ["sa", "sb", "sc", "sd"]
GROUPS = ["G0", "G1", "G2", "Survey people"]
VARS = ["x", "y", "item"]
TEXTS = ["hello", "good day", "café", "yes or no?", "Well done!", "a-b", "Question 2", "bye"]
ITEMS = ["one", "two", "red", "blue", "k9"]
TAG1, TAG2 = ["a", "b", ""], ["p", "q", ""]
TAG_FILTERS = [None, None, [], ["1", "a"], ["1", "a", "b", "2", "p"], ["2", "q"], ["1", "b", "2", "q"], ["0", "a"],
               ["1", "zzz"], ["a"], ["x", "1"]]
MODELS_MOD = "c13_scratch_models"
EX1 = "tests/input/example1/csv_workbook"
EX1_MODELS = "tests.input.example1.nestedmodel"
FIXTURE_JSON = "tests/output/all_test_flows.json"

RENDER_COMPLETES = "render-completes-absent-ids-seen-by-to_rows"
# The literal reading of "neither operation changes what the other returns" makes this a (low-severity)
# finding, listed in findings.d/C13.json.  Should it be reclassified as intended behaviour, set this to
# False (the occurrences are then only counted in the evidence) and drop the findings.d entry.
REPORT_RENDER_COMPLETES = True


# ================================================================== abstract workbooks
def given_id(rng):
    r = rng.random()
    if r < 0.6:
        return sheetgen.new_uuid(rng)
    if r < 0.8:
        return sheetgen.new_uuid(rng).upper()
    return "id-" + "".join(rng.choice("ABCdef0123") for _ in range(6))


class WbGen:
    """model vocabulary (Io/Hidden.v): index rows create_flow / template_definition / ignore_row /
    invalid type, draft status, two tag columns; flow rows send_message / add_to_group /
    start_new_flow / begin_for..end_for (nested), a row that raises, a row that is critical."""

    def __init__(self, rng, fail=None):
        self.rng, self.fail = rng, fail

    def rows(self, depth, scope, nids, top):
        rng = self.rng
        n = rng.randint(0 if top else 1, 5 if top else 3)
        out = []
        for k in range(n):
            last = k == n - 1
            prev_enter = bool(out) and out[-1][0] == "enter"
            r = rng.random()
            if r < 0.45 or (last and not top):
                if scope and rng.random() < 0.6:
                    cell = ["var", rng.choice(scope)]
                else:
                    cell = ["lit", rng.choice(TEXTS)]
                out.append(["send", self.nid(top, nids), cell])
            elif r < 0.65:
                out.append(["group", self.nid(top, nids), rng.choice(GROUPS), given_id(rng) if rng.random() < 0.4 else ""])
            elif r < 0.8 and not (last and not top):
                out.append(["enter", self.nid(top, nids), rng.choice(SHEETS + ["elsewhere"]), given_id(rng) if rng.random() < 0.3 else ""])
            elif depth < 2 and not prev_enter:
                var = rng.choice([v for v in VARS if v not in scope] or VARS)
                its = [rng.choice(ITEMS) for _ in range(rng.randint(1, 3))]
                body = self.rows(depth + 1, scope + [var], nids, False)
                if not body or body[-1][0] not in ("send", "group"):
                    body.append(["send", "", ["var", var]])
                out.append(["for", var, its, body])
            else:
                out.append(["send", self.nid(top, nids), ["lit", rng.choice(TEXTS)]])
        return out

    def nid(self, top, nids):
        # given node ids: top level only and unique per sheet (rows sharing a _nodeId are
        # MERGED into one node by FlowParser: C01's subject, outside this model)
        if top and self.rng.random() < 0.35:
            u = given_id(self.rng)
            nids.add(u)
            return u
        return ""

    def workbook(self):
        rng = self.rng
        nsheets = rng.randint(1, 3)
        names = rng.sample(SHEETS, nsheets)
        flows = [[nm, self.rows(0, [], set(), True)] for nm in names]
        index = []
        for _ in range(rng.randint(1, 4)):
            r = rng.random()
            tags = [rng.choice(TAG1), rng.choice(TAG2)]
            draft = rng.random() < 0.1
            if r < 0.7:
                kind = ["create_flow", rng.choice(names), rng.choice(["", "", "", "renamed", names[0]])]
            elif r < 0.8:
                kind = ["template_definition", rng.choice(names)]
            elif r < 0.9:
                kind = ["ignore_row", rng.choice(names + ["renamed", "nothing"])]
            else:
                kind = ["invalid"]
            index.append({"draft": draft, "tags": tags, "kind": kind})
        if not any(i["kind"][0] == "create_flow" and not i["draft"] for i in index):
            index.insert(0, {"draft": False, "tags": ["", ""], "kind": ["create_flow", names[0], ""]})
        wb = {"index": index, "flows": flows}
        f = self.fail
        if f == "no_index":
            wb["index"] = None
        elif f == "missing_sheet":
            index.insert(rng.randint(0, len(index)), {"draft": False, "tags": ["", ""], "kind": ["create_flow", "ghost", ""]})
        elif f == "missing_template":
            index.insert(rng.randint(0, len(index)), {"draft": False, "tags": ["", ""], "kind": ["template_definition", "ghost"]})
        elif f in ("bad_row", "crit_row"):
            fl = rng.choice(flows)[1]
            self.insert_somewhere(fl, ["bad"] if f == "bad_row" else ["crit"])
        elif f == "unbound_var":
            rng.choice(flows)[1].append(["send", "", ["var", "nobody"]])
        elif f == "group_conflict":
            fl = flows[0][1]
            fl.insert(0, ["group", "", "G1", given_id(rng)])
            rng.choice(flows)[1].append(["group", "", "G1", given_id(rng)])
        elif f == "flow_conflict":
            flows[0][1].append(["send", "", ["lit", "x"]])
            flows[0][1].append(["enter", "", names[0], given_id(rng)])
        elif f == "empty_loop":
            rng.choice(flows)[1].append(["for", "lonely", [], [["send", "", ["var", "lonely"]]]])
        elif f == "same_var_nested":
            rng.choice(flows)[1].append(["for", "x", ["one", "two"], [["for", "x", ["red"], [["send", "", ["var", "x"]]]],
                                                                     ["send", "", ["lit", "after inner"]]]])
        return wb

    def insert_somewhere(self, rows, item):
        rng = self.rng
        loops = [r for r in rows if r[0] == "for"]
        if loops and rng.random() < 0.4:
            body = rng.choice(loops)[3]
            body.insert(rng.randint(0, max(0, len(body) - 1)), item)
        else:
            rows.insert(rng.randint(0, len(rows)), item)


FAILS = ["no_index", "missing_sheet", "missing_template", "bad_row", "crit_row", "unbound_var", "group_conflict",
         "flow_conflict", "empty_loop", "same_var_nested"]


def wb_ids(wb):
    out = set()

    def walk(rows):
        for r in rows:
            if r[0] in ("send",):
                out.add(r[1])
            elif r[0] in ("group", "enter"):
                out.add(r[1])
                out.add(r[3])
            elif r[0] == "for":
                walk(r[3])

    for _, rows in wb["flows"]:
        walk(rows)
    out.discard("")
    return out


# ---- rendering to CSV (written from the sheet-format documentation)
def flow_cells(rows):
    out = []

    def emit(rs):
        prev_enter = False
        for r in rs:
            cond = "completed" if prev_enter else ""
            prev_enter = False
            if r[0] == "send":
                txt = r[2][1] if r[2][0] == "lit" else "{{" + r[2][1] + "}}"
                out.append({"type": "send_message", "message_text": txt, "_nodeId": r[1], "condition": cond})
            elif r[0] == "group":
                out.append({"type": "add_to_group", "message_text": r[2], "obj_id": r[3], "_nodeId": r[1], "condition": cond})
            elif r[0] == "enter":
                out.append({"type": "start_new_flow", "message_text": r[2], "obj_id": r[3], "_nodeId": r[1], "condition": cond})
                prev_enter = True
            elif r[0] == "for":
                # a blank cell is the one-element list [""]; the empty list has to be written as a native template
                out.append({"type": "begin_for", "loop_variable": r[1], "message_text": sheetgen.join_list(r[2]) if r[2] else "{@ [] @}",
                            "condition": cond})
                emit(r[3])
                out.append({"type": "end_for"})
            elif r[0] == "bad":
                # unknown row type with a main argument: FlowRowModel cannot place it (raises while the row is parsed)
                out.append({"type": "no_such_row_type", "message_text": "boom"})
            elif r[0] == "crit":
                out.append({"type": "send_message", "message_text": "orphan", "from": "no-such-row"})

    emit(rows)
    return out


def index_cells(index):
    out = []
    for i in index:
        k = i["kind"]
        c = {"status": "draft" if i["draft"] else "", "tags.1": i["tags"][0], "tags.2": i["tags"][1]}
        if k[0] == "create_flow":
            c.update(type="create_flow", sheet_name=k[1], new_name=k[2])
        elif k[0] == "template_definition":
            c.update(type="template_definition", sheet_name=k[1])
        elif k[0] == "ignore_row":
            c.update(type="ignore_row", sheet_name=k[1])
        else:
            c.update(type="no_such_index_type", sheet_name="whatever")
        out.append(c)
    return out


def write_wb(wb, d):
    os.makedirs(d, exist_ok=True)
    if wb["index"] is not None:
        flowutil.write_csv(os.path.join(d, "content_index.csv"), IH, index_cells(wb["index"]))
    for name, rows in wb["flows"]:
        flowutil.write_csv(os.path.join(d, name + ".csv"), FH, flow_cells(rows))


# ---- rendering to the model's S-expressions (Wire/C13Wire.v)
def sx_list(items):
    return "(" + " ".join(items) + ")"


def sx_frow(r):
    if r[0] == "send":
        return f"(0 {enc_str(r[1])} ({0 if r[2][0] == 'lit' else 1} {enc_str(r[2][1])}))"
    if r[0] == "group":
        return f"(1 {enc_str(r[1])} {enc_str(r[2])} {enc_str(r[3])})"
    if r[0] == "enter":
        return f"(2 {enc_str(r[1])} {enc_str(r[2])} {enc_str(r[3])})"
    if r[0] == "for":
        return f"(3 {enc_str(r[1])} {sx_list(enc_str(i) for i in r[2])} {sx_list(sx_frow(b) for b in r[3])})"
    return "(4)" if r[0] == "bad" else "(5)"


def sx_wb(wb):
    def irow(i):
        k = i["kind"]
        kk = {"create_flow": lambda: f"(0 {enc_str(k[1])} {enc_str(k[2])})", "template_definition": lambda: f"(1 {enc_str(k[1])})",
              "ignore_row": lambda: f"(2 {enc_str(k[1])})", "invalid": lambda: "(3)"}[k[0]]()
        return f"({1 if i['draft'] else 0} {sx_list(enc_str(t) for t in i['tags'])} {kk})"

    idx = "()" if wb["index"] is None else "(" + sx_list(irow(i) for i in wb["index"]) + ")"
    fl = sx_list(f"({enc_str(n)} {sx_list(sx_frow(r) for r in rows)})" for n, rows in wb["flows"])
    return f"({idx} {fl})"


def sx_tags(t):
    return "()" if t is None else "(" + sx_list(enc_str(x) for x in t) + ")"


# ================================================================== inputs and histories
def rich_sheets(rng):
    """a workbook outside the model's vocabulary: the general sheet generator (routers, webhooks,
    go_to, ...), one flow"""
    rows, _ = sheetgen.gen_core_sheet(rng, rng.choice([3, 6, 10]), wf=rng.random() < 0.85, special_text=rng.random() < 0.4)
    headers, cells = sheetgen.render_sheet(rows, rng)
    sheets = flowutil.single_flow_workbook("rich flow", headers, cells)
    return {n: [h, c] for n, (h, c) in sheets.items()}


def materialise(inputs, root):
    """-> {key: path}; repository inputs are used in place (read-only)"""
    paths = {}
    for key, spec in inputs.items():
        k = spec["kind"]
        if k == "model":
            paths[key] = os.path.join(root, key)
            write_wb(spec["wb"], paths[key])
        elif k == "sheets":
            paths[key] = os.path.join(root, key)
            os.makedirs(paths[key], exist_ok=True)
            for name, (headers, rows) in spec["sheets"].items():
                flowutil.write_csv(os.path.join(paths[key], name + ".csv"), headers, rows)
        elif k in ("json", "jsonbook"):
            # "json": a flow file; "jsonbook": a workbook in the one-file format JSONSheetReader reads
            paths[key] = os.path.join(root, key + ".json")
            with open(paths[key], "w", encoding="utf-8") as f:
                json.dump(spec["data"], f)
        elif k == "repo":
            paths[key] = os.path.join(REPO, spec["path"])
    mdir = os.path.join(root, "pymods")
    os.makedirs(mdir, exist_ok=True)
    with open(os.path.join(mdir, MODELS_MOD + ".py"), "w") as f:
        f.write(c13_lists.MODELS_SRC)    # one model, used by the data sheets of the hash-order stream only
    return paths


def input_texts(paths):
    for p in paths.values():
        if os.path.isdir(p):
            for fn in sorted(os.listdir(p)):
                if fn.endswith((".csv", ".json")):
                    yield open(os.path.join(p, fn), encoding="utf-8").read()
        elif os.path.exists(p):
            yield open(p, encoding="utf-8").read()


def concrete_ops(ops, paths):
    out = []
    for op in ops:
        o = dict(op)
        if "wbs" in o:
            o["dirs"] = [paths[k] for k in o.pop("wbs")]
        if "wb" in o:
            o["dir"] = paths[o.pop("wb")]
        if "file" in o:
            o["json"] = paths[o.pop("file")]
        out.append(o)
    return out


def run_worker(ops, paths, root, seed, tag):
    cwd = os.path.join(root, f"run_{tag}")
    os.makedirs(cwd, exist_ok=True)
    job = {"ops": concrete_ops(ops, paths), "cwd": cwd, "sys_path": [os.path.join(root, "pymods"), REPO],
           "preimport": [MODELS_MOD, EX1_MODELS]}
    jp, rp = os.path.join(cwd, "job.json"), os.path.join(cwd, "result.json")
    with open(jp, "w") as f:
        json.dump(job, f)
    env = impl_env()
    env["PYTHONHASHSEED"] = str(seed)
    t0 = time.time()
    p = subprocess.run([PY, "-W", "ignore", WORKER, jp, rp], cwd=cwd, env=env, stdout=subprocess.PIPE, stderr=subprocess.STDOUT,
                       text=True, timeout=600)
    if not os.path.exists(rp):
        return {"crashed": p.stdout[-1500:], "results": []}
    out = json.load(open(rp, encoding="utf-8"))
    out["wall"] = time.time() - t0
    return out


class HistGen:
    def __init__(self, rng, stats, thorough):
        self.rng, self.stats, self.thorough = rng, stats, thorough
        self.fixture_flow = None

    def count(self, k):
        self.stats[k] = self.stats.get(k, 0) + 1

    def new_input(self, inputs, kind):
        rng = self.rng
        key = f"in{len(inputs)}"
        if kind == "model":
            fail = rng.choice(FAILS) if rng.random() < 0.3 else None
            self.count("wb_fail:" + str(fail))
            inputs[key] = {"kind": "model", "wb": WbGen(rng, fail).workbook()}
        elif kind == "model_ok":
            self.count("wb_fail:None")
            inputs[key] = {"kind": "model", "wb": WbGen(rng, None).workbook()}
        elif kind == "rich":
            inputs[key] = {"kind": "sheets", "sheets": rich_sheets(rng)}
        elif kind == "ex1":
            inputs[key] = {"kind": "repo", "path": EX1}
        elif kind == "fixture":
            inputs[key] = {"kind": "repo", "path": FIXTURE_JSON}
        elif kind == "flowfile":
            inputs[key] = {"kind": "json", "data": self.flow_file()}
        return key

    def flow_file(self):
        """a flow file made by compiling a generated workbook here (its uuids are GIVEN to the calls under test)"""
        rng = self.rng
        for _ in range(6):
            sheets = {n: (h, c) for n, (h, c) in rich_sheets(rng).items()}
            r = flowutil.compile_workbook(sheets)
            if r[0] == "ok":
                # the uuids invented by this compilation become GIVEN ids of the file: draw them from the check's rng
                ren = {}
                text = UUID_RE.sub(lambda m: ren.setdefault(m.group(0), sheetgen.new_uuid(rng)), json.dumps(r[1], default=str))
                return json.loads(text)
        return json.load(open(os.path.join(REPO, FIXTURE_JSON)))

    def pick_input(self, inputs, kinds, p_new=0.5, mostly_ok=False):
        have = [k for k, s in inputs.items() if self.kind_of(s) in kinds]
        if have and self.rng.random() > p_new:
            return self.rng.choice(have)
        kind = self.rng.choice(kinds)
        if kind == "model" and mostly_ok and self.rng.random() < 0.75:
            kind = "model_ok"
        return self.new_input(inputs, kind)

    @staticmethod
    def kind_of(spec):
        if spec["kind"] == "model":
            return "model"
        if spec["kind"] == "sheets":
            return "rich"
        if spec["kind"] == "json":
            return "flowfile"
        if spec["kind"] == "jsonbook":
            return "jsonbook"
        return "ex1" if spec["path"] == EX1 else "fixture"

    def op(self, ops, inputs, observed=False):
        rng = self.rng
        keeps = [o for o in ops if o["op"] in ("parse_keep", "load_keep")]
        if not observed and rng.random() < 0.08:
            return host_op_random(rng)         # the host process does something of its own between two calls
        r = rng.random()
        if keeps and r < 0.34:
            t = rng.choice(keeps)
            if rng.random() < 0.5:
                return {"op": "render", "target": t["id"]}
            return {"op": "to_rows", "target": t["id"], "flow": rng.randint(0, 3), "numbered": rng.random() < 0.3}
        if r < 0.55 or (not keeps and r < 0.62):
            k = rng.random()
            if k < 0.72:
                return {"op": "parse_keep", "wbs": [self.pick_input(inputs, ["model"], 0.6, mostly_ok=True)]}
            if k < 0.86:
                return {"op": "parse_keep", "wbs": [self.pick_input(inputs, ["rich", "ex1"])]}
            return {"op": "load_keep", "file": self.pick_input(inputs, ["flowfile", "fixture"])}
        if r < 0.8:
            k = rng.random()
            if k < 0.7:
                return {"op": "create_flows", "wbs": [self.pick_input(inputs, ["model"])], "tags": rng.choice(TAG_FILTERS), "out": rng.random() < 0.3}
            if k < 0.85:
                tags = rng.choice([None, [], ["1", "basic"], ["1", "advanced", "2", "type1"], ["2", "type2"], ["oops"]])
                return {"op": "create_flows", "wbs": [self.pick_input(inputs, ["ex1"])], "tags": tags, "out": rng.random() < 0.3,
                        "data_models": EX1_MODELS}
            return {"op": "create_flows", "wbs": [self.pick_input(inputs, ["rich"])], "tags": rng.choice([None, []]), "out": rng.random() < 0.3}
        if r < 0.88:
            k = rng.random()
            if k < 0.6:
                return {"op": "save_data", "wbs": [self.pick_input(inputs, ["model"])], "tags": rng.choice(TAG_FILTERS),
                        "data_models": MODELS_MOD if rng.random() < 0.7 else None}
            return {"op": "save_data", "wbs": [self.pick_input(inputs, ["ex1"])], "tags": rng.choice([None, ["1", "basic"]]),
                    "data_models": EX1_MODELS if rng.random() < 0.8 else None}
        if r < 0.93:
            return {"op": "convert", "wb": self.pick_input(inputs, ["model", "rich", "ex1"])}
        return {"op": "flows_to_sheets", "file": self.pick_input(inputs, ["flowfile", "fixture"]),
                "strip": rng.random() < 0.5, "numbered": rng.random() < 0.5}

    def history(self):
        rng = self.rng
        n = rng.randint(2, 12 if self.thorough else 8)
        ops, inputs = [], {}
        for i in range(n):
            o = self.op(ops, inputs, observed=(i == n - 1))
            o["id"] = i
            ops.append(o)
            self.count("op:" + o["op"])
        self.count(f"len:{n}")
        self.count("observed:" + ops[-1]["op"])
        return {"ops": ops, "inputs": inputs}


HOST_OPS = ("seed_rng", "rng_restore", "freeze_time", "thaw_time", "fix_pid")
RNG_SEEDS = [0, 1, 42, 2024, 20240101, 2 ** 32 + 5, "pytest-randomly"]
INSTANTS = [0.0, 1700000000.0, 1700000000.123456, 4102444800.5]


def host_text(o):
    return {"seed_rng": lambda: f"random.seed({o['k']!r})", "rng_restore": lambda: "random.setstate(state at process start)",
            "freeze_time": lambda: f"clocks frozen at {o['t']}", "thaw_time": lambda: "clocks thawed",
            "fix_pid": lambda: f"os.getpid() fixed to {o['pid']}"}[o["op"]]()


def host_op_random(rng):
    r = rng.random()
    if r < 0.5:
        return {"op": "seed_rng", "k": rng.choice(RNG_SEEDS)}
    if r < 0.65:
        return {"op": "rng_restore"}
    if r < 0.85:
        return {"op": "freeze_time", "t": rng.choice(INSTANTS)}
    if r < 0.92:
        return {"op": "thaw_time"}
    return {"op": "fix_pid", "pid": rng.choice([1, 7, 4242])}


def repeat_history(rng, gen, rstats):
    """one case of the REPEATED-STATE stream: [recipe; compilation] two or three times, the recipe being host operations that put
    process state the caller controls into the SAME state each time (random.seed(k), random.setstate, frozen clocks, fixed pid),
    the compilation create_flows or parse_all + render (also from_dict + render of a file whose references lack ids) of the same
    or of another workbook, other calls (failing ones too) in between.  A quarter of the cases re-seed with ANOTHER value
    (control).  The last compilation is the observed call."""
    def count(k):
        rstats[k] = rstats.get(k, 0) + 1

    inputs, ops = {}, []
    n_rec = rng.choice([1, 1, 2, 3])
    recipe = []
    while len(recipe) < n_rec:
        o = host_op_random(rng)
        if o["op"] != "thaw_time" and o["op"] not in [p["op"] for p in recipe]:
            recipe.append(o)
    if not any(o["op"] in ("seed_rng", "rng_restore") for o in recipe) and rng.random() < 0.7:
        recipe.insert(0, {"op": "seed_rng", "k": rng.choice(RNG_SEEDS)})
    count("recipe:" + "+".join(sorted(o["op"] for o in recipe)))
    rounds = rng.choice([2, 2, 3])
    kinds = ["model_ok", "model_ok", "rich", "ex1"]
    first = gen.new_input(inputs, rng.choice(kinds))
    for r in range(rounds):
        rec = [dict(o) for o in recipe]
        if r > 0 and rng.random() < 0.25:
            for o in rec:
                if o["op"] == "seed_rng":
                    o["k"] = rng.choice([k for k in RNG_SEEDS if k != o["k"]])
            count("round:other-seed")
        else:
            count("round:same-state")
        ops += rec
        if r == 0 or rng.random() < 0.5:
            wb = first
            count("workbook:same" if r else "workbook:first")
        else:
            wb = gen.new_input(inputs, rng.choice(kinds))
            count("workbook:other")
        ex1 = inputs[wb]["kind"] == "repo"
        c = rng.random()
        if c < 0.6:
            o = {"op": "create_flows", "wbs": [wb], "tags": None if ex1 else rng.choice(TAG_FILTERS[:3]), "out": rng.random() < 0.2}
            if ex1:
                o["data_models"] = EX1_MODELS
            ops.append(o)
            count("compile:create_flows")
        else:
            o = {"op": "parse_keep", "wbs": [wb]}
            if ex1:
                o["data_models"] = EX1_MODELS
            ops.append(o)
            ops.append({"op": "render", "target": ("rel", -1)})
            count("compile:parse_all+render")
        if r < rounds - 1:
            for _ in range(rng.choice([0, 0, 1, 2])):
                n = gen.op([], inputs)          # (no calls on kept containers here)
                ops.append(n)
                count("between:" + n["op"])
            if rng.random() < 0.2:
                ops.append({"op": "thaw_time"})
    for i, o in enumerate(ops):
        o["id"] = i
        if isinstance(o.get("target"), tuple):
            o["target"] = i + o["target"][1]
    count(f"len:{len(ops)}")
    return {"ops": ops, "inputs": inputs, "stream": "repeat"}


def list_history(rng, lg, ostats):
    """one case of the HASH-ORDER stream (c13_lists): 1..3 list-rich workbooks with sheets of equal names, compiled, their data
    sheets saved, converted, parsed + exported; the compiled document thickened into a flow file and exported / loaded + rendered;
    the first workbook as a one-file JSON workbook with its sheets in two orders.  The units are shuffled: every kind of call gets
    to be the observed (last) one, compared with a fresh process."""
    def count(k):
        ostats[k] = ostats.get(k, 0) + 1

    books = lg.case_books()
    inputs = {f"in{i}": {"kind": "sheets", "sheets": b} for i, b in enumerate(books)}
    wbs = list(inputs)
    tags = rng.choice(c13_lists.TAG_FILTERS)
    units = [[{"op": "create_flows", "wbs": wbs, "tags": tags, "out": rng.random() < 0.3, "data_models": MODELS_MOD}],
             [{"op": "convert", "wb": rng.choice(wbs)}]]
    if rng.random() < 0.6:
        units.append([{"op": "save_data", "wbs": wbs, "tags": tags, "data_models": MODELS_MOD}])
    if rng.random() < 0.4:
        units.append([{"op": "parse_keep", "wbs": wbs, "data_models": MODELS_MOD},
                      {"op": "to_rows", "target": ("rel", -1), "flow": rng.randint(0, 5), "numbered": rng.random() < 0.3}])
    doc = c13_lists.compile_books(books)
    count("books:" + str(len(books)))
    count("compiles_here:" + ("ok" if doc else "no"))
    if doc:
        ren = {}
        doc = json.loads(UUID_RE.sub(lambda m: ren.setdefault(m.group(0), sheetgen.new_uuid(rng)), json.dumps(doc, default=str)))
        inputs["inF"] = {"kind": "json", "data": lg.thicken_doc(doc)}
        units.append([{"op": "flows_to_sheets", "file": "inF", "strip": rng.random() < 0.4, "numbered": rng.random() < 0.4}])
        if rng.random() < 0.5:
            units.append([{"op": "load_keep", "file": "inF"}, {"op": "render", "target": ("rel", -1)}])
    if rng.random() < 0.5:
        b = books[0]
        o1 = list(b)
        o2 = o1[:]
        rng.shuffle(o2)
        if o2 == o1:
            o2.reverse()
        inputs["inJ1"] = {"kind": "jsonbook", "data": c13_lists.as_json_book(b, o1)}
        inputs["inJ2"] = {"kind": "jsonbook", "data": c13_lists.as_json_book(b, o2)}
        if rng.random() < 0.7:
            units.append([{"op": "create_flows", "wbs": ["inJ1"], "fmt": "json", "tags": tags, "out": False, "data_models": MODELS_MOD},
                          {"op": "create_flows", "wbs": ["inJ2"], "fmt": "json", "tags": tags, "out": False, "data_models": MODELS_MOD, "same_as": ("rel", -1)}])
        else:
            units.append([{"op": "convert", "wb": "inJ1", "fmt": "json"}, {"op": "convert", "wb": "inJ2", "fmt": "json", "same_as": ("rel", -1)}])
    rng.shuffle(units)
    ops = [o for u in units for o in u]
    for i, o in enumerate(ops):
        o["id"] = i
        for k in ("target", "same_as"):
            if isinstance(o.get(k), tuple):
                o[k] = i + o[k][1]
        count("op:" + o["op"] + (":json" if o.get("fmt") == "json" else ""))
    count("observed:" + ops[-1]["op"])
    return {"ops": ops, "inputs": inputs, "stream": "lists"}


def fresh_slice(ops):
    """the observed (last) call with only what it needs: the call that built its container and,
    for to_rows, one render if the history rendered that container before"""
    last = ops[-1]
    # what the host process did to its own state is part of "started the same way": kept, in place
    host = [o for o in ops[:-1] if o["op"] in HOST_OPS]
    if last["op"] not in ("render", "to_rows"):
        return host + ([dict(last, same_as=None)] if last.get("same_as") is not None else [last])
    keep = next(o for o in ops if o["id"] == last["target"])
    out = [o for o in ops[:-1] if o is keep or o["op"] in HOST_OPS]
    if last["op"] == "to_rows" and any(o["op"] == "render" and o["target"] == last["target"] for o in ops[:-1]):
        out.append({"op": "render", "target": last["target"], "id": -1})
    return out + [last]


def drop_op(ops, i):
    """history without call i and without the calls that need the container it built"""
    gone = {ops[i]["id"]}
    return [o for k, o in enumerate(ops) if k != i and o.get("target") not in gone and o.get("same_as") not in gone]


# ================================================================== canonical outputs
def out_text(res):
    """the output of a call as text, in the order the implementation produced it"""
    o = res.get("out")
    if res["status"] != "ok":
        return res["status"] + ":" + ("" if res["status"] == "skipped" else res["etype"])
    if res["op"] == "flows_to_sheets":
        return "".join(f"=== {fn}\n{txt}" for fn, txt in o["files"].items())
    if res["op"] == "convert":
        return o["text"]
    parts = [json.dumps(o.get("value", o.get("flows")), ensure_ascii=False, default=str)]
    if "file" in o:
        parts.append(o["file"])
    if "flow" in o:
        parts.append(str(o["flow"]))
    return "\n".join(parts)


def invented_in(text, given):
    seen = []
    for u in UUID_RE.findall(text):
        if u not in given and u not in seen:
            seen.append(u)
    return seen


def canon_text(text, given):
    ren = {}

    def sub(m):
        u = m.group(0)
        if u in given:
            return u
        if u not in ren:
            ren[u] = f"#{len(ren)}"
        return ren[u]

    return UUID_RE.sub(sub, text)


def first_diff(a, b):
    k = next((i for i in range(min(len(a), len(b))) if a[i] != b[i]), min(len(a), len(b)))
    return f"at char {k}: ...{a[max(0, k - 60):k + 60]!r} vs ...{b[max(0, k - 60):k + 60]!r}"


def def_sites(doc):
    """(site, uuid) of every object that OWNS a uuid in a rendered document"""
    out = []
    for fl in doc.get("flows", []):
        out.append((("flow", fl.get("name")), fl.get("uuid")))
        for n in fl.get("nodes", []):
            out.append((("node", id(n)), n.get("uuid")))
            for a in n.get("actions", []) or []:
                out.append((("action", id(a)), a.get("uuid")))
                for g in a.get("groups", []) or []:
                    out.append((("group", g.get("name")), g.get("uuid")))
                if isinstance(a.get("flow"), dict):
                    out.append((("flow", a["flow"].get("name")), a["flow"].get("uuid")))
            for e in n.get("exits", []) or []:
                out.append((("exit", id(e)), e.get("uuid")))
            r = n.get("router") or {}
            for c in r.get("categories", []) or []:
                out.append((("category", id(c)), c.get("uuid")))
            for c in r.get("cases", []) or []:
                out.append((("case", id(c)), c.get("uuid")))
    for g in doc.get("groups", []) or []:
        out.append((("group", g.get("name")), g.get("uuid")))
    return out


# ================================================================== the oracle, from the property text
def host_before(ops, k):
    """what the host process did to its own state before call k (for the messages)"""
    h = [host_text(o) for o in ops[:k] if o["op"] in HOST_OPS]
    return (" [host process before: " + "; ".join(h) + "]") if h else ""


def judge(hist, runs, fresh, given, model_ids, twin=None):
    """runs: {seed: worker result}; fresh: worker result of fresh_slice under the first seed; twin: the whole history once
    more in another process started exactly like the first (same PYTHONHASHSEED).
    -> list of (key, summary)"""
    ops = hist["ops"]
    bad = []
    seeds = list(runs)
    for s in seeds:
        r = runs[s]
        if r.get("crashed") is not None or len(r["results"]) != len(ops):
            bad.append(("worker-crashed", f"PYTHONHASHSEED={s}: {str(r.get('crashed'))[-400:]}"))
            return bad
        if not r["pristine_ok"]:
            bad.append(("hidden-state-unstable", f"PYTHONHASHSEED={s}: two readings of the untouched state differ"))
        for k, res in enumerate(r["results"]):
            if res["state"]:
                bad.append(("hidden-state-leak", f"after call {k} ({res['op']}, {res['status']} {res['etype']}) under PYTHONHASHSEED={s}: "
                            + "; ".join(res["state"][:4])))
                break
    base = runs[seeds[0]]["results"]
    texts = {s: [out_text(x) for x in runs[s]["results"]] for s in seeds}
    # (b) across hash seeds
    for s in seeds[1:]:
        for k in range(len(ops)):
            a, b = canon_text(texts[seeds[0]][k], given), canon_text(texts[s][k], given)
            if a != b:
                bad.append(("hashseed-dependent-output", f"call {k} ({ops[k]['op']}) differs between PYTHONHASHSEED={seeds[0]} and {s}: " + first_diff(a, b)))
                break
        else:
            continue
        break
    # (b') one workbook written twice with its sheets enumerated in two orders (JSON workbooks: an object is an unordered map)
    for k, o in enumerate(ops):
        kj = next((i for i, p in enumerate(ops) if o.get("same_as") is not None and p["id"] == o["same_as"]), None)
        if kj is None:
            continue
        a, b = texts[seeds[0]][kj], texts[seeds[0]][k]
        if o["op"] == "convert" and base[k]["status"] == "ok" and base[kj]["status"] == "ok":
            same = json.loads(a) == json.loads(b)      # the result lists the sheets: compared as the unordered map it is
        else:
            a, b = canon_text(a, given), canon_text(b, given)
            same = a == b
        if not same:
            bad.append(("sheet-order-dependent-output", f"call {k} ({o['op']}) on the workbook of call {kj} with its sheets enumerated in another order "
                        f"gives another result: " + first_diff(a, b)))
            break
    # (a) the observed call against a fresh process
    if fresh is not None:
        if fresh.get("crashed") is not None or not fresh["results"]:
            bad.append(("worker-crashed", f"fresh process: {str(fresh.get('crashed'))[-400:]}"))
        else:
            a, b = canon_text(texts[seeds[0]][-1], given), canon_text(out_text(fresh["results"][-1]), given)
            if a != b:
                bad.append(("history-dependent-output", f"observed call {ops[-1]['op']} after {len(ops) - 1} earlier calls differs from the same call in a fresh process: "
                            + first_diff(a, b)))
            for res in fresh["results"]:
                if res["state"]:
                    bad.append(("hidden-state-leak", f"fresh process, after {res['op']}: " + "; ".join(res["state"][:4])))
                    break
    # (c) invented identifiers: never the same in two processes (two runs)
    procs = [(f"PYTHONHASHSEED={s}", set().union(*[set(invented_in(t, given)) for t in texts[s]])) for s in seeds]
    if fresh is not None and fresh.get("results"):
        procs.append(("fresh process", set().union(*[set(invented_in(out_text(x), given)) for x in fresh["results"]])))
    if twin is not None:
        if twin.get("crashed") is not None or len(twin["results"]) != len(ops):
            bad.append(("worker-crashed", f"twin process: {str(twin.get('crashed'))[-400:]}"))
        else:
            procs.insert(1, (f"a second process started the same way (PYTHONHASHSEED={seeds[0]})",
                             set().union(*[set(invented_in(out_text(x), given)) for x in twin["results"]])))
    for i in range(len(procs)):
        for j in range(i + 1, len(procs)):
            both = procs[i][1] & procs[j][1]
            if both:
                bad.append(("invented-uuid-repeats-across-processes", f"uuid {sorted(both)[0]} ({len(both)} in all) was invented in two different processes "
                            f"({procs[i][0]} and {procs[j][0]})" + host_before(ops, len(ops))))
                break
        else:
            continue
        break
    # (c) invented identifiers: owners
    owner = {}
    for k, res in enumerate(base):
        if res["status"] != "ok":
            continue
        own = ops[k].get("target", ops[k]["id"])
        for u in invented_in(texts[seeds[0]][k], given):
            if owner.setdefault(u, own) != own:
                bad.append(("invented-uuid-reused", f"uuid {u} invented for call/container {owner[u]} appears again in call {k} ({ops[k]['op']}) on {own}"
                            + host_before(ops, k)))
                break
        if ops[k]["op"] in ("create_flows", "render"):
            doc = res["out"]["value"]
            site_of = {}
            for site, u in def_sites(doc):
                if isinstance(u, str) and u and u not in given:
                    if site_of.setdefault(u, site) != site:
                        bad.append(("invented-uuid-reused", f"call {k}: uuid {u} is carried by two objects: {site_of[u][0]} and {site[0]}"))
                        break
                    if not UUID4_RE.match(u) and not UUID_RE.fullmatch(u):
                        bad.append(("given-id-altered", f"call {k}: identifier {u!r} of a {site[0]} is neither a given identifier nor a uuid"))
                        break
    # (c) flow files: exported sheets carry the file's own ids
    for k, res in enumerate(base):
        if res["status"] == "ok" and ops[k]["op"] == "flows_to_sheets" and not ops[k].get("strip"):
            for fn, txt in res["out"]["files"].items():
                hdr, rows = sheet_rows(txt)
                for col in ("_nodeId", "obj_id"):
                    if col in hdr:
                        for r in rows:
                            v = r[hdr.index(col)]
                            if v and v not in given and not (col == "obj_id" and not UUID_RE.fullmatch(v)):
                                bad.append(("given-id-altered", f"call {k}: {fn} has {col}={v!r}, which is not an identifier of the flow file"))
                                break
    # (d) per container
    bad += judge_containers(ops, base, given)
    return bad


def sheet_rows(text):
    import csv
    import io

    rows = list(csv.reader(io.StringIO(text, newline="")))
    return (rows[0], rows[1:]) if rows else ([], [])


def completion_only(before, after):
    """rows after the first render differ from the rows before it only where an identifier was absent"""
    if len(before) != len(after):
        return False
    for a, b in zip(before, after):
        for key in set(a) | set(b):
            if a.get(key) != b.get(key):
                if key == "obj_id" and a.get(key) in ("", None):
                    continue
                return False
    return True


def judge_containers(ops, base, given):
    bad = []
    targets = [o["id"] for o in ops if o["op"] in ("parse_keep", "load_keep")]
    for t in targets:
        renders, rows = [], {}
        validated = 0
        for k, o in enumerate(ops):
            if o.get("target") != t:
                continue
            res = base[k]
            if o["op"] == "render":
                renders.append((k, res))
                if res["status"] == "ok":
                    validated += 1
            elif o["op"] == "to_rows" and res["status"] != "skipped":
                rows.setdefault((res["out"]["flow"] if res["status"] == "ok" else o["flow"], bool(o.get("numbered"))), []).append((k, min(validated, 1), res))
        for (k1, r1), (k2, r2) in zip(renders, renders[1:]):
            if r1["status"] != r2["status"] or (r1["status"] == "ok" and r1["out"]["value"] != r2["out"]["value"]):
                a, b = out_text(r1), out_text(r2)
                bad.append(("render-not-repeatable", f"container of call {t}: render at call {k1} and render at call {k2} differ ({first_diff(a, b)}); "
                            f"calls in between: {[ops[i]['op'] for i in range(k1 + 1, k2)]}"))
                break
        for key, seq in rows.items():
            for (k1, e1, r1), (k2, e2, r2) in zip(seq, seq[1:]):
                same = r1["status"] == r2["status"] and (r1["status"] != "ok" or r1["out"]["value"] == r2["out"]["value"])
                if same:
                    continue
                if e1 == e2:
                    bad.append(("to_rows-not-repeatable", f"container of call {t}, flow {key[0]}: to_rows at call {k1} and at call {k2} differ "
                                f"({first_diff(out_text(r1), out_text(r2))}); calls in between: {[ops[i]['op'] for i in range(k1 + 1, k2)]}"))
                elif r1["status"] == "ok" and r2["status"] == "ok" and completion_only(r1["out"]["value"], r2["out"]["value"]):
                    n = sum(1 for a, b in zip(r1["out"]["value"], r2["out"]["value"]) if a != b)
                    bad.append((RENDER_COMPLETES, f"container of call {t}, flow {key[0]}: to_rows before the first render (call {k1}) has {n} row(s) with an empty "
                                f"obj_id that to_rows after it (call {k2}) shows filled in"))
                else:
                    bad.append(("render-changes-to_rows", f"container of call {t}, flow {key[0]}: to_rows at call {k1} (before the first render) and at call {k2} "
                                f"(after it) differ in more than completed identifiers: {first_diff(out_text(r1), out_text(r2))}"))
                break
    return bad


# ================================================================== correspondence with the model
def leaf(u, ids):
    return ("G", u) if u in ids else ("F", u)


def opt(u, ids):
    return [] if u in (None, "") else [leaf(u, ids)]


def proj_action(kind, text, groups, flow, uuid, ids):
    if kind in ("send_msg", "send_message"):
        return [0, text]
    if kind in ("add_contact_groups", "add_to_group"):
        return [1, groups, opt(uuid, ids)]
    if kind in ("enter_flow", "start_new_flow"):
        return [2, flow, opt(uuid, ids)]
    return ["?", kind]


def proj_rendered(doc, ids):
    flows = []
    for fl in doc["flows"]:
        nodes = []
        for n in fl["nodes"]:
            a = (n.get("actions") or [None])[0]
            if a is None:
                act = ["?", "no action"]
            elif a["type"] == "add_contact_groups":
                act = proj_action(a["type"], None, a["groups"][0]["name"], None, a["groups"][0].get("uuid"), ids)
            elif a["type"] == "enter_flow":
                act = proj_action(a["type"], None, None, a["flow"]["name"], a["flow"].get("uuid"), ids)
            else:
                act = proj_action(a["type"], a.get("text"), None, None, None, ids)
            nodes.append([leaf(n["uuid"], ids), act])
        flows.append([fl["name"], leaf(fl["uuid"], ids), nodes])
    return [0, [flows, [[g["name"], opt(g.get("uuid"), ids)] for g in doc["groups"]]]]


def proj_rows(rows, ids):
    out = []
    for r in rows:
        g = (r.get("mainarg_groups") or [None])[0]
        out.append([leaf(r["node_uuid"], ids), proj_action(r["type"], r.get("mainarg_message_text"), g, r.get("mainarg_flow_name"), r.get("obj_id"), ids)])
    return [3, out]


def model_uuid(x):
    return ("G", dec_str(x[1])) if x[0] == 0 else ("F", x[1])


def model_act(a):
    if a[0] == 0:
        return [0, dec_str(a[1])]
    return [a[0], dec_str(a[1]), [model_uuid(a[2][0])] if a[2] else []]


def model_outcome(o):
    if o[0] == 0:
        fl = [[dec_str(f[0]), model_uuid(f[1]), [[model_uuid(n[0]), model_act(n[1])] for n in f[2]]] for f in o[1][0]]
        return [0, [fl, [[dec_str(g[0]), [model_uuid(g[1][0])] if g[1] else []] for g in o[1][1]]]]
    if o[0] == 3:
        return [3, [[model_uuid(n[0]), model_act(n[1])] for n in o[1]]]
    if o[0] == 5:
        return ["fail", {0: "critical", 1: "raise", 2: "out-of-fuel"}[o[1]]]
    return [o[0]]


def rename_trace(trace):
    ren = {}

    def walk(x):
        if isinstance(x, tuple) and len(x) == 2 and x[0] in ("G", "F"):
            if x[0] == "G":
                return "given:" + x[1]
            if x[1] not in ren:
                ren[x[1]] = f"#{len(ren)}"
            return ren[x[1]]
        if isinstance(x, list):
            return [walk(y) for y in x]
        return x

    return [walk(t) for t in trace]


def correspond(ctx, hist, base, cstats):
    """the history through the extracted model; every call compared"""
    ops, inputs = hist["ops"], hist["inputs"]
    ids = set()
    for spec in inputs.values():
        if spec["kind"] == "model":
            ids |= wb_ids(spec["wb"])
    is_model = lambda o: all(inputs[k]["kind"] == "model" for k in o.get("wbs", []))  # noqa: E731
    kept_index, calls, kinds = {}, [], []
    for k, o in enumerate(ops):
        res = base[k]
        if o["op"] == "create_flows" and is_model(o):
            calls.append(f"(0 {sx_tags(o['tags'])} {sx_wb(inputs[o['wbs'][0]]['wb'])})")
            kinds.append("create_flows")
        elif o["op"] == "save_data" and is_model(o):
            calls.append(f"(1 {sx_tags(o['tags'])} {1 if o.get('data_models') else 0} {sx_wb(inputs[o['wbs'][0]]['wb'])})")
            kinds.append("save_data")
        elif o["op"] == "parse_keep" and is_model(o):
            calls.append(f"(2 {sx_wb(inputs[o['wbs'][0]]['wb'])})")
            kinds.append("parse_keep")
            if res["status"] == "ok":
                kept_index[o["id"]] = len(kept_index)
        elif o["op"] == "render" and o["target"] in kept_index:
            calls.append(f"(3 {kept_index[o['target']]})")
            kinds.append("render")
        elif o["op"] == "to_rows" and o["target"] in kept_index and res["status"] == "ok":
            calls.append(f"(4 {kept_index[o['target']]} {res['out']['flow']})")
            kinds.append("to_rows")
        elif o["op"] in ("render", "to_rows") and res["status"] == "skipped" and is_model(next(p for p in ops if p["id"] == o["target"])):
            calls.append("(3 99)")
            kinds.append("absent")
        else:
            # host operations (random.seed, frozen clocks, ...) are COpaque true = Io.Hidden.CHost: the model's state has nothing they could reset
            calls.append(f"(5 {1 if res['status'] == 'ok' else 0})")
            kinds.append("host" if o["op"] in HOST_OPS else "opaque")
    ans = ctx.model.ask(f"(113 1 {sx_list(calls)})")
    tr = parse_sexp(ans)
    case = dict(ops=ops, inputs=inputs)
    if not isinstance(tr, list) or (tr and tr[0] in (999997, 999998, 999999)) or len(tr) != len(ops):
        ctx.disagree("C13 model rejected the history", case, ans[:300], "")
        return
    mtrace, itrace, where, nk = [], [], [], 0
    for k, (o, kind) in enumerate(zip(ops, kinds)):
        res, (mo, mh) = base[k], tr[k]
        cstats["calls"] = cstats.get("calls", 0) + 1
        cstats["kind:" + kind] = cstats.get("kind:" + kind, 0) + 1
        if kind == "parse_keep" and res["status"] == "ok":
            nk += 1
        # hidden part
        leak = [d for d in res["state"] if d.startswith(("stack:", "default:", "kwdefault:"))]
        ih = [0 if not any(d.startswith("stack:") for d in leak) else 1, 1 if not any(d.startswith(("default:", "kwdefault:")) for d in leak) else 0, nk]
        if [min(mh[0], 1), mh[1], mh[3]] != ih:
            ctx.disagree("C13 hidden state after a call (stack depth>0, defaults pristine, kept containers)", dict(case, call=k), [mh[0], mh[1], mh[3]], ih)
        m = model_outcome(mo)
        if kind in ("opaque", "host"):
            continue
        if res["status"] in ("critical", "raise"):
            i = ["fail", res["status"]]
        elif res["status"] == "skipped":
            i = [4]
        elif kind in ("create_flows", "render"):
            i = proj_rendered(res["out"]["value"], ids)
        elif kind == "to_rows":
            i = proj_rows(res["out"]["value"], ids)
        elif kind == "save_data":
            i = [1]
        else:
            i = [2]
        cstats["outcome:" + str(i[0] if i[0] != "fail" else i[1])] = cstats.get("outcome:" + str(i[0] if i[0] != "fail" else i[1]), 0) + 1
        mtrace.append(m)
        itrace.append(i)
        where.append(k)
    mt, it = rename_trace(mtrace), rename_trace(itrace)
    if mt != it:
        k = next(i for i in range(len(mt)) if mt[i] != it[i])
        ctx.disagree("C13 outcome of a call in a history (projection, invented ids renamed over the whole trace)",
                     dict(case, call=where[k]), json.dumps(mt[k], ensure_ascii=False)[:1200], json.dumps(it[k], ensure_ascii=False)[:1200])


def tagmatcher_correspondence(ctx, cstats):
    """TagMatcher alone against Io/Hidden.v tm_scan / tm_matches"""
    from rpft.parsers.creation.tagmatcher import TagMatcher

    rng = ctx.rng
    cases = []
    for _ in range(300 * ctx.scale):
        ps = [rng.choice(["1", "2", "3", "0", "10", "a", "b", "p", "q", "zz"]) for _ in range(rng.randint(0, 6))]
        ts = [rng.choice(["a", "b", "p", "q", "", "zz"]) for _ in range(rng.randint(0, 3))]
        cases.append((ps, ts))
    outs = ctx.model.ask_many([f"(113 2 {sx_list(enc_str(p) for p in ps)} {sx_list(enc_str(t) for t in ts)})" for ps, ts in cases])
    for (ps, ts), o in zip(cases, outs):
        try:
            i = [1, 1 if TagMatcher(ps).matches(ts) else 0]
        except ValueError:
            i = [0]
        cstats["tagmatcher"] = cstats.get("tagmatcher", 0) + 1
        if parse_sexp(o) != i:
            ctx.disagree("C13 TagMatcher(params).matches(tags)", dict(params=ps, tags=ts), o, i)
    d = TagMatcher.__init__.__defaults__
    if d != ([],):
        ctx.disagree("TagMatcher.__init__ default", None, "([],)", repr(d))


def tables_inventory():
    """(qualname, param, kind) of the mutable defaults as the translator wrote them into Gen/Tables.v"""
    tv = os.path.join(VERIF, "coq", "theories", "Gen", "Tables.v")
    out = []
    for line in open(tv, encoding="utf-8"):
        m = re.match(r"\s*c13 default: (\S+) (\S+) (\S+)\s*$", line)
        if m:
            out.append([m.group(1), m.group(2), m.group(3)])
    return sorted(out)


def tables_order_sources():
    """the exposed (not `member`) order sources as the translator wrote them into Gen/Tables.v"""
    tv = os.path.join(VERIF, "coq", "theories", "Gen", "Tables.v")
    out = []
    for line in open(tv, encoding="utf-8"):
        m = re.match(r"\s*c13 order source: (\S+) (\S+) (\S+) \(line (\d+)\)\s*$", line)
        if m and m.group(3) != "member":
            out.append(" ".join(m.groups()))
    return out


# ================================================================== evaluation of one history
class Lab:
    """runs histories: materialise once, then one worker process per (history, hash seed) + one fresh process"""

    def __init__(self, seeds, workers=14):
        self.seeds = seeds
        self.pool = concurrent.futures.ThreadPoolExecutor(max_workers=workers)

    def submit(self, hist, seeds=None):
        root = tempfile.mkdtemp(prefix="c13h")
        paths = materialise(hist["inputs"], root)
        given = set()
        for t in input_texts(paths):
            given |= set(UUID_RE.findall(t))
        for spec in hist["inputs"].values():
            if spec["kind"] == "model":
                given |= wb_ids(spec["wb"])
        seeds = seeds or self.seeds
        futs = {s: self.pool.submit(run_worker, hist["ops"], paths, root, s, f"s{s}") for s in seeds}
        fr = self.pool.submit(run_worker, fresh_slice(hist["ops"]), paths, root, seeds[0], "fresh")
        tw = None
        if any(o["op"] in HOST_OPS for o in hist["ops"]):
            tw = self.pool.submit(run_worker, hist["ops"], paths, root, seeds[0], "twin")
        return dict(root=root, futs=futs, fresh=fr, twin=tw, given=given, hist=hist)

    def collect(self, job):
        try:
            runs = {s: f.result() for s, f in job["futs"].items()}
            fresh = job["fresh"].result()
            job["twin_result"] = job["twin"].result() if job.get("twin") is not None else None
        finally:
            shutil.rmtree(job["root"], ignore_errors=True)
        return runs, fresh

    def evaluate(self, hist, seeds=None):
        job = self.submit(hist, seeds)
        runs, fresh = self.collect(job)
        return judge(hist, runs, fresh, job["given"], None, job["twin_result"]), runs

    def close(self):
        self.pool.shutdown(wait=True)


def shrink(lab, hist, key, seeds, budget=14):
    """drop calls (never the observed one) while the same class of failure remains"""
    ops = hist["ops"]
    i = 0
    while i < len(ops) - 1 and budget > 0:
        cand = drop_op(ops, i)
        if len(cand) == len(ops) or not cand or cand[-1] is not ops[-1]:
            i += 1
            continue
        budget -= 1
        used = {k for o in cand for k in o.get("wbs", []) + [o.get("wb"), o.get("file")] if k}
        h2 = {"ops": cand, "inputs": {k: v for k, v in hist["inputs"].items() if k in used}}
        bad, _ = lab.evaluate(h2, seeds)
        if any(b[0] == key for b in bad):
            ops, hist = cand, h2
        else:
            i += 1
    # a failure that does not need the observed call at all: try the shortest prefix
    return hist


def shrink_inputs(lab, hist, key, seeds, budget=16):
    """generated workbooks (kind "sheets") made smaller while the same class of failure remains: fewer workbooks per call,
    fewer content-index rows, fewer sheets, fewer rows per flow sheet (from the end: edges point backwards)"""
    def fails(h):
        bad, _ = lab.evaluate(h, seeds)
        return any(b[0] == key for b in bad)

    def attempt(h2):
        nonlocal hist, budget
        if budget <= 0:
            return False
        budget -= 1
        if fails(h2):
            hist = h2
            return True
        return False

    import copy
    # fewer workbooks per call
    for oi, o in enumerate(hist["ops"]):
        j = 0
        while len(hist["ops"][oi].get("wbs", [])) > 1 and j < len(hist["ops"][oi]["wbs"]):
            h2 = copy.deepcopy(hist)
            gone = h2["ops"][oi]["wbs"].pop(j)
            for o2 in h2["ops"]:
                if o2 is not h2["ops"][oi] and gone in o2.get("wbs", []) and len(o2["wbs"]) > 1:
                    o2["wbs"].remove(gone)
            if not attempt(h2):
                j += 1
    used = {k for o in hist["ops"] for k in o.get("wbs", []) + [o.get("wb"), o.get("file")] if k}
    hist = dict(hist, inputs={k: v for k, v in hist["inputs"].items() if k in used})
    for key_in, spec in list(hist["inputs"].items()):
        if spec["kind"] != "sheets" or "content_index" not in spec["sheets"]:
            continue
        # fewer index rows
        i = len(hist["inputs"][key_in]["sheets"]["content_index"][1]) - 1
        while i >= 0 and budget > 0:
            h2 = copy.deepcopy(hist)
            del h2["inputs"][key_in]["sheets"]["content_index"][1][i]
            attempt(h2)
            i -= 1
        # fewer sheets
        for nm in list(hist["inputs"][key_in]["sheets"]):
            if nm != "content_index" and budget > 0:
                h2 = copy.deepcopy(hist)
                del h2["inputs"][key_in]["sheets"][nm]
                attempt(h2)
        # shorter flow sheets
        for nm in list(hist["inputs"][key_in]["sheets"]):
            rows = hist["inputs"][key_in]["sheets"][nm][1]
            if nm != "content_index" and "type" in hist["inputs"][key_in]["sheets"][nm][0] and "row_id" in hist["inputs"][key_in]["sheets"][nm][0]:
                n = len(rows)
                while n > 1 and budget > 0:
                    n = n // 2
                    h2 = copy.deepcopy(hist)
                    h2["inputs"][key_in]["sheets"][nm][1] = h2["inputs"][key_in]["sheets"][nm][1][:n]
                    if not attempt(h2):
                        break
    return hist


def seeds_for(ctx):
    """PYTHONHASHSEED values every history runs under: fixed ones (0 = hash randomisation off) and "random" (what a
    user's process has by default: a seed nobody chose)"""
    if ctx.tier == "thorough":
        r = ctx.rng
        return [0, 1, 77, 4242] + sorted({r.randrange(5, 4000000000) for _ in range(27)}) + ["random"]
    return [0, 1, 77, "random"]


# ================================================================== run
def directed_histories():
    """hand-written interleavings the property names: same workbook under different filters,
    a failed run in between, render/to_rows interleaved"""
    wb = {"index": [{"draft": False, "tags": ["a", ""], "kind": ["create_flow", "sa", ""]},
                    {"draft": False, "tags": ["b", "p"], "kind": ["create_flow", "sb", "renamed"]}],
          "flows": [["sa", [["send", "11111111-1111-4111-8111-111111111111", ["lit", "hello"]], ["group", "", "G0", ""],
                            ["for", "x", ["one", "two"], [["send", "", ["var", "x"]], ["group", "", "G1", "22222222-2222-4222-8222-222222222222"]]],
                            ["enter", "", "renamed", ""], ["send", "", ["lit", "bye"]]]],
                    ["sb", [["send", "", ["lit", "good day"]], ["group", "", "G0", ""]]]]}
    bad = {"index": [{"draft": False, "tags": ["", ""], "kind": ["create_flow", "sa", ""]}],
           "flows": [["sa", [["send", "", ["lit", "hello"]], ["for", "x", ["one"], [["send", "", ["lit", "in"]], ["crit"]]]]]]}
    worse = {"index": [{"draft": False, "tags": ["", ""], "kind": ["create_flow", "sa", ""]}],
             "flows": [["sa", [["for", "x", ["one", "two"], [["for", "y", ["red"], [["bad"]]], ["send", "", ["lit", "z"]]]]]]]}
    inputs = {"in0": {"kind": "model", "wb": wb}, "in1": {"kind": "model", "wb": bad}, "in2": {"kind": "model", "wb": worse},
              "in3": {"kind": "repo", "path": EX1}, "in4": {"kind": "repo", "path": FIXTURE_JSON}}
    hs = [
        [{"op": "create_flows", "wbs": ["in0"], "tags": ["1", "a"], "out": False}, {"op": "create_flows", "wbs": ["in1"], "tags": None, "out": False},
         {"op": "create_flows", "wbs": ["in2"], "tags": [], "out": False}, {"op": "create_flows", "wbs": ["in0"], "tags": ["a"], "out": False},
         {"op": "save_data", "wbs": ["in0"], "tags": ["1", "b"], "data_models": None}, {"op": "create_flows", "wbs": ["in0"], "tags": None, "out": True}],
        [{"op": "parse_keep", "wbs": ["in0"]}, {"op": "to_rows", "target": 0, "flow": 0, "numbered": False}, {"op": "to_rows", "target": 0, "flow": 0, "numbered": False},
         {"op": "render", "target": 0}, {"op": "to_rows", "target": 0, "flow": 0, "numbered": False}, {"op": "create_flows", "wbs": ["in1"], "tags": None, "out": False},
         {"op": "render", "target": 0}, {"op": "to_rows", "target": 0, "flow": 1, "numbered": True}, {"op": "render", "target": 0}],
        [{"op": "create_flows", "wbs": ["in3"], "tags": ["1", "basic"], "out": False, "data_models": EX1_MODELS},
         {"op": "create_flows", "wbs": ["in3"], "tags": ["oops"], "out": False, "data_models": EX1_MODELS},
         {"op": "save_data", "wbs": ["in3"], "tags": None, "data_models": EX1_MODELS},
         {"op": "create_flows", "wbs": ["in3"], "tags": ["1", "advanced", "2", "type1"], "out": True, "data_models": EX1_MODELS},
         {"op": "create_flows", "wbs": ["in3"], "tags": None, "out": True, "data_models": EX1_MODELS}],
        [{"op": "load_keep", "file": "in4"}, {"op": "to_rows", "target": 0, "flow": 2, "numbered": False}, {"op": "render", "target": 0},
         {"op": "flows_to_sheets", "file": "in4", "strip": True, "numbered": False}, {"op": "to_rows", "target": 0, "flow": 2, "numbered": False},
         {"op": "render", "target": 0}, {"op": "flows_to_sheets", "file": "in4", "strip": False, "numbered": True},
         {"op": "flows_to_sheets", "file": "in4", "strip": False, "numbered": False}],
        [{"op": "convert", "wb": "in3"}, {"op": "create_flows", "wbs": ["in2"], "tags": None, "out": False}, {"op": "convert", "wb": "in0"},
         {"op": "convert", "wb": "in3"}],
    ]
    out = []
    for ops in hs:
        for i, o in enumerate(ops):
            o["id"] = i
        used = {k for o in ops for k in o.get("wbs", []) + [o.get("wb"), o.get("file")] if k}
        out.append({"ops": ops, "inputs": {k: v for k, v in inputs.items() if k in used}})
    return out


def run(ctx):
    v = ctx.v
    thorough = ctx.tier == "thorough"
    seeds = seeds_for(ctx)
    n_hist = (250 if thorough else 95) * ctx.scale
    gstats = ctx.stats.setdefault("histories", {})
    ostats = ctx.stats.setdefault("oracle", {"histories": 0, "calls": 0, "worker_processes": 0, "ok": 0, "critical": 0, "raise": 0, "skipped": 0,
                                             "state_readings": 0, "fresh_comparisons": 0, "seed_comparisons": 0})
    cstats = ctx.stats.setdefault("correspondence", {})
    gen = HistGen(ctx.rng, gstats, thorough)
    hists = directed_histories() + [gen.history() for _ in range(n_hist)]
    # the hash-order stream: list-rich inputs (repeated and near-duplicate entries in every list-valued feature)
    lstats = ctx.stats.setdefault("hash_order_stream", {"cases": 0, "features": {}, "shape": {}, "outcomes": {}})
    lg = c13_lists.ListGen(ctx.rng, lstats["features"])
    n_list = (60 if thorough else 20) * ctx.scale
    lists = [list_history(ctx.rng, lg, lstats["shape"]) for _ in range(n_list)]
    lstats["cases"] = len(lists)
    # the repeated-state stream: the host process re-seeds / restores / freezes what it controls and compiles again
    rstats = ctx.stats.setdefault("repeated_state_stream", {"cases": 0, "shape": {}, "outcomes": {}})
    n_rep = (48 if thorough else 16) * ctx.scale
    reps = [repeat_history(ctx.rng, gen, rstats["shape"]) for _ in range(n_rep)]
    rstats["cases"] = len(reps)
    lists = [x for pair in zip(reps, lists) for x in pair] + reps[len(lists):] + lists[len(reps):]
    # interleaved, so that a time limit or an early exit does not starve one stream
    step = max(1, len(hists) // max(1, len(lists)))
    merged = []
    for i, h in enumerate(hists):
        merged.append(h)
        if i % step == step - 1 and lists:
            merged.append(lists.pop(0))
    hists = merged + lists
    lab = Lab(seeds)
    nontrivial = set()
    inv_live = None
    try:
        # thorough: the hash-order stream runs under 12 of the 32 seeds (4 fixed, 7 drawn, "random"): ~10 % of the budget
        lseeds = seeds if not thorough else seeds[:4] + seeds[-8:]
        jobs = [lab.submit(h, lseeds if h.get("stream") == "lists" else None) for h in hists]
        for job in jobs:
            hist = job["hist"]
            runs, fresh = lab.collect(job)
            bad = judge(hist, runs, fresh, job["given"], None, job["twin_result"])
            ostats["histories"] += 1
            ostats["worker_processes"] += len(runs) + 1 + (job["twin_result"] is not None)
            base = runs[seeds[0]].get("results", [])
            for s in runs:
                for res in runs[s].get("results", []):
                    ostats["state_readings"] += 1
            for res in base:
                ostats["calls"] += 1
                ostats[res["status"]] = ostats.get(res["status"], 0) + 1
                if hist.get("stream") == "lists":
                    k2 = res["op"] + ":" + res["status"] + (":" + res["etype"] if res["status"] not in ("ok", "skipped") else "")
                    lstats["outcomes"][k2] = lstats["outcomes"].get(k2, 0) + 1
                if hist.get("stream") == "repeat":
                    k2 = res["op"] + ":" + res["status"] + (":" + res["etype"] if res["status"] not in ("ok", "skipped") else "")
                    rstats["outcomes"][k2] = rstats["outcomes"].get(k2, 0) + 1
            wk = "worker_seconds:" + hist.get("stream", "histories")
            ostats[wk] = round(ostats.get(wk, 0) + sum(r.get("wall", 0) for r in list(runs.values()) + [fresh]), 1)
            ostats["fresh_comparisons"] += 1
            ostats["seed_comparisons"] += (len(runs) - 1) * len(base)
            v.coverage["evaluations"] += len(base) * (len(runs) + (job["twin_result"] is not None)) + 1
            if job["twin_result"] is not None:
                ostats["twin_processes"] = ostats.get("twin_processes", 0) + 1
            if len({r["status"] for r in base}) > 1 and len({o["op"] for o in hist["ops"]}) > 1:
                nontrivial.add(json.dumps([[o["op"], r["status"]] for o, r in zip(hist["ops"], base)]))
            if inv_live is None and runs[seeds[0]].get("inventory") is not None:
                inv_live = runs[seeds[0]]["inventory"]
            if ctx.model and len(base) == len(hist["ops"]):
                correspond(ctx, hist, base, cstats)
            reported = set()
            for key, summary in bad:
                if key in reported:
                    continue
                reported.add(key)
                if key == RENDER_COMPLETES:
                    ostats["render_completes_ids_seen"] = ostats.get("render_completes_ids_seen", 0) + 1
                    if not REPORT_RENDER_COMPLETES:
                        continue
                small = hist
                if key != RENDER_COMPLETES and v.viol_by_key.get(key, 0) < 2 and not any(k["key"] == key for k in v.known):
                    small = shrink(lab, hist, key, seeds[:2] if key != "hashseed-dependent-output" else seeds)
                    if any(i["kind"] == "sheets" for i in small["inputs"].values()):
                        small = shrink_inputs(lab, small, key, seeds[:2] if key != "hashseed-dependent-output" else seeds)
                    again, _ = lab.evaluate(small, seeds)
                    summary = next((s for k2, s in again if k2 == key), summary)
                v.failing_input(key, summary, dict(fn="history", ops=small["ops"], inputs=small["inputs"], seeds=seeds, key=key))
    finally:
        lab.close()

    if ctx.model:
        tagmatcher_correspondence(ctx, cstats)
        flags = parse_sexp(ctx.model.ask("(113 3)"))
        cstats["inventory_okb"], cstats["handler_discipline_okb"], cstats["order_sources_okb"] = (flags + [None, None, None])[:3]
        if flags != [1, 1, 1]:
            ctx.disagree("regenerated inventory / handler discipline / order sources (sets, directory enumerations, id, hash, clocks, "
                         "random) no longer what the model covers", dict(order_sources_exposed=tables_order_sources()), flags, [1, 1, 1])
    if inv_live is not None:
        tab = tables_inventory()
        cstats["mutable_defaults_live"] = len(inv_live)
        if tab != inv_live:
            ctx.disagree("mutable-default inventory: translator's table vs the worker's own introspection", None, tab, inv_live)

    v.coverage["distinct_nontrivial"] = len(nontrivial)
    v.coverage["rule"] = (
        "a history = 2..8 (thorough 2..12) API calls in one process (create_flows / save_data_sheets / convert_to_json / flows_to_sheets / "
        "ContentIndexParser.parse_all kept / RapidProContainer.from_dict kept / render / to_rows) on generated model-vocabulary workbooks "
        "(~30% with an injected fault), generator-made rich workbooks, tests/input/example1 and tests/output/all_test_flows.json, with tag "
        "filters incl. the default argument and invalid ones; each history runs under every PYTHONHASHSEED of the tier plus one fresh "
        "process for its observed (last) call; an evaluation = one call in one process with its hidden-state reading, or one fresh-process "
        "comparison; non-trivial = distinct (call kind, outcome) sequence with at least two kinds and two outcomes.  HASH-ORDER stream "
        "(20 cases quick / 60 thorough, same processes and comparisons): 1..3 workbooks per call with sheets of equal names, every list-valued "
        "feature (choices literal and templated from data rows whose columns coincide, attachments, groups, webhook headers, airtime amounts, "
        "loop lists, tests and category names of a router, template arguments, index tags, repeated create_flow rows, data rows with equal / "
        "near-equal IDs, concat / sort with ties / filter, trigger keywords and groups, campaigns) filled from tiny pools so that repeated and "
        "near-duplicate entries are the rule (distribution: stats.hash_order_stream.features); calls: create_flows, save_data_sheets, "
        "convert_to_json, parse_all + to_rows, flows_to_sheets and from_dict + render of the compiled document thickened with repeated entries, "
        "and the first workbook as a one-file JSON workbook with its sheets in two orders.  REPEATED-STATE stream (16 cases quick / 48 thorough): "
        "[host operations; compilation] two or three times in one process, the host operations (random.seed(k), random.setstate(state at start), "
        "clocks frozen, os.getpid fixed) bringing the process into the same state each time (a quarter re-seed with another value), the compilation "
        "create_flows or parse_all + render of the same or another workbook, other calls in between; these histories (and every ordinary history "
        "that contains a host operation: ~8 % of the calls) run once more in a twin process started the same way; the fresh process replays the "
        "host operations before the observed call; invented uuids must be disjoint between any two calls/containers and any two processes "
        "(distribution: stats.repeated_state_stream)")
    v.coverage["samples"] = [dict(ops=[(o["op"], o.get("tags"), o.get("target")) for o in h["ops"]]) for h in (hists[0], hists[1], hists[len(hists) // 2], hists[-1])]
    v.coverage["samples"].append(dict(stream="lists", ops=[(o["op"], o.get("fmt", "csv"), o.get("tags")) for o in next((h for h in hists if h.get("stream") == "lists"), hists[0])["ops"]]))
    v.coverage["samples"].append(dict(stream="repeat", ops=[(o["op"], o.get("k", o.get("t", o.get("pid"))), o.get("wbs"), o.get("target")) for o in
                                                            next((h for h in hists if h.get("stream") == "repeat"), hists[0])["ops"]]))
    v.coverage["hashseeds"] = seeds
    v.assumptions += [
        "uuid4() never returns a value it returned before (the only thing the model and the oracle use of it)",
        "model vocabulary (correspondence only): given node ids are unique per sheet and outside loops (rows sharing a _nodeId are merged: C01); "
        "a loop body ends in a send_message/add_to_group row, start_new_flow is followed by a 'completed' edge, loop bodies are non-empty; "
        "other workbooks (routers, webhooks, templates, data sheets, campaigns) go through the history oracle only",
        "hidden state is read inside the rpft package (functions, module globals, class attributes, pydantic field defaults, logging-context "
        "stacks) plus cwd/environ; state kept inside third-party libraries is not read",
        "render() is validate()+serialise: after the FIRST render of a container to_rows shows the identifiers validate() assigned to "
        "references that had none; this is reported under its own finding class and is otherwise not an alarm",
        "JSON results are compared as text in the order produced (stricter than unordered maps); the order of the sheets object of "
        "convert_to_json follows the directory enumeration order of the input folder, which every comparison here keeps fixed",
    ]


# ================================================================== replay
def replay(rep):
    r = rep["replay"]
    if r.get("fn") != "history":
        return True
    lab = Lab(r.get("seeds") or [0, 1])
    try:
        bad, _ = lab.evaluate({"ops": r["ops"], "inputs": r["inputs"]})
    finally:
        lab.close()
    for key, summary in bad:
        print("   ", key, "-", summary[:600])
    return not any(key == r.get("key") for key, _ in bad) if r.get("key") else not bad
