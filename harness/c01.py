"""C01 — every compiled flow is referentially closed.  `closedb` (Flow/Closed.v, with the
proved specification closedb G d = true <-> Closed G d) is run on every document the
implementation produces from generated workbooks; (h) plain JSON and (i) absence of the
hard-exit sentinel are checked on the serialised text."""
import json
import re

import comp_corr
import flowutil
import sheetgen
from common import enc_str, enc_list, parse_sexp, dec_str, run_cli_mode

LEVEL = "translation_validation"
CLAUSES = {1: "node identifiers are not unique", 2: "a node/exit/category/case clause fails (b-f)",
           3: "an invented identifier is used for two objects", 4: "an invented identifier is not a well-formed UUID4"}
CTX = {"cx": "CXVAL", "cy": "other"}


def given_ids(sheets):
    g = set()
    for name, (headers, rows) in sheets.items():
        for r in rows:
            for v in r.values():
                v = str(v)
                g.add(v)
                for part in v.replace("|", ";").split(";"):
                    g.add(part.strip())
    return g


def dup_given_node_ids(sheets):
    seen, dup = {}, set()
    for name, (headers, rows) in sheets.items():
        for r in rows:
            nid = r.get("_nodeId", "")
            if nid:
                if nid in seen:
                    dup.add(nid)
                seen[nid] = True
    return dup


DUP_MSG = "is used by more than one node of flow"


def directed_dup_cases():
    """Sheets in which one GIVEN `_nodeId` is written on several rows / reaches several nodes, with what the
    property allows for each: 'one-node' = the rows are legitimately merged into ONE node (or end up in different
    flows), the workbook compiles and is closed; 'two-nodes' = the rows cannot be one node, so the only
    outcomes compatible with the property are 'does not compile' (what the code does since the repair of the
    finding duplicate-given-node-id) or distinct identifiers - never a compiled flow with a repeated id.
    They go through `judge` like every generated workbook; the outcome is recorded in the statistics."""
    E, S = sheetgen.edge, "start"
    N = "11111111-1111-4111-8111-111111111111"
    msg = lambda rid, frm, text, **kw: dict({"type": "send_message", "row_id": rid, "edges": [E(frm=frm)], "arg": text}, **kw)
    wait = lambda rid, frm, **kw: dict({"type": "wait_for_response", "row_id": rid, "edges": [E(frm=frm)], "arg": ""}, **kw)
    blk = [msg("b1", S, "in block {{w}}", node_uuid=N)]
    bdata = (["ID", "w"], [dict(ID="d1", w="one"), dict(ID="d2", w="two")])

    def with_block(flows):
        sheets = {"content_index": (flowutil.INDEX_HEADERS,
                                    [dict(type="data_sheet", sheet_name="bdata"), dict(type="template_definition", sheet_name="blk")]
                                    + [dict(type="create_flow", sheet_name=n) for n in flows]),
                  "bdata": bdata, "blk": sheetgen.render_sheet(blk, None, "short")}
        for n, rows in flows.items():
            sheets[n] = sheetgen.render_sheet(rows, None, "short")
        return sheets

    ins = lambda rid, frm, row="d1": {"type": "insert_as_block", "row_id": rid, "edges": [E(frm=frm)], "arg": "blk",
                                      "data_sheet": "bdata", "data_row_id": row}
    one = lambda rows: flowutil.single_flow_workbook("f1", *sheetgen.render_sheet(rows, None, "short"))
    return [
        ("two-nodes", "two router rows", one([
            {"type": "split_random", "row_id": "1", "edges": [E(frm=S)], "arg": "", "node_uuid": N}, wait("2", "1", node_uuid=N)])),
        ("two-nodes", "message row then router row", one([msg("1", S, "hi", node_uuid=N), wait("2", "1", node_uuid=N)])),
        ("two-nodes", "router row inside a loop", one([
            {"type": "begin_for", "row_id": "L", "edges": [E(frm=S)], "arg": ["a", "b"], "loop_variable": ["x"]},
            wait("w", "", node_uuid=N), {"type": "end_for", "row_id": "", "edges": [E()]}])),
        ("two-nodes", "template with a node id inserted twice into one flow", with_block(
            {"f1": [msg("1", S, "hi"), ins("i1", "1"), ins("i2", "i1", "d2")]})),
        ("one-node", "two message rows merged through the node id", one([msg("1", S, "hi", node_uuid=N), msg("2", "1", "again", node_uuid=N)])),
        ("one-node", "three rows merged through a node name", one([msg("1", S, "a", node_name="nn"), msg("2", "1", "b", node_name="nn"),
                                                                   msg("3", "2", "c", node_name="nn")])),
        ("one-node", "message row in a loop, merged over the iterations", one([
            {"type": "begin_for", "row_id": "L", "edges": [E(frm=S)], "arg": ["a", "b", "c"], "loop_variable": ["x"]},
            msg("", "", "say {{x}}", node_uuid=N), {"type": "end_for", "row_id": "", "edges": [E()]}])),
        ("one-node", "template with a node id inserted once into each of two flows", with_block(
            {"f1": [msg("1", S, "hi"), ins("i1", "1")], "f2": [msg("1", S, "ho"), ins("i1", "1", "d2")]})),
    ]


def impl_validation(uuid_lists):
    """FlowParser._compile_flow on flows of ONE container, each given as the list of its node uuids (basic nodes
    in row node groups).  Per flow: None = passes, else the uuid the critical error names ('?' when the message
    quotes none)."""
    import tablib
    from rpft.parsers.creation.flowparser import FlowParser, RowNodeGroup
    from rpft.rapidpro.models.containers import RapidProContainer
    from rpft.rapidpro.models.nodes import BasicNode

    container = RapidProContainer()
    out = []
    for i, us in enumerate(uuid_lists):
        fp = FlowParser(container, f"v{i}", table=tablib.Dataset(headers=["row_id", "type"]))
        for u in us:
            node = BasicNode(uuid=u)
            node.update_default_exit(None)
            fp.current_node_group().add_node_group(RowNodeGroup(node, "send_message"))
        r = run_cli_mode(fp._compile_flow)
        if r[0] == "ok":
            if [n.uuid for n in r[1].nodes] != list(us):
                out.append("nodes changed")
            else:
                container.add_flow(r[1])
                out.append(None)
        else:
            q = re.findall(r'"([^"]*)"', str(r[-1]))
            out.append(q[0] if r[1] == "critical" and q else "?" if r[1] == "critical" else "crash " + str(r[1:]))
    return out


def validation_correspondence(ctx):
    """model (Flow/NodeIdCheck.v: compile_flow_validation, following the probed compile_checks_node_uuids) vs
    FlowParser._compile_flow on lists of node uuids over a small pool (so that repetitions are frequent), one
    to three flows per container (a repeated uuid ACROSS flows is not an error)"""
    m, rng = ctx.model, ctx.rng
    if not m:
        return
    pool = [sheetgen.new_uuid(rng) for _ in range(5)]
    cases = [[[]], [[pool[0]]], [[pool[0], pool[0]]], [[pool[0], pool[1]], [pool[0], pool[1]]], [[pool[0], pool[1], pool[0]], [pool[1]]]]
    for _ in range(150 * ctx.scale):
        cases.append([[rng.choice(pool) for _ in range(rng.choice([0, 1, 2, 3, 4, 6]))] for _ in range(rng.choice([1, 1, 2, 3]))])
    flat = [us for c in cases for us in c]
    outs = m.ask_many(["(101 1 %s)" % enc_list(enc_str(u) for u in us) for us in flat])
    k, passed, rejected = 0, 0, 0
    for c in cases:
        im = impl_validation(c)
        for us, r in zip(c, im):
            mo = parse_sexp(outs[k])
            mo = dec_str(mo[0]) if mo else None
            k += 1
            ctx.v.coverage["evaluations"] += 1
            passed += r is None
            rejected += r is not None
            if mo != r and not (r == "?" and mo is not None):
                ctx.disagree("_compile_flow node-uuid validation", repr(us), repr(mo), repr(r))
    ctx.stats["validation_correspondence"] = dict(flows=k, passed=passed, rejected=rejected,
                                                  model_has_validation=m.ask("(101 2)") == "1")


def judge(ctx, sheets, nontrivial, samples, label, outcome=None):
    v, m = ctx.v, ctx.model
    v.coverage["evaluations"] += 1
    r = flowutil.compile_workbook(sheets)
    if outcome is not None:
        outcome.append("compiles" if r[0] == "ok" else
                       "rejected: duplicate node id" if DUP_MSG in str(r[-1]) else "does not compile: " + str(r[-1])[:80])
    if r[0] != "ok":
        ctx.count("does_not_compile")
        if DUP_MSG in str(r[-1]):
            ctx.count("rejected_duplicate_node_id")
        return
    rep = dict(sheets={k: dict(headers=h, rows=[[c.get(x, "") for x in h] for c in rows]) for k, (h, rows) in sheets.items()})
    judge_doc(ctx, r[1], given_ids(sheets), rep, nontrivial, samples, label,
              {str(r.get("_nodeId", "")) for _, (_, rws) in sheets.items() for r in rws} - {""})


def judge_doc(ctx, doc, g, rep, nontrivial, samples, label, node_ids_given):
    """the property's oracle on ONE compiled document: (h) plain JSON, (i) no sentinel, (a)-(g) by closedb"""
    v, m = ctx.v, ctx.model
    ctx.count("compiled")
    # (h) plain JSON, (i) no internal marker
    try:
        text = json.dumps(doc)
        if json.loads(text) != doc:
            raise ValueError("does not survive json round trip")
    except Exception as e:
        v.failing_input("not-plain-json", f"compiled document is not plain JSON: {e}", rep)
        return
    if "HARD_EXIT" in text:
        v.failing_input("sentinel-leaks", "the hard-exit sentinel appears in the compiled document", rep)
        return
    ids = [s for s in flowutil.strings_in(doc) if s in g]
    if m:
        res = m.ask("(6 1 (%s) %s)" % (" ".join(enc_str(s) for s in ids), flowutil.doc_sexp(doc)))
        ok, diag = res.startswith("(1"), int(res.strip("()").split()[1]) if res.startswith("(") else -1
    else:
        ok, diag = py_closed(doc, g)
    if ok:
        # (g) at document level, referenced objects included: an identifier that is not given in the input stands for ONE
        # object only (a flow and a group of the same name are two objects; one name has one identifier: that is C06)
        clash = invented_id_reuse(doc, g)
        if clash:
            u, objs = clash
            v.failing_input("invented-id-reused", f"the invented identifier {u} is used for two different objects: {objs[0]} and {objs[1]}", rep)
            return
    if ok:
        ctx.count("closed")
        nn = sum(len(f["nodes"]) for f in doc["flows"])
        if nn >= 3 and any("router" in n for f in doc["flows"] for n in f["nodes"]):
            nontrivial.add(json.dumps([[len(n["exits"]), len(n.get("actions", []))] for f in doc["flows"] for n in f["nodes"]]))
        if len(samples) < 2:
            samples.append(dict(kind=label, first_sheet=list(rep["sheets"].values())[-1]))
        return
    key = "clause-%d" % diag
    if diag == 1:
        # which node identifiers are repeated?  The listed finding is about a GIVEN `_nodeId` ending up on
        # two nodes (written on two rows, or on a row of a template that is instantiated twice); a repeated
        # INVENTED identifier is a different defect and is never covered by it
        rep_ids = set()
        for f in doc["flows"]:
            seen = set()
            for nd in f["nodes"]:
                if nd["uuid"] in seen:
                    rep_ids.add(nd["uuid"])
                seen.add(nd["uuid"])
        if rep_ids and rep_ids <= node_ids_given:
            key = "duplicate-given-node-id"
    v.failing_input(key, "compiled document is not closed: " + CLAUSES.get(diag, str(diag)), rep)


def invented_id_reuse(doc, given):
    """-> (uuid, [object, object]) when an identifier outside `given` denotes two different objects of the document
    (definitions by position; groups and flows by kind and name), else None"""
    objs = {}

    def put(u, obj):
        if isinstance(u, str) and u and u not in given:
            objs.setdefault(u, [])
            if obj not in objs[u]:
                objs[u].append(obj)

    for fi, f in enumerate(doc.get("flows", [])):
        put(f.get("uuid"), ("flow", f.get("name")))
        for ni, n in enumerate(f.get("nodes", [])):
            put(n.get("uuid"), ("node", fi, ni))
            for ei, e in enumerate(n.get("exits", [])):
                put(e.get("uuid"), ("exit", fi, ni, ei))
            for ai, a in enumerate(n.get("actions", []) or []):
                put(a.get("uuid"), ("action", fi, ni, ai))
                for gr in a.get("groups", []) or []:
                    put(gr.get("uuid"), ("group", gr.get("name")))
                if isinstance(a.get("flow"), dict):
                    put(a["flow"].get("uuid"), ("flow", a["flow"].get("name")))
            r = n.get("router") or {}
            for ci, c in enumerate(r.get("categories", []) or []):
                put(c.get("uuid"), ("category", fi, ni, ci))
            for ki, k in enumerate(r.get("cases", []) or []):
                put(k.get("uuid"), ("case", fi, ni, ki))
                if k.get("type") == "has_group" and len(k.get("arguments", [])) > 1:
                    put(k["arguments"][0], ("group", k["arguments"][1]))
    for gr in doc.get("groups", []) or []:
        put(gr.get("uuid"), ("group", gr.get("name")))
    for c in doc.get("campaigns", []) or []:
        put(c.get("uuid"), ("campaign", c.get("name")))
        if isinstance(c.get("group"), dict):
            put(c["group"].get("uuid"), ("group", c["group"].get("name")))
        for ei, e in enumerate(c.get("events", []) or []):
            put(e.get("uuid"), ("event", c.get("name"), ei))
            if isinstance(e.get("flow"), dict):
                put(e["flow"].get("uuid"), ("flow", e["flow"].get("name")))
    for t in doc.get("triggers", []) or []:
        if isinstance(t.get("flow"), dict):
            put(t["flow"].get("uuid"), ("flow", t["flow"].get("name")))
        for gr in (t.get("groups", []) or []) + (t.get("exclude_groups", []) or []):
            put(gr.get("uuid"), ("group", gr.get("name")))
    for u, o in objs.items():
        if len(o) > 1:
            return u, o
    return None


def py_closed(doc, given):
    """fallback when the model does not build: the same clauses, in Python (diagnostic)"""
    seen = []
    for f in doc["flows"]:
        nids = [n["uuid"] for n in f["nodes"]]
        if len(set(nids)) != len(nids):
            return False, 1
        for n in f["nodes"]:
            for e in n["exits"]:
                if e.get("destination_uuid") is not None and e["destination_uuid"] not in nids:
                    return False, 2
            r = n.get("router")
            if r is None:
                if len(n["exits"]) != 1:
                    return False, 2
            else:
                ce = [c["exit_uuid"] for c in r["categories"]]
                ex = [e["uuid"] for e in n["exits"]]
                cu = [c["uuid"] for c in r["categories"]]
                if sorted(ce) != sorted(ex) or len(set(ce)) != len(ce):
                    return False, 2
                if any(k["category_uuid"] not in cu for k in r.get("cases", [])):
                    return False, 2
                if r["type"] == "switch" and r["default_category_uuid"] not in cu:
                    return False, 2
                if "timeout" in (r.get("wait") or {}) and r["wait"]["timeout"]["category_uuid"] not in cu:
                    return False, 2
                seen += cu + [k["uuid"] for k in r.get("cases", [])]
            seen += [n["uuid"]] + [a["uuid"] for a in n.get("actions", [])] + [e["uuid"] for e in n["exits"]]
        seen.append(f["uuid"])
    inv = [s for s in seen if s not in given]
    if len(set(inv)) != len(inv):
        return False, 3
    if any(not flowutil.UUID4_RE.match(s) for s in inv):
        return False, 4
    return True, 0


def run(ctx):
    thorough = ctx.tier == "thorough"
    n = (15000 if thorough else 600) * ctx.scale
    nontrivial, samples = set(), []
    # directed: one given node id on several rows (legitimately merged / impossible to merge)
    directed = {}
    for expect, what, sheets in directed_dup_cases():
        out = []
        judge(ctx, sheets, nontrivial, samples, "directed_dup_node_id", out)
        directed[f"{what} [{expect}]"] = out[0]
    ctx.stats["directed_duplicate_node_id"] = directed
    validation_correspondence(ctx)
    # the compiler model (Comp/Compile.v, the subject of the C01_compile_* theorems) against create_flows; every document
    # the implementation compiles on the way is judged by closedb as well
    docs = []
    comp_corr.run(ctx, (8000 if thorough else 450) * ctx.scale, doc_sink=docs)
    for doc, rows, headers, cells in docs:
        ctx.v.coverage["evaluations"] += 1
        rep = dict(sheets={"content_index": dict(headers=flowutil.INDEX_HEADERS, rows=[["create_flow", "f1"] + [""] * (len(flowutil.INDEX_HEADERS) - 2)]),
                           "f1": dict(headers=headers, rows=cells)})
        judge_doc(ctx, doc, flowutil.strings_in(rows) | given_ids({"f1": (headers, [dict(zip(headers, c)) for c in cells])}), rep, nontrivial, samples,
                  "compiler_model_sheet", {str(r.get("node_uuid") or "") for r in rows} - {""})
    for i in range(n):
        rng = ctx.rng
        x = rng.random()
        if x < 0.45:
            rows, g = sheetgen.gen_core_sheet(rng, rng.choice([2, 4, 8, 14, 25]), wf=rng.random() < 0.6, special_text=rng.random() < 0.5)
            label = "core"
        elif x < 0.55:
            rows, g = sheetgen.gen_merge_sheet(rng, rng.choice([2, 5, 9]))
            label = "merge"
        else:
            g = sheetgen.SugarGen(rng, wf=rng.random() < 0.7, special_text=rng.random() < 0.4, ctxvars=tuple(CTX))
            rows = sheetgen.flatten_sugared(g.gen_tree(rng.choice([3, 5, 8, 12])))
            label = "sugared"
        if not rows:
            continue
        extra_sheets, extra_index_pre = None, None
        if rng.random() < 0.18:
            # inserted blocks: ONE template inserted several times (same or different data row) in one
            # flow and in a second flow, each insertion the last row on its path
            label += "+insert"
            brows, _ = sheetgen.gen_core_sheet(rng, rng.choice([1, 2, 3, 4]), wf=True, special_text=False)
            if brows:
                for br in brows:
                    if br["type"] == "send_message" and isinstance(br.get("arg"), str):
                        br["arg"] = br["arg"] + " {{w}}"
                bh, bc = sheetgen.render_sheet(brows, rng)
                extra_sheets = {"blk": (bh, bc), "bdata": (["ID", "w"], [dict(ID="d1", w="one"), dict(ID="d2", w="two")])}
                extra_index_pre = [dict(type="data_sheet", sheet_name="bdata"), dict(type="template_definition", sheet_name="blk")]
                srcs = [r["row_id"] for r in rows if r["type"] in sheetgen.NODE_TYPES and r.get("row_id")]
                for k in range(rng.choice([2, 2, 3])):
                    frm = rng.choice(srcs) if srcs and rng.random() < 0.8 else ""
                    rows.append({"type": "insert_as_block", "row_id": f"ib{k}", "edges": [sheetgen.edge(frm=frm)], "arg": "blk",
                                 "data_sheet": "bdata", "data_row_id": rng.choice(["d1", "d1", "d2"])})
        if rng.random() < 0.06:
            # the same given node id on two rows that cannot be merged (two different nodes)
            cand = [r for r in rows if r["type"] in sheetgen.NODE_TYPES]
            if len(cand) >= 2:
                a, b = rng.sample(cand, 2)
                a["node_uuid"] = b["node_uuid"] = sheetgen.new_uuid(rng)
                label += "+dup_node_id"
        headers, cells = sheetgen.render_sheet(rows, rng)
        ctx.count("kind_" + label)
        if extra_sheets is not None:
            sheets = flowutil.single_flow_workbook("f1", headers, cells, extra_sheets=extra_sheets)
            sheets["content_index"] = (sheets["content_index"][0], extra_index_pre + sheets["content_index"][1])
            if rng.random() < 0.5:
                # the same block, same data row, closes a second flow too
                h2, c2 = sheetgen.render_sheet(
                    [{"type": "send_message", "row_id": "s1", "edges": [sheetgen.edge(frm="start")], "arg": "second flow"},
                     {"type": "insert_as_block", "row_id": "ib", "edges": [sheetgen.edge(frm="s1")], "arg": "blk",
                      "data_sheet": "bdata", "data_row_id": "d1"}], rng)
                sheets["f2"] = (h2, c2)
                sheets["content_index"][1].append(dict(type="create_flow", sheet_name="f2"))
        elif rng.random() < 0.5:
            sheets = flowutil.template_workbook("f1", headers, cells, CTX)
        else:
            sheets = flowutil.single_flow_workbook("f1", headers, cells)
            if rng.random() < 0.3:
                # a second flow in the same workbook, referring to the same groups
                rows2, _ = sheetgen.gen_core_sheet(rng, rng.choice([2, 5]), wf=True, special_text=False)
                h2, c2 = sheetgen.render_sheet(rows2, rng)
                sheets["f2"] = (h2, c2)
                sheets["content_index"][1].append(dict(type="create_flow", sheet_name="f2"))
        judge(ctx, sheets, nontrivial, samples, label)
    ctx.v.coverage["programs"] = ctx.stats.get("closed", 0)
    ctx.v.coverage["disagreements_checked"] = sum(ctx.v.viol_by_key.values()) + sum(ctx.v.known_hits.values())
    ctx.v.coverage["distinct_nontrivial"] = len(nontrivial)
    ctx.v.coverage["samples"] = samples
    ctx.v.coverage["rule"] = (
        "generated workbooks: core sheets (60% well-formed, 40% with repeated defaults/duplicate tests/re-targeting), sheets with "
        "merged rows, sugared sheets (loops, blocks, include_if, nesting), go_to cycles, joins, given and blank node ids, group "
        "uuids, one or two flows per workbook, plain and template instantiation, 6% with one given node id forced on two rows, plus 8 "
        "directed sheets with one given node id on several rows (merged into one node / impossible to merge: two router rows, "
        "a router row in a loop, a template inserted twice); every compiled document judged by closedb. "
        "non-trivial = distinct (exits, actions) shape of a document with >= 3 nodes and a router")
    ctx.v.assumptions += [
        "an identifier of the output is GIVEN when the string occurs in a cell of the input workbook, otherwise INVENTED",
        "uuid4() itself does not collide (closedb checks that no code path re-uses one)",
    ]


def replay(rep):
    r = rep["replay"]
    sheets = {k: (s["headers"], [dict(zip(s["headers"], row)) for row in s["rows"]]) for k, s in r["sheets"].items()}
    out = flowutil.compile_workbook(sheets)
    if out[0] != "ok":
        return True
    ok, _ = py_closed(out[1], given_ids(sheets))
    return ok and "HARD_EXIT" not in json.dumps(out[1])
