"""C03 — correspondence of the block-mechanics model (coq/theories/Comp/Blocks.v, wire engine 8)
with FlowParser._parse_block + SheetParser on generated RAW sheets of the model's sub-language:
send_message rows, begin_for (loop and index variable, `a;b` cells, {@ [] @}, {@ name @} of a
context list), begin_block, include_if (TRUE / FALSE / {{name}}), row ids and texts made of
literals and {{name}} references, include_if also a comparison {{ name == "word" }} / {{ name != "word" }}, a context of
strings, lists and ints (the loop index is an int: it renders as its decimal but never equals a word).  Loop variables are drawn from
a small pool that overlaps the context keys and the variables of enclosing loops, so shadowing
(by the loop variable, by the index variable, by an inner loop) and loops over nothing are
ordinary cases.

Compared: the event stream FlowParser acts on (row instantiated / row handed to _parse_row with
its rendered id and text / _parse_block entered with block type and omit flag / NodeGroup pushed /
group registered under the head's id) and the templating context that is left when the sheet has
been read; the model's DESUGARING of the sheet (Comp/Desugar.v, wire engine 103 — the function the
unrolling theorem C03_desugar_equiv is about) against the reference desugaring written here from
Appendix B (reference_desugar) — plus the ORACLES the property states, evaluated on the
implementation alone:
  * lexical scope: the context after the sheet is exactly the context before it,
  * nothing inside an excluded block or a loop over nothing is instantiated,
  * the rows handed on are those of the unrolled, lexically scoped reading,
  * the theorem's own statement: the desugared sheet is accepted from the EMPTY context and
    FlowParser is handed the same rows and pushes / registers the same groups in the same order."""
import csv
import io

from common import dec_str, enc_str, parse_sexp, run_cli_mode

HEADER = ["row_id", "type", "from", "include_if", "loop_variable", "message_text"]
KIND = {"for": (0, "begin_for"), "endfor": (1, "end_for"), "block": (2, "begin_block"), "endblock": (3, "end_block"),
        "plain": (4, "send_message")}
ERR = {1: "unterminated", 2: "wrong-terminator", 3: "no-loop-variable", 4: "KeyError", 5: "undefined", 6: "not-a-list", 7: "FUEL"}
VARPOOL = ["x", "y", "i", "cx", "cy"]
CTXPOOL = ["cx", "cy", "l0", "l2", "x", "inc", "n7"]
CMPWORDS = ["a", "b", "c", "p", "CXVAL", "other", "0", "1", "7"]


# ------------------------------------------------------------------ sub-language -> wire / cells
def segs_cell(segs):
    return "".join(s if k == "lit" else "{{" + s + "}}" for k, s in segs)


def enc_segs(segs):
    return "(" + " ".join(f"({0 if k == 'lit' else 1} {enc_str(s)})" for k, s in segs) + ")"


def enc_raw(r):
    inc = r["inc"]
    e_inc = ("(0)" if inc == "true" else "(1)" if inc == "false" else f"(2 {enc_str(inc[1])})" if inc[0] == "ref"
             else f"(3 {enc_str(inc[1])} {1 if inc[2] else 0} {enc_str(inc[3])})")
    it = r.get("iter", ("lit", []))
    e_it = f"(0 ({' '.join(enc_str(e) for e in it[1])}))" if it[0] == "lit" else f"(1 {enc_str(it[1])})"
    return (f"({KIND[r['kind']][0]} {e_inc} {enc_segs(r.get('id', []))} {enc_segs(r.get('text', []))} "
            f"({' '.join(enc_str(v) for v in r.get('vars', []))}) {e_it})")


def enc_ctx(ctx):
    out = []
    for k, v in ctx.items():
        ev = f"(1 ({' '.join(enc_str(e) for e in v)}))" if isinstance(v, list) else f"(2 {v})" if isinstance(v, int) else f"(0 {enc_str(v)})"
        out.append(f"({enc_str(k)} {ev})")
    return "(" + " ".join(out) + ")"


def sheet_csv(rows, inc_spelling):
    buf = io.StringIO()
    w = csv.writer(buf, lineterminator="\n")
    w.writerow(HEADER)
    for i, r in enumerate(rows):
        inc = r["inc"]
        c_inc = (inc_spelling[i] if inc in ("true", "false") else "{{" + inc[1] + "}}" if inc[0] == "ref"
                 else "{{ %s %s \"%s\" }}" % (inc[1], "==" if inc[2] else "!=", inc[3]))
        it = r.get("iter")
        if r["kind"] == "for":
            main = ";".join(it[1]) if (it[0] == "lit" and it[1]) else "{@ [] @}" if it[0] == "lit" else "{@ " + it[1] + " @}"
        else:
            main = segs_cell(r.get("text", []))
        w.writerow([segs_cell(r.get("id", [])), KIND[r["kind"]][1], "start" if i == 0 else "", c_inc,
                    ";".join(r.get("vars", [])), main])
    return buf.getvalue()


# ------------------------------------------------------------------ generator
def gen_ctx(rng):
    ctx = {}
    for k in rng.sample(CTXPOOL, rng.choice([1, 2, 3, 4])):
        if k.startswith("l"):
            ctx[k] = [] if k == "l0" and rng.random() < 0.8 else [rng.choice(["p", "q", "r"]) for _ in range(rng.choice([0, 1, 2]))]
        elif k == "inc":
            ctx[k] = rng.choice(["false", "FALSE", " False ", "yes", "TRUE"])
        elif k == "n7":
            ctx[k] = 7                     # an int: renders as 7, never equals the word "7"
        else:
            ctx[k] = rng.choice(["CXVAL", "other", "v"])
    return ctx


def gen_rows(rng, ctx):
    rows = []

    def names(bound):
        return list(dict.fromkeys(list(ctx) + bound))

    def segs(bound, lead):
        out = [("lit", lead)]
        # (cells are stripped by the cell parser: no blank at either end of a generated cell)
        pool = [n for n in names(bound) if (not isinstance(ctx.get(n), list) or n in bound) and n != "inc"]
        for _ in range(rng.choice([0, 1, 1, 2])):
            r = rng.random()
            if r < 0.75 and pool:
                out.append(("ref", rng.choice(pool)))
            elif r < 0.79:
                out.append(("ref", rng.choice(["ghost", "x", "y", "i"])))   # possibly undefined here
            else:
                out.append(("lit", rng.choice(["-", ".", "t"])))
        return out

    def inc(bound):
        r = rng.random()
        if r < 0.66:
            return "true"
        if r < 0.80:
            return "false"
        if r < 0.90:
            return ("ref", rng.choice(["inc"] + [n for n in names(bound) if not isinstance(ctx.get(n), list)][:3]))
        # a comparison {{ v == "word" }} / {{ v != "word" }}: mostly of a loop variable in force (so that the row / block is
        # present in some iterations only), also of an index variable (an int), a context entry (str, list, int), an unknown name
        pool = [n for n in bound[-2:] * 3 + [n for n in names(bound) if n != "inc"] if n]
        var = rng.choice(pool) if pool and rng.random() < 0.93 else "ghost"
        return ("cmp", var, rng.random() < 0.6, rng.choice(CMPWORDS))

    def block(depth, bound, n_items):
        for _ in range(n_items):
            r = rng.random()
            if depth > 0 and r < 0.3:
                var = rng.choice(VARPOOL + bound[-1:])
                vs = [var]
                if rng.random() < 0.4:
                    vs.append(rng.choice(VARPOOL))
                k = rng.random()
                if k < 0.55:
                    it = ("lit", [rng.choice(["a", "b", "c"]) for _ in range(rng.choice([1, 2, 2, 3]))])
                elif k < 0.7:
                    it = ("lit", [])
                else:
                    lists = [n for n in ctx if isinstance(ctx[n], list)]
                    it = ("ref", rng.choice(lists)) if lists else ("lit", [])
                    if rng.random() < 0.08:
                        it = ("ref", rng.choice([n for n in ctx if n != "inc"] or ["ghost"]))   # possibly a string
                if rng.random() < 0.03:
                    vs = rng.choice([[], [""]])
                rows.append(dict(kind="for", inc=inc(bound), id=segs(bound, "L") if rng.random() < 0.5 else [], vars=vs, iter=it))
                block(depth - 1, bound + vs, rng.choice([1, 1, 2]))
                if rng.random() > 0.03:
                    rows.append(dict(kind="endfor", inc="true"))
            elif depth > 0 and r < 0.42:
                rows.append(dict(kind="block", inc=inc(bound), id=segs(bound, "B") if rng.random() < 0.5 else []))
                block(depth - 1, bound, rng.choice([0, 1, 2]))
                rows.append(dict(kind="endblock" if rng.random() > 0.04 else "endfor", inc="true"))
            else:
                rows.append(dict(kind="plain", inc=inc(bound), id=segs(bound, "r") if rng.random() < 0.3 else [],
                                 text=segs(bound, rng.choice(["m:", "t:", "say-"]))))

    rows.append(dict(kind="plain", inc="true", id=[("lit", "first")], text=[("lit", "hi")]))
    block(3, [], rng.choice([2, 3, 4]))
    rows.append(dict(kind="plain", inc="true", id=[], text=segs([], "tail:")))
    return rows


# ------------------------------------------------------------------ the two sides
def model_run(m, rows, ctx):
    o = parse_sexp(m.ask(f"(8 1 0 6000 ({' '.join(enc_raw(r) for r in rows)}) {enc_ctx(ctx)})"))
    if o in ([999998], [999997]):
        return None
    if o[0] == 1:
        return ("err", ERR.get(o[1], str(o[1])))
    events = []
    for e in o[1]:
        if e[0] == 0:
            events.append(("inst", e[1]))
        elif e[0] == 1:
            events.append(("row", dec_str(e[1]), dec_str(e[2])))
        elif e[0] == 2:
            events.append(("enter", {0: "root_block", 1: "for", 2: "block"}[e[1]], bool(e[2])))
        elif e[0] == 4:
            events.append(("push",))
        else:
            events.append(("end", dec_str(e[1])))
    final = [(dec_str(k), [dec_str(x) for x in v[1]] if v[0] == 1 else str(v[1]) if v[0] == 2 else dec_str(v[1])) for k, v in o[2]]
    return ("ok", events, final)


def model_policies(m):
    o = parse_sexp(m.ask("(8 0)"))
    return dict(scope="restore" if o[0] == 1 else "pop", empty="skip" if o[1] == 1 else "fall-through", tolerant=bool(o[2]))


KIND_OF = {0: "for", 1: "endfor", 2: "block", 3: "endblock", 4: "plain"}


def model_desugar(m, rows, ctx):
    """Comp/Desugar.v: desugar (wire engine 103) -> ('ok', [(kind, id, text)]) | ('err', class) | ('notliteral', row) | None"""
    o = parse_sexp(m.ask(f"(103 1 0 ({' '.join(enc_raw(r) for r in rows)}) {enc_ctx(ctx)})"))
    if o in ([999998], [999997]):
        return None
    if o[0] == 1:
        return ("err", ERR.get(o[1], str(o[1])))
    out = []
    for r in o[1]:
        kind, inc, rid, text, vs, _it = r
        if inc != [0] or vs != [] or kind not in (2, 3, 4) or any(sg[0] != 0 for sg in rid + text):
            return ("notliteral", r)
        out.append((KIND_OF[kind], "".join(dec_str(sg[1]) for sg in rid), "".join(dec_str(sg[1]) for sg in text)))
    return ("ok", out)


def desugared_csv(des):
    rows = [dict(kind=k, inc="true", id=[("lit", i)] if i else [], text=[("lit", t)] if t else []) for k, i, t in des]
    return sheet_csv(rows, [""] * len(rows))


def toks(events):
    """what FlowParser builds from: rows handed to _parse_row, NodeGroups pushed, groups popped and registered under an id"""
    return [("row", e[1], e[2]) if e[0] == "row" else ("push",) if e[0] == "push" else ("pop", e[1])
            for e in events if e[0] in ("row", "push", "end")]


class Spy:
    """Observes, for the duration of a `with`, the events FlowParser acts on."""

    def __enter__(self):
        from rpft.parsers.common.sheetparser import SheetParser
        from rpft.parsers.creation import flowparser as fpm

        self.events = []
        self.SP, self.FP, self.NG = SheetParser, fpm.FlowParser, fpm.NodeGroup
        self.o_next, self.o_block = SheetParser.parse_next_row, fpm.FlowParser._parse_block
        self.o_row, self.o_app = fpm.FlowParser._parse_row, fpm.FlowParser.append_node_group
        spy = self

        def parse_next_row(sp, omit_templating=False, return_index=False):
            r = spy.o_next(sp, omit_templating=omit_templating, return_index=return_index)
            row, idx = r if return_index else (r, None)
            if row is not None and not omit_templating and idx is not None:
                spy.events.append(("inst", idx - 2))
            return r

        def _parse_block(fp, depth=0, block_type="root_block", omit_content=False):
            if block_type != "root_block":
                spy.events.append(("enter", block_type, bool(omit_content)))
            return spy.o_block(fp, depth, block_type, omit_content)

        def _parse_row(fp, row):
            spy.events.append(("row", row.row_id, row.mainarg_message_text))
            return spy.o_row(fp, row)

        def append_node_group(fp, group, row_id):
            if type(group) is spy.NG:
                spy.events.append(("end", row_id))
            return spy.o_app(fp, group, row_id)

        SheetParser.parse_next_row = parse_next_row
        fpm.FlowParser._parse_block = _parse_block
        fpm.FlowParser._parse_row = _parse_row
        fpm.FlowParser.append_node_group = append_node_group
        return self

    def __exit__(self, *a):
        self.SP.parse_next_row = self.o_next
        self.FP._parse_block, self.FP._parse_row, self.FP.append_node_group = self.o_block, self.o_row, self.o_app
        return False


class _GroupStack(list):
    """FlowParser.node_group_stack, observed: a push of a new NodeGroup (begin_for / begin_block that is not skipped)"""

    def __init__(self, items, events):
        super().__init__(items)
        self._events = events

    def append(self, x):
        self._events.append(("push",))
        super().append(x)


def impl_run(csvtext, ctx):
    import tablib
    from rpft.parsers.creation.flowparser import FlowParser
    from rpft.rapidpro.models.containers import RapidProContainer

    box = {}

    def go():
        fp = FlowParser(RapidProContainer(), "f", tablib.import_set(csvtext, format="csv"), context=dict(ctx))
        box["fp"] = fp
        fp.node_group_stack = _GroupStack(fp.node_group_stack, box["spy"].events)
        fp._parse_block()
        return fp

    with Spy() as spy:
        box["spy"] = spy
        r = run_cli_mode(go)
    fp = box.get("fp")
    final = None
    if fp is not None:
        final = [(k, [str(x) for x in v] if isinstance(v, list) else str(v)) for k, v in fp.sheet_parser.context.items()]
    if r[0] == "ok":
        return ("ok", spy.events, final)
    return ("err", classify_error(r), final, spy.events)


GRAPH_ERRORS = ["no loose exit", "Cannot connect", "Edge from", "non-empty text", "row_id"]


def classify_error(r):
    kind, msg = r[1], r[2]
    if kind == "KeyError":
        return "KeyError"
    if kind == "UndefinedError":       # forcing an Undefined outside the cell parser (iterating {@ ghost @})
        return "undefined"
    if kind == "critical":
        if "is undefined" in msg or "Undefined" in msg:
            return "undefined"
        if "Wrong block terminator" in msg:
            return "wrong-terminator"
        if "unterminated" in msg or "Unexpected end of flow" in msg:
            return "unterminated"
        if "must have a loop_variable" in msg:
            return "no-loop-variable"
        if any(g in msg for g in GRAPH_ERRORS):
            return "graph"
    return f"{kind}: {msg[:80]}"


# ------------------------------------------------------------------ oracles on the implementation alone
def unevaluated_positions(rows):
    """positions that the property says are never instantiated: everything inside a block or
    loop whose include_if is literally false, and inside a loop over a literal empty list
    (up to and including its terminator)"""
    out, i = set(), 0

    def skip_from(j):
        depth = 1
        while j < len(rows) and depth:
            k = rows[j]["kind"]
            depth += k in ("for", "block")
            depth -= k in ("endfor", "endblock")
            out.add(j)
            j += 1
        return j

    while i < len(rows):
        r = rows[i]
        if i in out:
            i += 1
            continue
        if r["kind"] in ("for", "block") and r["inc"] == "false":
            i = skip_from(i + 1)
        elif r["kind"] == "for" and r["inc"] == "true" and r.get("iter") == ("lit", []) and r.get("vars") and r["vars"][0]:
            i = skip_from(i + 1)
        else:
            i += 1
    return out


class _RefError(Exception):
    pass


def reference_desugar(rows, cx):
    """What the property says a (well nested) sugared sheet means — its DESUGARED form: every loop
    replaced by a block (same rendered row id) holding its body once per element, in order, with
    the loop and index variable substituted (LEXICAL scope: an environment per iteration, the outer
    one untouched); rows and blocks whose include_if is false dropped unevaluated; every cell
    rendered.  -> ('ok', [(kind, id, text)]) with kind in plain/block/endblock | ('err', why)"""
    out = []

    def render(segs, env):
        parts = []
        for k, sg in segs:
            if k == "lit":
                parts.append(sg)
            elif sg not in env:
                raise _RefError("undefined")
            else:
                parts.append(",".join(env[sg]) if isinstance(env[sg], list) else str(env[sg]))
        return "".join(parts)

    def included(r, env):
        inc = r["inc"]
        if inc in ("true", "false"):
            return inc == "true"
        if inc[1] not in env:
            raise _RefError("undefined")
        val = env[inc[1]]
        if inc[0] == "cmp":                      # Python's ==: a str equals a str; a list or an int (the index) never does
            same = isinstance(val, str) and val == inc[3]
            return same if inc[2] else not same
        return (",".join(val) if isinstance(val, list) else str(val)).strip().lower() != "false"

    def matching_end(i):
        depth, j = 1, i + 1
        while depth:
            depth += rows[j]["kind"] in ("for", "block")
            depth -= rows[j]["kind"] in ("endfor", "endblock")
            j += 1
        return j - 1

    def body(lo, hi, env):
        i = lo
        while i < hi:
            r = rows[i]
            if r["kind"] == "plain":
                if included(r, env):
                    out.append(("plain", render(r.get("id", []), env), render(r.get("text", []), env)))
                i += 1
                continue
            end = matching_end(i)
            if included(r, env):
                head = ("block", render(r.get("id", []), env), render(r.get("text", []), env))
                if r["kind"] == "block":
                    out.append(head)
                    body(i + 1, end, env)
                else:
                    it = r["iter"]
                    if it[0] == "lit":
                        elems = list(it[1])
                    elif it[1] not in env:
                        raise _RefError("undefined")
                    else:
                        elems = list(env[it[1]]) if isinstance(env[it[1]], list) else [str(env[it[1]])]
                    vs = r.get("vars", [])
                    if not vs or not vs[0]:
                        raise _RefError("no-loop-variable")
                    out.append(head)
                    for n, e in enumerate(elems):
                        env2 = dict(env)
                        env2[vs[0]] = e
                        if len(vs) > 1 and vs[1]:
                            env2[vs[1]] = n            # an int
                        body(i + 1, end, env2)
                out.append(("endblock", "", ""))      # (generated terminators carry no template)
            i = end + 1

    try:
        body(0, len(rows), dict(cx))
    except _RefError as e:
        return ("err", str(e))
    return ("ok", out)


def reference_rows(rows, cx):
    """the rows handed on, in order, under the unrolled lexically scoped reading -> ('ok', [(id, text)]) | ('err', why)"""
    r = reference_desugar(rows, cx)
    return ("ok", [(i, t) for k, i, t in r[1] if k == "plain"]) if r[0] == "ok" else r


def well_nested(rows):
    st = []
    for r in rows:
        if r["kind"] in ("for", "block"):
            st.append(r["kind"])
        elif r["kind"] in ("endfor", "endblock"):
            if not st or st.pop() != r["kind"][3:]:
                return False
    return not st


P = lambda text, inc="true", rid=None: dict(kind="plain", inc=inc, id=[("lit", rid)] if rid else [], text=text)  # noqa: E731
L_ = lambda s: ("lit", s)  # noqa: E731
R_ = lambda s: ("ref", s)  # noqa: E731
FOR = lambda vs, it, rid=None: dict(kind="for", inc="true", id=[("lit", rid)] if rid else [], vars=vs, iter=it)  # noqa: E731
ENDFOR = dict(kind="endfor", inc="true")

# the inputs of the two recorded defects and their neighbours, always run (as ordinary cases)
DIRECTED = [
    # the loop variable is named like a context entry (findings.d: loop-variable-shadows-outer-variable)
    ({"cx": "CXVAL"}, [FOR(["cx"], ("lit", ["a", "b"]), "1"), P([R_("cx")]), ENDFOR, P([L_("after:"), R_("cx")])]),
    # the INDEX variable is
    ({"cx": "CXVAL", "k": "K"}, [FOR(["i", "cx"], ("lit", ["a", "b"]), "1"), P([R_("cx"), R_("i")]), ENDFOR, P([L_("after:"), R_("cx")])]),
    # an inner loop reuses the outer loop's variable
    ({}, [FOR(["x"], ("lit", ["a", "b"]), "1"), FOR(["x"], ("lit", ["p", "q"])), P([L_("in:"), R_("x")]), ENDFOR,
          P([L_("out:"), R_("x")]), ENDFOR, P([L_("tail")])]),
    # one name for both variables
    ({"x": "OUT"}, [P([L_("hi")], rid="first"), FOR(["x", "x"], ("lit", ["a", "b"])), P([L_("in:"), R_("x")]), ENDFOR, P([L_("after:"), R_("x")])]),
    # a loop over nothing (findings.d: empty-loop), literal and from a context list, nested, shadowing
    ({}, [P([L_("hi")], rid="1"), FOR(["x"], ("lit", []), "2"), P([R_("x")]), ENDFOR, P([L_("bye")], rid="3")]),
    ({"l0": []}, [P([L_("hi")], rid="1"), FOR(["x", "i"], ("ref", "l0"), "2"), P([R_("x"), R_("i")]), dict(kind="block", inc="true", id=[]),
                  P([R_("ghost")]), dict(kind="endblock", inc="true"), ENDFOR, P([L_("bye")])]),
    ({"cx": "CXVAL"}, [P([L_("hi")], rid="1"), FOR(["cx"], ("lit", []), "2"), FOR(["y"], ("lit", ["a", "b"])), P([R_("cx"), R_("y")]), ENDFOR, ENDFOR,
                       P([L_("bye:"), R_("cx")])]),
    ({}, [P([L_("hi")], rid="1"), FOR(["x"], ("lit", ["a", "b"])), FOR(["y"], ("lit", [])), P([R_("y")]), ENDFOR, P([L_("in:"), R_("x")]), ENDFOR,
          P([L_("bye")])]),
    # comparison cells: a block present in the SECOND copy of the body only, inside it rows whose own include_if is false there
    # (first met while the block is skipped, then read normally); the index is an int and never equals the word "0"
    ({"inc": "false"}, [P([L_("hi")], rid="1"), FOR(["x", "i"], ("lit", ["a", "b"]), "2"),
                        dict(kind="block", inc=("cmp", "x", True, "b"), id=[]),
                        P([L_("in:"), R_("x")], inc=("cmp", "x", False, "b")), P([L_("also:"), R_("x")], inc=("ref", "inc")),
                        P([L_("kept:"), R_("x")], inc=("cmp", "x", False, "a")),
                        dict(kind="endblock", inc="true"),
                        P([L_("idx:"), R_("i")], inc=("cmp", "i", True, "0")), P([L_("idx-ne:"), R_("i")], inc=("cmp", "i", False, "0")),
                        ENDFOR, P([L_("bye")])]),
    # ... the same with an inner loop as the conditional part, and a list / an unknown name compared
    ({"l2": ["p"]}, [P([L_("hi")], rid="1"), FOR(["x"], ("lit", ["a", "b", "a"]), "2"),
                     dict(kind="for", inc=("cmp", "x", False, "a"), id=[], vars=["y"], iter=("lit", ["p", "q"])),
                     P([L_("y:"), R_("y")], inc=("cmp", "y", True, "q")), ENDFOR,
                     P([L_("list:"), R_("x")], inc=("cmp", "l2", True, "p")), ENDFOR, P([L_("bye")])]),
    ({}, [P([L_("hi")], rid="1"), P([L_("never")], inc=("cmp", "ghost", False, "a"))]),
]


def sheet_classes(rows, cx):
    """(a loop variable shadows a context entry or an enclosing loop's variable, a loop runs over nothing)"""
    shadow, empty, stack = False, False, []
    for r in rows:
        if r["kind"] == "for":
            vs = [x for x in r.get("vars", []) if x]
            if any(x in cx or x in [b for s in stack for b in s] for x in vs) or len(set(vs)) < len(vs):
                shadow = True          # (an index variable named like its own loop variable shadows it)
            it = r.get("iter")
            if r["inc"] != "false" and ((it[0] == "lit" and not it[1]) or (it[0] == "ref" and cx.get(it[1]) == [])):
                empty = True
            stack.append(vs)
        elif r["kind"] == "block":
            stack.append([])
        elif r["kind"] in ("endfor", "endblock") and stack:
            stack.pop()
    return shadow, empty


def str_ctx(cx):
    return [[k, [str(x) for x in val] if isinstance(val, list) else str(val)] for k, val in cx.items()]


def oracles(ir, before, never, empty, ref=None):
    """the property's own statements on what the implementation did; -> list of summaries"""
    out = []
    if ref is not None and ref[0] == "ok":
        want = [list(x) for x in ref[1]]
        if ir[0] != "ok":
            if ir[1] != "graph":
                out.append(f"the sheet is rejected ({ir[1]}) although its unrolled, lexically scoped reading delivers the rows {want!r}")
        else:
            got = [[e[1], e[2]] for e in ir[1] if e[0] == "row"]
            if got != want:
                out.append(f"rows handed on {got!r}; the unrolled, lexically scoped reading of the sheet gives {want!r}")
    if ir[0] == "ok" and [list(p) for p in ir[2]] != before:
        out.append(f"after the sheet the templating context is {ir[2]!r}, it was {before!r}: a loop variable is not scoped to its loop")
    events = ir[1] if ir[0] == "ok" else ir[3]
    hit = sorted({e[1] for e in events if e[0] == "inst"} & set(never))
    if hit:
        out.append(f"rows {hit} lie inside an excluded block or a loop over nothing and are instantiated")
    elif empty and ir[0] == "err" and ir[1] == "KeyError":
        out.append("a loop over nothing fails with KeyError (its variable was never added)")
    return out


def desugared_oracle(ir, ir2):
    """ir = the implementation on the sugared sheet (accepted), ir2 = on its desugared form -> list of summaries"""
    if ir2[0] != "ok":
        return [f"the sheet is accepted but its desugared form (loops unrolled into blocks, excluded content removed) is rejected ({ir2[1]})"]
    if toks(ir2[1]) != toks(ir[1]):
        return [f"FlowParser is handed {toks(ir[1])!r} for the sheet but {toks(ir2[1])!r} for its desugared form"]
    if ir2[2]:
        return [f"the desugared sheet leaves {ir2[2]!r} in the empty templating context"]
    return []


def judge(ctx, rows, cx, spell, dist, nontrivial):
    v, m = ctx.v, ctx.model
    csvtext = sheet_csv(rows, spell)
    v.coverage["evaluations"] += 1
    ir = impl_run(csvtext, cx)
    shadow, empty = sheet_classes(rows, cx)
    dist["with_shadowing"] += shadow
    dist["with_empty_loop"] += empty
    dist["with_comparison_cell"] += any(isinstance(r["inc"], tuple) and r["inc"][0] == "cmp" for r in rows)
    key = "empty-loop" if empty else "loop-variable-shadows-outer-variable" if shadow else "loop-mechanics"
    never = sorted(unevaluated_positions(rows)) if well_nested(rows) else []
    dist["with_excluded_block"] += bool(never)
    dist["scope_oracle_checked"] += ir[0] == "ok"
    ref = reference_rows(rows, cx) if well_nested(rows) else None
    dist["reference_reading_ok"] += bool(ref and ref[0] == "ok")
    rep = dict(fn="blocks", csv=csvtext, ctx=cx, never=never, empty=empty, ref=ref)
    failed = False
    for summary in oracles(ir, str_ctx(cx), never, empty, ref)[:1]:
        v.failing_input(key, summary, rep)
        failed = True
    # ---- the unrolling theorem's statement, on the implementation: the desugared sheet (reference desugaring; it is
    # compared with the model's below) is accepted from the EMPTY context and FlowParser is handed the same rows and
    # pushes / registers the same groups in the same order
    rd = reference_desugar(rows, cx) if well_nested(rows) else None
    if rd and rd[0] == "ok" and ir[0] == "ok" and not failed and dist["desugared_compiled"] < dist["desugared_budget"]:
        dist["desugared_compiled"] += 1
        des_csv = desugared_csv(rd[1])
        for summary in desugared_oracle(ir, impl_run(des_csv, {}))[:1]:
            v.failing_input(key, summary, dict(rep, des_csv=des_csv))
    # ---- correspondence
    if not m:
        return
    md = model_desugar(m, rows, cx)
    if md is None or md[0] == "notliteral":
        ctx.disagree("blocks: desugar (model) did not deliver a literal sheet", rep, repr(md), "")
    elif rd is not None:
        dist["desugar_vs_reference"] += 1
        if md != rd:
            ctx.disagree("blocks: desugar (Comp/Desugar.v) differs from the reference desugaring", rep, repr(md), repr(rd))
    mo = model_run(m, rows, cx)
    if mo is None:
        ctx.disagree("blocks: model rejected the sheet", rep, "BADINPUT", "")
        return
    if mo[0] == "err" and mo[1] == "FUEL":
        return
    if md is not None and md[0] != "notliteral" and ((md[0] == "ok") != (mo[0] == "ok") or (md[0] == "err" and tuple(md) != tuple(mo[:2]))):
        # C03_desugar_defined_iff_sheet_accepted / C03_desugar_fails_iff_sheet_fails, on the extracted code
        ctx.disagree("blocks: desugar defined/failing differently from the model's own reading of the sheet", rep, repr(md), repr(mo[:2]))
    if ir[0] == "err" and ir[1] == "graph":
        dist["graph_error_outside_model"] += 1
        return
    if mo[0] == "ok":
        dist["ok"] += 1
        if ir[0] != "ok":
            ctx.disagree("blocks: model delivers, implementation fails", rep, repr(mo[1][-6:]), repr(ir[:2]))
        elif mo[1] != ir[1]:
            ctx.disagree("blocks: event stream", rep, repr(mo[1]), repr(ir[1]))
        elif mo[2] != ir[2]:
            ctx.disagree("blocks: context after the sheet", rep, repr(mo[2]), repr(ir[2]))
        else:
            nontrivial.add(csvtext)
    else:
        dist["err"] += 1
        if ir[0] == "ok" or ir[1] != mo[1]:
            ctx.disagree("blocks: model fails, implementation differs", rep, repr(mo), repr(ir[:2]))
        else:
            nontrivial.add(csvtext)


def run(ctx, n):
    """the directed cases, then n generated sheets; returns the set of non-trivial cases"""
    rng = ctx.rng
    dist = {"ok": 0, "err": 0, "graph_error_outside_model": 0, "with_shadowing": 0, "with_empty_loop": 0, "with_excluded_block": 0,
            "with_comparison_cell": 0, "scope_oracle_checked": 0, "reference_reading_ok": 0, "desugar_vs_reference": 0, "desugared_compiled": 0,
            "desugared_budget": max(60, n * 2 // 5)}
    nontrivial = set()
    if ctx.model:
        ctx.stats["loop_mechanics_of_the_code"] = model_policies(ctx.model)
    for cx, rows in DIRECTED:
        judge(ctx, rows, cx, ["" if r["inc"] == "true" else "FALSE" for r in rows], dist, nontrivial)
    for _ in range(n):
        cx = gen_ctx(rng)
        rows = gen_rows(rng, cx)
        spell = [rng.choice(["", "TRUE", "true"]) if r["inc"] == "true" else rng.choice(["FALSE", "false", "False"]) for r in rows]
        judge(ctx, rows, cx, spell, dist, nontrivial)
    ctx.stats["blocks_correspondence"] = dist
    return nontrivial


def replay(r):
    """True when the property's statements hold on this input"""
    ir = impl_run(r["csv"], r["ctx"])
    if oracles(ir, str_ctx(r["ctx"]), r.get("never", []), r.get("empty", False), r.get("ref")):
        return False
    if r.get("des_csv") and ir[0] == "ok":
        return not desugared_oracle(ir, impl_run(r["des_csv"], {}))
    return True
