"""C04 — ties for the theorem "the exported rows MEAN the flow" (coq/theories/Exp/Means*.v, engine 104).

For every flow the C04 check judges (and both export modes):
 (a) `abs_rows` (Exp/Means.v: the reading of exported rows as the abstract rows RowSem takes) against the harness' own
     reading `rowref.rows_sexp` of the rows the IMPLEMENTATION exports (`FlowContainer.to_rows`): the two must be equal;
 (b) `flow_of` (Exp/Means.v: the loaded flow as a flow of Flow.v) against the harness' reading of the flow file
     (`flowutil.flow_sexp`): the verified checker must find them trace-equal;
 (c) the statement of the theorem evaluated (`means_check`): on a flow of the family (`exportable`) it must hold —
     a failure there would contradict a proved theorem (or show the family/definitions drifted from the proofs)."""
import c17
import flowutil
import rowref
from common import parse_sexp, run_cli_mode

ACTION_ARG = {"send_message": "mainarg_message_text", "save_value": "mainarg_value", "save_flow_result": "mainarg_value",
              "add_contact_urn": "mainarg_value", "add_to_group": "mainarg_groups", "remove_from_group": "mainarg_groups",
              "start_new_flow": "mainarg_flow_name", "split_by_value": "mainarg_expression", "split_by_group": "mainarg_groups",
              "go_to": "mainarg_destination_row_ids", "transfer_airtime": "mainarg_dict"}


def abs_of_impl(r, ids, strip):
    """a FlowRowModel of the implementation as the row dict harness/rowref.py reads"""
    d = r.dict()
    t = d["type"]

    def val(v):
        return "u%d" % ids[v] if v in ids else v

    row = {"type": t, "row_id": d["row_id"],
           "edges": [{"from": e["from_"], "value": val(e["condition"]["value"]), "variable": e["condition"]["variable"],
                      "ctype": e["condition"]["type"], "name": e["condition"]["name"]} for e in d["edges"]],
           "node_uuid": "" if strip or not d["node_uuid"] else val(d["node_uuid"])}
    if t == "call_webhook":
        row["arg"] = d["webhook"]["body"]
    elif t.startswith("set_contact_"):
        row["arg"] = d["mainarg_value"]
    elif t in ACTION_ARG:
        row["arg"] = d[ACTION_ARG[t]]
    for k in ("save_name", "result_category", "image", "audio", "video", "attachments", "choices", "urn_scheme", "no_response"):
        row[k] = d[k]
    row["webhook_url"], row["webhook_method"], row["webhook_headers"] = d["webhook"]["url"], d["webhook"]["method"], d["webhook"]["headers"]
    return row, bool(d["wa_template"]["name"] or d["wa_template"]["uuid"] or d["wa_template"]["variables"])


def generated(ctx, n):
    """flows of the C17 generator (joins, cycles into multi-action nodes, routers of every kind, clashing names): the exporter
    model and the implementation must give the same abstract rows, and the statement must hold on those of the family"""
    import c17_gen

    stats = {}
    for _ in range(n):
        kw = {"shape": "loops"} if ctx.rng.random() < 0.5 else {}
        doc = c17_gen.gen_container(ctx.rng, stats, nflows=1, **kw)
        tie(ctx, doc, "c17-generator", flow_file=False)


def tie(ctx, doc, label, flow_file=True):
    from rpft.rapidpro.models.containers import RapidProContainer

    m = ctx.model
    if m is None:
        return
    st = ctx.stats.setdefault("means", {})

    def count(k, n=1):
        st[k] = st.get(k, 0) + n

    repaired = m.ask("(104 7)") == "1"      # the premises of the theorem hold of the tree under check
    st["theorem_premises(export repairs present)"] = repaired
    r = run_cli_mode(RapidProContainer.from_dict, doc)
    if r[0] != "ok":
        count("load_error")
        return
    for fi, fl in enumerate(r[1].flows):
        enc = c17.Enc()
        try:
            sx = enc.flow(fl)
        except (c17.Unencodable, AttributeError, KeyError, TypeError):
            count("unencodable")
            continue
        where = dict(source=label, flow=doc["flows"][fi].get("name"))
        # (b) flow_of against the harness' reading of the flow file
        fres = m.ask("(104 3 %s %s)" % (sx, flowutil.flow_sexp(doc["flows"][fi]))) if flow_file else "1"
        count("flow_of_compared" if flow_file else "flow_of_not_compared(generator outside the loaded model: all_urns, ...)")
        if fres != "1":
            ctx.disagree("flow_of (Exp/Means.v) and the flow file (flowutil.flow_sexp) are not trace-equal",
                         dict(where, container=doc), fres, "1")
        why = parse_sexp(m.ask(f"(104 4 {sx})"))
        count("exportable" if why == 0 else f"not_exportable_{why}")
        single = m.ask(f"(104 8 {sx})") == "1"
        for nb, strip in ((0, 0), (1, 1)):
            # (a) abs_rows against rowref on the implementation's rows
            ir = run_cli_mode(fl.to_rows, bool(nb))
            mo = parse_sexp(m.ask(f"(104 2 {nb} {strip} {sx})"))
            if ir[0] == "ok" and mo and mo[0] == 0:
                try:
                    conv = [abs_of_impl(x, enc.ids, bool(strip)) for x in ir[1]]
                    if any(t for _, t in conv):
                        count("abs_rows_skipped(templating)")
                    else:
                        mine = parse_sexp(rowref.rows_sexp([c for c, _ in conv]))
                        count("abs_rows_compared")
                        count("abs_rows_rows", len(mine))
                        if mine != mo[1]:
                            k = next((i for i in range(min(len(mine), len(mo[1]))) if mine[i] != mo[1][i]), min(len(mine), len(mo[1])))
                            ctx.disagree("abs_rows (Exp/Means.v) differs from rowref.rows_sexp on the exported rows",
                                         dict(where, numbered=nb, strip_uuids=strip, container=doc, first_difference_at_row=k),
                                         repr(mo[1][k] if k < len(mo[1]) else None)[:1200], repr(mine[k] if k < len(mine) else None)[:1200])
                except (ValueError, KeyError, TypeError) as e:
                    count("abs_rows_skipped(row type without reference reading)")
            elif (ir[0] == "ok") != bool(mo and mo[0] == 0):
                count("export_outcome_differs(see C17)")
            # (c) the statement itself
            out = parse_sexp(m.ask(f"(104 1 {nb} {strip} {sx})"))
            ctx.v.coverage["evaluations"] += 1
            count(f"means_{out}")
            if repaired and why == 0 and (not strip or single) and out not in (0, 4):
                ctx.disagree("to_rows_means_flow fails on a flow of the family (contradicts the proved theorem)",
                             dict(where, numbered=nb, strip_uuids=strip, container=doc), out, 4)
