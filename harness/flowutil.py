"""Shared glue for C01-C04: rendered flow JSON -> S-expression for the Coq flow AST
(Flow/Flow.v), canonical action payloads, an (untrusted, diagnostic) product search for a
distinguishing input sequence, and helpers to run the implementation on generated sheets."""
import csv
import io
import json
import os
import re
import shutil
import tempfile

from common import enc_str, run_cli_mode

UUID4_RE = re.compile(r"^[0-9a-f]{8}-[0-9a-f]{4}-4[0-9a-f]{3}-[89ab][0-9a-f]{3}-[0-9a-f]{12}$")
UUID_ANY = re.compile(r"[0-9a-f]{8}-[0-9a-f]{4}-[0-9a-f]{4}-[0-9a-f]{4}-[0-9a-f]{12}")


# ---------------------------------------------------------------- JSON -> sexp
def json_sexp(j):
    if j is None:
        return "(0)"
    if j is True or j is False:
        return "(1 %d)" % (1 if j else 0)
    if isinstance(j, int):
        return "(2 %d %d)" % (1 if j < 0 else 0, abs(j))
    if isinstance(j, float):
        return "(3 " + enc_str(repr(j)) + ")"
    if isinstance(j, str):
        return "(4 " + enc_str(j) + ")"
    if isinstance(j, (list, tuple)):
        return "(5 (" + " ".join(json_sexp(x) for x in j) + "))"
    if isinstance(j, dict):
        return "(6 (" + " ".join("(" + enc_str(str(k)) + " " + json_sexp(v) + ")" for k, v in sorted(j.items())) + "))"
    raise TypeError(f"not plain JSON: {type(j)}")


def canon_action(a):
    """Canonical payload of a rendered action: what the contact experiences. Drops the
    action's own uuid and the uuids of referenced groups/flows/templating objects
    (identifiers; their consistency is C06's subject), keeps everything else."""
    a = json.loads(json.dumps(a))
    a.pop("uuid", None)
    for g in a.get("groups", []) or []:
        if isinstance(g, dict):
            g.pop("uuid", None)
    if isinstance(a.get("flow"), dict):
        a["flow"].pop("uuid", None)
    if isinstance(a.get("templating"), dict):
        a["templating"].pop("uuid", None)
    # optional flags/labels whose value is false or empty mean the same as their absence
    for k in ("all_urns", "topic", "templating", "all_groups", "category", "attachments", "quick_replies"):
        if k in a and not a[k]:
            a.pop(k)
    return a


def ostr(s):
    return "()" if s is None else "(" + enc_str(str(s)) + ")"


def flow_sexp(flow, payload=canon_action):
    nodes = []
    for n in flow["nodes"]:
        acts = " ".join("(" + enc_str(str(a.get("uuid", ""))) + " " + json_sexp(payload(a)) + ")" for a in n.get("actions", []))
        exits = " ".join("(" + enc_str(str(e["uuid"])) + " " + ostr(e.get("destination_uuid")) + ")" for e in n["exits"])
        r = n.get("router")
        if r is None:
            rs = "()"
        else:
            cats = " ".join("(" + enc_str(str(c["uuid"])) + " " + enc_str(c["name"]) + " " + enc_str(str(c["exit_uuid"])) + ")" for c in r["categories"])
            rn = ostr(r.get("result_name") or None)   # "" = no result saved
            if r["type"] == "switch":
                cases = " ".join(
                    "(" + enc_str(str(k["uuid"])) + " " + enc_str(k["type"]) + " (" + " ".join(ostr(x) for x in k["arguments"]) + ") " + enc_str(str(k["category_uuid"])) + ")"
                    for k in r["cases"])
                w = r.get("wait")
                if w is None:
                    ws = "(0)"
                elif "timeout" in w:
                    ws = "(2 %d %s)" % (int(w["timeout"]["seconds"]), enc_str(str(w["timeout"]["category_uuid"])))
                else:
                    ws = "(1)"
                rs = "((1 %s (%s) (%s) %s %s %s))" % (enc_str(r["operand"]), cases, cats, enc_str(str(r["default_category_uuid"])), ws, rn)
            else:
                rs = "((2 (%s) %s))" % (cats, rn)
        nodes.append("(" + enc_str(str(n["uuid"])) + " (" + acts + ") (" + exits + ") " + rs + ")")
    return "(" + enc_str(str(flow.get("uuid", ""))) + " " + enc_str(flow.get("name", "")) + " (" + " ".join(nodes) + "))"


def doc_sexp(doc):
    return "(" + " ".join(flow_sexp(f) for f in doc["flows"]) + ")"


def strings_in(obj, acc=None):
    acc = set() if acc is None else acc
    if isinstance(obj, str):
        acc.add(obj)
    elif isinstance(obj, dict):
        for k, v in obj.items():
            acc.add(str(k))
            strings_in(v, acc)
    elif isinstance(obj, (list, tuple)):
        for x in obj:
            strings_in(x, acc)
    return acc


# ---------------------------------------------------------------- python LTS (diagnostics only)
def py_lts(flow):
    """state -> ('end'|'bad'|('act', payload, next)|('dec', sig, [(label, next)])|('tau', next))"""
    nodes = flow["nodes"]
    idx = {}
    for i, n in enumerate(nodes):
        idx.setdefault(n["uuid"], i)

    def dest(d):
        if d is None:
            return ("END",)
        return (idx[d], 0) if d in idx else ("BAD",)

    def kind(s):
        if s == ("END",):
            return ("end",)
        if s == ("BAD",):
            return ("bad",)
        n = nodes[s[0]]
        acts = n.get("actions", [])
        if s[1] < len(acts):
            return ("act", json.dumps(canon_action(acts[s[1]]), sort_keys=True), (s[0], s[1] + 1))
        r = n.get("router")
        if r is None:
            if len(n["exits"]) != 1:
                return ("bad",)
            return ("tau", dest(n["exits"][0].get("destination_uuid")))
        cats = {c["uuid"]: c for c in r["categories"]}
        exits = {e["uuid"]: e for e in n["exits"]}

        def cdest(cu):
            c = cats.get(cu)
            if c is None or c["exit_uuid"] not in exits:
                return ("BAD",)
            return dest(exits[c["exit_uuid"]].get("destination_uuid"))

        def cname(cu):
            return cats[cu]["name"] if cu in cats else None

        if r["type"] == "switch":
            cs = []
            for k in r["cases"]:
                args = k["arguments"][1:] if k["type"] == "has_group" else k["arguments"]
                cs.append((k["type"], tuple(args), cname(k["category_uuid"])))
            w = r.get("wait")
            ws = None if w is None else (("timeout", int(w["timeout"]["seconds"]), cname(w["timeout"]["category_uuid"])) if "timeout" in w else ("msg",))
            sig = ("switch", r["operand"], ws, r.get("result_name") or None, tuple(cs), cname(r["default_category_uuid"]))
            bs = [(("case", i), cdest(k["category_uuid"])) for i, k in enumerate(r["cases"])]
            bs.append((("default",), cdest(r["default_category_uuid"])))
            if w and "timeout" in w:
                bs.append((("timeout",), cdest(w["timeout"]["category_uuid"])))
            return ("dec", sig, bs)
        sig = ("random", r.get("result_name") or None, tuple(c["name"] for c in r["categories"]))
        return ("dec", sig, [(("bucket", i), cdest(c["uuid"])) for i, c in enumerate(r["categories"])])

    return kind


WILDNAME = "\uffffWILD"


def sig_match(a, b):
    if a == WILDNAME or b == WILDNAME:
        return True
    if isinstance(a, tuple) and isinstance(b, tuple):
        return len(a) == len(b) and all(sig_match(x, y) for x, y in zip(a, b))
    return a == b


def distinguishing_trace(f, g, limit=20000):
    """Breadth-first product search; returns a list of events leading to the first
    mismatch, or None when none is found (diagnostic; the verdict comes from Coq)."""
    kf, kg = py_lts(f), py_lts(g)

    def chase(k, s):
        for _ in range(len(f["nodes"]) + len(g["nodes"]) + 2):
            x = k(s)
            if x[0] != "tau":
                return s, x
            s = x[1]
        return s, ("bad",)

    start = ((0, 0) if f["nodes"] else ("END",), (0, 0) if g["nodes"] else ("END",))
    seen = {start}
    work = [(start, [])]
    n = 0
    while work and n < limit:
        (a, b), tr = work.pop(0)
        n += 1
        a, xa = chase(kf, a)
        b, xb = chase(kg, b)
        if xa[0] != xb[0]:
            return tr + [f"left does {xa[:2]}, right does {xb[:2]}"]
        if xa[0] == "act":
            if xa[1] != xb[1]:
                return tr + [f"left performs {xa[1]}, right performs {xb[1]}"]
            nxt = [((xa[2], xb[2]), tr + [("act", xa[1])])]
        elif xa[0] == "dec":
            if not sig_match(xa[1], xb[1]):
                return tr + [f"decision signatures differ: {xa[1]} vs {xb[1]}"]
            if [l for l, _ in xa[2]] != [l for l, _ in xb[2]]:
                return tr + ["branch lists differ"]
            nxt = [((da, db), tr + [("decide", la)]) for (la, da), (_, db) in zip(xa[2], xb[2])]
        elif xa[0] == "bad":
            return tr + ["dangling reference"]
        else:
            nxt = []
        for p, t in nxt:
            if p not in seen:
                seen.add(p)
                work.append((p, t))
    return None


# ---------------------------------------------------------------- sheets -> files -> implementation
def write_csv(path, headers, rows):
    with open(path, "w", newline="", encoding="utf-8") as f:
        w = csv.writer(f)
        w.writerow(headers)
        for r in rows:
            w.writerow([r.get(h, "") for h in headers])


def compile_workbook(sheets, index_rows=None, tags=None, data_models=None, fmt="csv"):
    """sheets: {name: (headers, [row dict])}; writes a CSV folder in a scratch dir and runs
    rpft.converters.create_flows in CLI-equivalent mode. Returns run_cli_mode's tuple."""
    from rpft import converters

    d = tempfile.mkdtemp(prefix="rpftwb")
    try:
        for name, (headers, rows) in sheets.items():
            write_csv(os.path.join(d, name + ".csv"), headers, rows)
        return run_cli_mode(converters.create_flows, [d], None, "csv", data_models=data_models, tags=tags or [])
    finally:
        shutil.rmtree(d, ignore_errors=True)


INDEX_HEADERS = ["type", "sheet_name", "data_sheet", "data_row_id", "new_name", "data_model", "template_arguments", "status", "group"]


def single_flow_workbook(flow_name, headers, rows, extra_sheets=None, extra_index=None):
    sheets = {"content_index": (INDEX_HEADERS, [dict(type="create_flow", sheet_name=flow_name)] + (extra_index or [])),
              flow_name: (headers, rows)}
    sheets.update(extra_sheets or {})
    return sheets


def template_workbook(flow_name, headers, rows, context):
    """the flow sheet instantiated as a template with one data row providing `context`"""
    keys = list(context)
    return {
        "content_index": (INDEX_HEADERS, [dict(type="data_sheet", sheet_name="ctxdata"),
                                          dict(type="create_flow", sheet_name=flow_name, data_sheet="ctxdata", data_row_id="row1")]),
        "ctxdata": (["ID"] + keys, [dict({"ID": "row1"}, **context)]),
        flow_name: (headers, rows),
    }
