"""C15 — the invocation environments the fault-injection stream is run under.

The property is about the COMMAND; what a CRITICAL record does is decided when rpft.cli is imported, from
things that are not in the workbook: environment variables, options, the working directory (where the log
file is opened), the logging configuration initialize_main_logger sets up.  This module

  * discovers that surface in the tree at hand on every run (translator/c15_configs.py: ast scan of the
    whole package for reads of the environment + a traced probe of the default invocation + the live
    argparse parser of the create_flows subcommand + the log files the default configuration opens),
  * enumerates the configurations (every discovered variable x plausible values, working directories,
    every option the harness has no special knowledge of x plausible values, --tags/--datamodels),
  * draws the RUN SHAPE of one invocation (input format csv/json/xlsx, several inputs, how the output
    path is written, subcommand alias, option spelling, input path style, `python -m rpft.cli` or the `rpft` script) from the rng,
  * runs the real command (`python -m rpft.cli <args>`) for a workbook under an invocation.
"""
import importlib.util
import json
import os
import shutil
import subprocess
import sys
import tempfile

import common
import c15_wb as W

SENTINEL = "C15-SENTINEL: this file was here before the command ran\n"
FORMATS_RUNNABLE = ("csv", "json", "xlsx")      # google_sheets needs the network


def load_configs_module():
    here = os.path.dirname(os.path.abspath(__file__))
    spec = importlib.util.spec_from_file_location("c15_configs", os.path.join(here, "..", "translator", "c15_configs.py"))
    mod = importlib.util.module_from_spec(spec)
    spec.loader.exec_module(mod)
    return mod


C = load_configs_module()

DEFAULT_SHAPE = dict(fmt="csv", multi=None, out="rel", sub=None, long_opts=False, eq_form=False, inp="rel", launch="module")
DEFAULT_CFG = dict(name="default")


def default_inv():
    return dict(cfg=dict(DEFAULT_CFG), cfg_id=0, shape=dict(DEFAULT_SHAPE))


def config_digest(cfgs):
    import hashlib

    return int(hashlib.sha256("\n".join(c["name"] for c in cfgs).encode()).hexdigest()[:12], 16)


# ------------------------------------------------------------------ run shapes
def shape_dimensions(disc):
    """every non-default value of every dimension of the run shape, as (label, shape delta)"""
    dims = []
    fmt_choices = None
    for o in disc.get("options", []):
        if o["dest"] == "format" and o.get("choices"):
            fmt_choices = o["choices"]
    for f in (fmt_choices or FORMATS_RUNNABLE):
        if f != "csv" and f in FORMATS_RUNNABLE:
            dims.append((f"format={f}", dict(fmt=f)))
    dims += [("inputs=extra-first", dict(multi="extra-first")), ("inputs=extra-last", dict(multi="extra-last")),
             ("output=absolute", dict(out="abs")), ("output=subdirectory", dict(out="subdir")),
             ("output=name with space", dict(out="othername"))]
    for s in disc.get("subcommands", []):
        if s != "create_flows":
            dims.append((f"subcommand={s}", dict(sub=s)))
    dims += [("long options", dict(long_opts=True)), ("--opt=value", dict(long_opts=True, eq_form=True)),
             ("input=absolute", dict(inp="abs")), ("input=trailing slash", dict(inp="slash")),
             # the `rpft` console script of pyproject.toml ([project.scripts] rpft = "rpft.cli:main") instead of `python -m rpft.cli`
             ("launcher=rpft script", dict(launch="script"))]
    return dims


def uncovered_formats(disc):
    for o in disc.get("options", []):
        if o["dest"] == "format" and o.get("choices"):
            return [f for f in o["choices"] if f not in FORMATS_RUNNABLE]
    return []


def random_shape(rng, disc, p=0.3):
    s = dict(DEFAULT_SHAPE)
    for _, delta in shape_dimensions(disc):
        if rng.random() < p / 2:
            s.update(delta)
    return s


# ------------------------------------------------------------------ writing a workbook in a format
EXTRA_WB = dict(
    sheets=[("content_index", ("index", [W.ixrow("create_flow", ["zz_c15_extra_flow"])])),
            ("zz_c15_extra_flow", ("flow", [W.row("send_message", id="1", edges=[W.edge("start")], main="extra input")]))],
    dm=None)
EXTRA_FLOW = "zz_c15_extra_flow"


def _tables(wb):
    out = []
    for name, s in wb["sheets"]:
        hdr, rows = W.sheet_table(s)
        out.append((name, hdr, [[r.get(h, "") for h in hdr] for r in rows]))
    return out


def write_workbook(wb, root, stem, fmt, module_name=None):
    """-> path to pass to the command"""
    if fmt == "csv":
        d = os.path.join(root, stem)
        W.write_folder(wb, d, module_name)
        return d
    if wb.get("dm") is not None and module_name:
        # the data model module, as write_folder writes it
        tmp = os.path.join(root, stem + "_csv_for_models")
        W.write_folder(wb, tmp, module_name)
        shutil.rmtree(tmp, ignore_errors=True)
    if fmt == "json":
        p = os.path.join(root, stem + ".json")
        data = {"meta": {"version": "0.1.0"}, "sheets": {n: {"headers": h, "rows": r} for n, h, r in _tables(wb)}}
        with open(p, "w", encoding="utf-8") as f:
            json.dump(data, f)
        return p
    if fmt == "xlsx":
        import tablib

        p = os.path.join(root, stem + ".xlsx")
        book = tablib.Databook()
        for n, h, rows in _tables(wb):
            ds = tablib.Dataset(title=n)
            ds.headers = h
            for r in rows:
                ds.append(r)
            book.add_sheet(ds)
        if not book.sheets():
            ds = tablib.Dataset(title="c15_empty")
            ds.headers = ["empty"]
            book.add_sheet(ds)
        with open(p, "wb") as f:
            f.write(book.export("xlsx"))
        return p
    raise ValueError(fmt)


# ------------------------------------------------------------------ the real command
def run_cli(wb, sentinel, inv, disc):
    """runs `python -m rpft.cli <create_flows ...>` on the workbook under the invocation.
    -> dict(status, stderr, log, out_exists, out_content, argv, env, cwd) or dict(unavailable=True)"""
    cfg, shape = inv["cfg"], dict(DEFAULT_SHAPE, **inv.get("shape", {}))
    root = tempfile.mkdtemp(prefix="c15cli")
    try:
        m = C.materialize(cfg, root, disc.get("log_files", []))
        if m is None:
            return dict(unavailable=True)
        cwd = m["cwd"]
        mod = "c15models"
        wpath = write_workbook(wb, root, "wb", shape["fmt"], mod)
        need_dm = wb.get("dm") is not None
        if cfg.get("uses_datamodels") and not need_dm:
            with open(os.path.join(root, mod + ".py"), "w") as f:
                f.write("from rpft.parsers.creation.datarowmodel import DataRowModel\n")
        inputs = [wpath]
        if shape["multi"]:
            epath = write_workbook(EXTRA_WB, root, "extra", shape["fmt"])
            inputs = [epath, wpath] if shape["multi"] == "extra-first" else [wpath, epath]
        rel_ok = (cwd == root)

        def arg(path):
            if shape["inp"] == "abs" or not rel_ok:
                a = path
            else:
                a = os.path.relpath(path, root)
            if shape["inp"] == "slash" and os.path.isdir(path):
                a += "/"
            return a

        if shape["out"] == "subdir":
            os.makedirs(os.path.join(root, "outdir"))
            out = os.path.join(root, "outdir", "out.json")
        elif shape["out"] == "othername":
            out = os.path.join(root, "flows export.json")
        else:
            out = os.path.join(root, "out.json")
        out_arg = out if (shape["out"] == "abs" or not rel_ok) else os.path.relpath(out, root)
        if sentinel:
            with open(out, "w") as f:
                f.write(SENTINEL)
        argv = C.build_argv(disc, m, shape["fmt"], out_arg, [arg(p) for p in inputs], sub=shape["sub"],
                            long_opts=shape["long_opts"], eq_form=shape["eq_form"],
                            datamodels=(mod if need_dm and not cfg.get("uses_datamodels") else None))
        env = C.base_env(common.SRC, drop=disc.get("env_vars", []))
        if not rel_ok:
            env["PYTHONPATH"] = common.SRC + os.pathsep + root
        env.update(m["env"])
        try:
            launcher = [common.PY, "-m", "rpft.cli"] if shape["launch"] == "module" else \
                [common.PY, "-c", "import sys; from rpft.cli import main; sys.argv[0] = 'rpft'; sys.exit(main())"]
            p = subprocess.run(launcher + argv, cwd=cwd, env=env, stdout=subprocess.PIPE,
                               stderr=subprocess.PIPE, timeout=180, text=True, errors="replace")
            status, stderr = p.returncode, p.stderr
        except subprocess.TimeoutExpired:
            status, stderr = -999, "timeout"
        log = ""
        for lp in m["logs"]:
            try:
                if os.path.isfile(lp):
                    log += open(lp, errors="replace").read()
            except OSError:
                pass
        exists = os.path.exists(out)
        content = open(out, errors="replace").read() if exists else None
        show = lambda s: s.replace(root, "{root}")
        return dict(status=status, stderr=stderr[-3000:], log=log[-3000:], out_exists=exists, out_content=content,
                    argv=[show(a) for a in argv], env={k: show(v) for k, v in m["env"].items()}, cwd=show(cwd))
    finally:
        shutil.rmtree(root, ignore_errors=True)


def describe(inv):
    s = dict(DEFAULT_SHAPE, **inv.get("shape", {}))
    parts = [inv["cfg"]["name"]]
    for k, v in s.items():
        if v != DEFAULT_SHAPE[k]:
            parts.append(f"{k}={v}")
    return "; ".join(parts)
