"""C15 — abstract workbooks (the input type of coq/theories/Io/CliIndex.v), their two
renderings (a CSV folder for the real tool, an S-expression for the extracted model),
generators of valid workbooks and of arbitrary small ones, and the fault injections of the
property text.

Abstract values mirror the Coq records one to one:
  templated string  T = [("l", text) | ("r", var)]
  cond  = dict(val, var, typ, name)           edge = dict(frm=T, cond=cond)
  row   = dict(type, id=T, edges=[edge], inc="t"|"f"|("r", var), main=T, lst=[T], vars=[str],
               save, objid, noresp=int, url, headers=[("s", str) | ("l", [str])],
               dsheet, drow, targs=[str])
  ixrow = dict(type, draft, sheets=[str], new, dsheet, drow, targs=[str], argdefs=[(name, default)],
               model, op, group)
  sheet = ("index", [ixrow]) | ("flow", [row]) | ("data", cols, [(id, [vals])])
          | ("campaign", [dict(is_msg, msg, flow)]) | ("triggers", [dict(is_kw, keywords, flow, groups, excl)])
  workbook = dict(sheets=[(name, sheet)], dm=None | [model names])
"""
import copy
import csv
import os

from common import enc_str

RTYPES = ["send_message", "save_value", "save_flow_result", "add_to_group", "remove_from_group",
          "wait_for_response", "split_by_value", "split_by_group", "split_random", "start_new_flow",
          "call_webhook", "go_to", "no_op", "hard_exit", "loose_exit", "insert_as_block",
          "begin_for", "end_for", "begin_block", "end_block"]
LIST_MAIN = {"go_to", "add_to_group", "remove_from_group", "split_by_group", "begin_for"}
ITYPES = ["create_flow", "template_definition", "data_sheet", "content_index", "create_campaign",
          "create_triggers", "ignore_row", "c15_other_type"]
OPS = ["", "concat", "filter", "sort", "zip"]

CLASS_NAMES = {
    1: "no_content_index", 2: "sheet_name_count", 3: "sheet_not_found", 4: "operation_without_new_name",
    5: "unknown_operation", 6: "unknown_data_model", 7: "concat_models", 8: "data_sheet_or_row_missing",
    9: "template_missing", 10: "row_id_without_sheet", 11: "insert_args", 12: "argument_doubly_defined",
    13: "argument_missing", 20: "unterminated_block", 21: "wrong_terminator", 22: "loop_without_variable",
    30: "edge_from_unknown_row", 31: "goto_arity", 32: "goto_unknown_destination", 33: "goto_noop",
    34: "index_error", 35: "empty_message_text", 36: "value_too_long", 37: "field_key", 38: "category_name_too_long",
    39: "webhook_headers", 40: "value_error", 41: "conditional_edge_on_block", 42: "block_without_loose_exit",
    43: "condition_without_variable", 44: "default_exit_unsupported", 45: "bad_test_type", 46: "undefined_variable",
    50: "uuid_conflict", 51: "trigger_unknown_flow", 52: "trigger_row", 53: "campaign_row",
    98: "out_of_scope", 99: "out_of_fuel",
}


# ------------------------------------------------------------------ constructors
def lit(s):
    return [("l", s)] if s else []


def ref(x):
    return [("r", x)]


def cond(val="", var="", typ="", name=""):
    return dict(val=val, var=var, typ=typ, name=name)


def edge(frm="", **c):
    return dict(frm=lit(frm) if isinstance(frm, str) else frm, cond=cond(**c))


def row(type, id="", edges=None, inc="t", main="", lst=None, vars=None, save="", objid="", noresp=0,
        url="", headers=None, dsheet="", drow="", targs=None, width=1):
    es = list(edges) if edges is not None else [edge()]
    while len(es) < width:
        es.append(edge())
    return dict(type=type, id=lit(id) if isinstance(id, str) else id, edges=es, inc=inc,
                main=lit(main) if isinstance(main, str) else main,
                lst=[lit(x) if isinstance(x, str) else x for x in (lst or [])],
                vars=list(vars or []), save=save, objid=objid, noresp=noresp, url=url,
                headers=list(headers) if headers is not None else [("s", "")],
                dsheet=dsheet, drow=drow, targs=list(targs) if targs is not None else [""])


def ixrow(type, sheets=(), new="", dsheet="", drow="", targs=None, argdefs=(), model="", op="", group="", draft=False):
    return dict(type=type, draft=draft, sheets=list(sheets), new=new, dsheet=dsheet, drow=drow,
                targs=list(targs) if targs is not None else [""], argdefs=list(argdefs), model=model, op=op, group=group)


def t_text(t):
    return "".join(s if k == "l" else "{{" + s + "}}" for k, s in t)


# ------------------------------------------------------------------ S-expression
def enc_T(t):
    return "(" + " ".join(("(0 " if k == "l" else "(1 ") + enc_str(s) + ")" for k, s in t) + ")"


def enc_strs(l):
    return "(" + " ".join(enc_str(s) for s in l) + ")"


def enc_cond(c):
    return "(" + " ".join(enc_str(c[k]) for k in ("val", "var", "typ", "name")) + ")"


def enc_inc(i):
    if i == "t":
        return "(0)"
    if i == "f":
        return "(1)"
    return "(2 " + enc_str(i[1]) + ")"


def enc_row(r):
    hs = "(" + " ".join("(0 " + enc_str(v) + ")" if k == "s" else "(1 " + enc_strs(v) + ")" for k, v in r["headers"]) + ")"
    return "(" + " ".join([
        str(RTYPES.index(r["type"])), enc_T(r["id"]),
        "(" + " ".join("(" + enc_T(e["frm"]) + " " + enc_cond(e["cond"]) + ")" for e in r["edges"]) + ")",
        enc_inc(r["inc"]), enc_T(r["main"]), "(" + " ".join(enc_T(x) for x in r["lst"]) + ")",
        enc_strs(r["vars"]), enc_str(r["save"]), enc_str(r["objid"]), str(int(r["noresp"])),
        enc_str(r["url"]), hs, enc_str(r["dsheet"]), enc_str(r["drow"]), enc_strs(r["targs"])]) + ")"


def enc_ixrow(r):
    return "(" + " ".join([
        str(ITYPES.index(r["type"]) if r["type"] in ITYPES else 7), "1" if r["draft"] else "0", enc_strs(r["sheets"]),
        enc_str(r["new"]), enc_str(r["dsheet"]), enc_str(r["drow"]), enc_strs(r["targs"]),
        "(" + " ".join("(" + enc_str(n) + " " + enc_str(d) + ")" for n, d in r["argdefs"]) + ")",
        enc_str(r["model"]), str(OPS.index(r["op"]) if r["op"] in OPS[:4] else 4), enc_str(r["group"])]) + ")"


def enc_sheet(s):
    k = s[0]
    if k == "index":
        return "(0 (" + " ".join(enc_ixrow(r) for r in s[1]) + "))"
    if k == "flow":
        return "(1 (" + " ".join(enc_row(r) for r in s[1]) + "))"
    if k == "data":
        return "(2 " + enc_strs(s[1]) + " (" + " ".join("(" + enc_str(i) + " " + enc_strs(v) + ")" for i, v in s[2]) + "))"
    if k == "campaign":
        return "(3 (" + " ".join("(" + ("1" if r["is_msg"] else "0") + " " + enc_str(r["msg"]) + " " + enc_str(r["flow"]) + ")"
                                 for r in s[1]) + "))"
    if k == "triggers":
        return "(4 (" + " ".join("(" + ("1" if r["is_kw"] else "0") + " " + enc_strs(r["keywords"]) + " " + enc_str(r["flow"])
                                 + " " + enc_strs(r["groups"]) + " " + enc_strs(r["excl"]) + ")" for r in s[1]) + "))"
    raise ValueError(k)


def enc_workbook(wb):
    return "(" + " ".join("(" + enc_str(n) + " " + enc_sheet(s) + ")" for n, s in wb["sheets"]) + ")"


def enc_dm(wb):
    return "()" if wb.get("dm") is None else "(" + enc_strs(wb["dm"]) + ")"


FUEL = 4000


def compile_request(wb):
    return f"(115 1 {FUEL} {enc_dm(wb)} {enc_workbook(wb)})"


def cli_request(wb, old):
    o = "()" if old is None else "(" + enc_str(old) + ")"
    return f"(115 2 {FUEL} {enc_dm(wb)} {enc_workbook(wb)} {o})"


# ------------------------------------------------------------------ CSV folder
def join_list(vals):
    vals = list(vals)
    if not vals:
        return ""
    if len(vals) == 1:
        return vals[0] + ";" if vals[0] != "" else ""
    return ";".join(vals)


def headers_cell(hs):
    if all(k == "s" for k, _ in hs):
        return ";".join(v for _, v in hs)
    if all(k == "l" for k, _ in hs):
        body = "|".join(";".join(v) for _, v in hs)
        return body + "|" if len(hs) == 1 else body
    raise ValueError("mixed webhook headers cannot be written in one cell")


def flow_table(rows):
    width = max([len(r["edges"]) for r in rows] + [1])
    hdr = ["row_id", "type"]
    for i in range(width):
        p = f"edges.{i + 1}."
        hdr += [p + "from", p + "condition.value", p + "condition.variable", p + "condition.type", p + "condition.name"]
    hdr += ["include_if", "loop_variable", "message_text", "save_name", "obj_id", "no_response", "webhook.url",
            "webhook.headers", "data_sheet", "data_row_id", "template_arguments"]
    out = []
    for r in rows:
        if len(r["edges"]) != width:
            raise ValueError("all rows of a sheet must have the same number of edges")
        c = {"row_id": t_text(r["id"]), "type": r["type"]}
        for i, e in enumerate(r["edges"]):
            p = f"edges.{i + 1}."
            c[p + "from"] = t_text(e["frm"])
            c[p + "condition.value"] = e["cond"]["val"]
            c[p + "condition.variable"] = e["cond"]["var"]
            c[p + "condition.type"] = e["cond"]["typ"]
            c[p + "condition.name"] = e["cond"]["name"]
        c["include_if"] = "" if r["inc"] == "t" else ("FALSE" if r["inc"] == "f" else "{{" + r["inc"][1] + "}}")
        c["loop_variable"] = join_list(r["vars"]) if len(r["vars"]) != 1 else r["vars"][0]
        if r["type"] in LIST_MAIN:
            c["message_text"] = join_list([t_text(x) for x in r["lst"]])
        else:
            c["message_text"] = t_text(r["main"])
        c["save_name"] = r["save"]
        c["obj_id"] = r["objid"]
        c["no_response"] = str(r["noresp"]) if r["noresp"] else ""
        c["webhook.url"] = r["url"]
        c["webhook.headers"] = headers_cell(r["headers"])
        c["data_sheet"] = r["dsheet"]
        c["data_row_id"] = r["drow"]
        c["template_arguments"] = ";".join(r["targs"])
        out.append(c)
    return hdr, out


INDEX_HDR = ["type", "sheet_name", "data_sheet", "data_row_id", "new_name", "data_model", "template_arguments",
             "status", "group", "operation.type"]


def index_table(rows):
    out = []
    for r in rows:
        if r["type"] == "template_definition":
            defs = r["argdefs"]
            cells = [(n + ";;" + d) if d else n for n, d in defs]
            ta = "|".join(cells)
            if len(defs) == 1 and defs[0][1]:
                ta += "|"
        else:
            ta = ";".join(r["targs"])
        out.append({"type": r["type"], "sheet_name": ";".join(r["sheets"]), "data_sheet": r["dsheet"],
                    "data_row_id": r["drow"], "new_name": r["new"], "data_model": r["model"], "template_arguments": ta,
                    "status": "draft" if r["draft"] else "", "group": r["group"], "operation.type": r["op"]})
    return INDEX_HDR, out


CAMP_HDR = ["offset", "unit", "event_type", "delivery_hour", "message", "relative_to", "start_mode", "flow", "base_language"]
TRIG_HDR = ["type", "keywords", "flow", "groups", "exclude_groups", "channel", "match_type"]


def sheet_table(s):
    k = s[0]
    if k == "index":
        return index_table(s[1])
    if k == "flow":
        return flow_table(s[1])
    if k == "data":
        return ["ID"] + list(s[1]), [dict({"ID": i}, **dict(zip(s[1], v))) for i, v in s[2]]
    if k == "campaign":
        return CAMP_HDR, [{"offset": "1", "unit": "D", "event_type": "M" if r["is_msg"] else "F", "message": r["msg"],
                           "relative_to": "Created On", "start_mode": "I", "flow": r["flow"]} for r in s[1]]
    if k == "triggers":
        return TRIG_HDR, [{"type": "K" if r["is_kw"] else "C", "keywords": ";".join(r["keywords"]), "flow": r["flow"],
                           "groups": ";".join(r["groups"]), "exclude_groups": ";".join(r["excl"])} for r in s[1]]
    raise ValueError(k)


def write_folder(wb, d, module_name=None):
    """writes the CSV folder; when the workbook has data models also <module_name>.py next to it"""
    os.makedirs(d, exist_ok=True)
    for name, s in wb["sheets"]:
        hdr, rows = sheet_table(s)
        with open(os.path.join(d, name + ".csv"), "w", newline="", encoding="utf-8") as f:
            w = csv.writer(f)
            w.writerow(hdr)
            for r in rows:
                w.writerow([r.get(h, "") for h in hdr])
    if wb.get("dm") is not None and module_name:
        cols = {}
        for name, s in wb["sheets"]:
            if s[0] == "data":
                cols[name] = s[1]
        lines = ["from rpft.parsers.creation.datarowmodel import DataRowModel", ""]
        for m in wb["dm"]:
            fields = wb.get("dm_fields", {}).get(m, [])
            lines.append(f"class {m}(DataRowModel):")
            lines += [f"    {c}: str = \"\"" for c in fields] or ["    pass"]
            lines.append("")
        with open(os.path.join(os.path.dirname(d.rstrip("/")), module_name + ".py"), "w") as f:
            f.write("\n".join(lines))


# ------------------------------------------------------------------ random pieces
WORDS = ["hello", "yes", "no", "red", "blue", "seven", "a b", "ok fine", "Q q", "x1", "Other", "Yes"]
NAMES = ["alpha", "beta", "gamma", "delta", "omega"]
GROUPS = ["grp one", "testers", "vip"]
TESTS = ["has_any_word", "has_phrase", "has_only_phrase", "has_beginning", "has_text", "has_number_eq", "has_pattern"]


def new_uuid(rng):
    import uuid

    return str(uuid.UUID(int=rng.getrandbits(128), version=4))


class FlowGen:
    """builds a flow sheet that is valid by construction (checked again on the real tool and
    on the model before it is used).  Every row has `width` edges."""

    def __init__(self, rng, width, prefix, ctx_vars=(), templates=(), datas=(), depth=0):
        self.rng = rng
        self.w = width
        self.p = prefix
        self.rows = []
        self.n = 0
        self.ids = []            # ids of row groups usable as go_to destinations / edge sources (literal ids)
        self.ctx_vars = list(ctx_vars)
        self.templates = list(templates)    # (sheet name, required arg count, data sheet or None, row ids)
        self.depth = depth
        self.prev = None         # kind of the most recent group: basic|switch|random|enter|hook|noop|block|None
        self.evaluated = []      # indices of rows that are evaluated (not under a false include_if)
        self.omit = False

    def nid(self):
        self.n += 1
        return f"{self.p}{self.n}"

    def text(self):
        rng = self.rng
        t = lit(rng.choice(WORDS))
        if self.ctx_vars and rng.random() < 0.4:
            t = t + lit(" ") + ref(rng.choice(self.ctx_vars))
        return t

    def add(self, r, kind, evaluated=True):
        self.rows.append(r)
        if evaluated and not self.omit:
            self.evaluated.append(len(self.rows) - 1)
            if kind is not None:
                self.prev = kind
        return r

    def edges_from_prev(self, first_edge=None):
        """an unconditional edge from the previous row (or `start` for the first row)"""
        if first_edge is None:
            first_edge = edge("start") if self.prev is None else edge("")
        return [first_edge] + [edge() for _ in range(self.w - 1)]

    def can_follow(self):
        return self.prev in (None, "basic", "switch", "hook", "noop", "block", "random")

    def ensure_followable(self):
        """after a start_new_flow row the next row needs an explicit completed/expired edge"""
        if self.prev == "enter":
            src = self.last_id
            r = row("send_message", id=self.nid(), edges=[edge(src, val=self.rng.choice(["completed", "Completed", "expired"]))],
                    main=self.text(), width=self.w)
            self.ids.append(t_text(r["id"]))
            self.last_id = t_text(r["id"])
            self.add(r, "basic")

    def action_row(self, inc="t"):
        rng = self.rng
        self.ensure_followable()
        t = rng.choice(["send_message", "send_message", "save_value", "save_flow_result", "add_to_group", "remove_from_group"])
        rid = self.nid()
        kw = dict(id=rid, edges=self.edges_from_prev(), width=self.w, inc=inc)
        if t == "send_message":
            r = row(t, main=self.text(), **kw)
        elif t == "save_value":
            r = row(t, main=self.text(), save=rng.choice(["field one", "score", "my_field"]), **kw)
        elif t == "save_flow_result":
            r = row(t, main=self.text(), save=rng.choice(["result a", "res"]), **kw)
        else:
            r = row(t, lst=[rng.choice(GROUPS)], **kw)
        if inc == "t":
            self.ids.append(rid)
            self.last_id = rid
        self.add(r, "basic", evaluated=(inc == "t"))
        return r

    def router_rows(self):
        rng = self.rng
        self.ensure_followable()
        t = rng.choice(["wait_for_response", "split_by_value", "split_by_group", "split_random"])
        rid = self.nid()
        kw = dict(id=rid, edges=self.edges_from_prev(), width=self.w)
        if t == "wait_for_response":
            r = row(t, save="answer", noresp=rng.choice([0, 0, 300]), **kw)
        elif t == "split_by_value":
            r = row(t, main="@fields.score", **kw)
        elif t == "split_by_group":
            r = row(t, lst=[rng.choice(GROUPS)], **kw)
        else:
            r = row(t, **kw)
        self.ids.append(rid)
        self.last_id = rid
        self.add(r, "random" if t == "split_random" else "switch")
        # branches
        nb = rng.choice([1, 2, 3])
        used = set()
        for _ in range(nb):
            v = rng.choice([w for w in WORDS if w not in used and w.lower() != "no response"])
            used.add(v)
            c = dict(val=v)
            if t == "wait_for_response" and rng.random() < 0.5:
                c["typ"] = rng.choice(TESTS[:4])
            if rng.random() < 0.4:
                c["name"] = "Cat " + v
            bid = self.nid()
            b = row("send_message", id=bid, edges=[edge(rid, **c)], main=self.text(), width=self.w)
            self.ids.append(bid)
            self.last_id = bid
            self.add(b, "basic")
        if t == "wait_for_response" and r["noresp"] and rng.random() < 0.6:
            bid = self.nid()
            b = row("send_message", id=bid, edges=[edge(rid, val="No Response")], main=self.text(), width=self.w)
            self.ids.append(bid)
            self.last_id = bid
            self.add(b, "basic")

    def enter_row(self):
        self.ensure_followable()
        rid = self.nid()
        r = row("start_new_flow", id=rid, edges=self.edges_from_prev(), main=self.rng.choice(["child flow", "other flow"]), width=self.w)
        self.ids.append(rid)
        self.last_id = rid
        self.add(r, "enter")

    def hook_row(self):
        self.ensure_followable()
        rid = self.nid()
        hs = self.rng.choice([[("s", "")], [("l", ["Authorization", "Token abc"])],
                              [("l", ["a", "b"]), ("l", ["c", "d"])]])
        r = row("call_webhook", id=rid, edges=self.edges_from_prev(), main="body", save="hook result", url="http://example.org/x",
                headers=hs, width=self.w)
        self.ids.append(rid)
        self.last_id = rid
        self.add(r, "hook")
        if self.rng.random() < 0.5:
            bid = self.nid()
            b = row("send_message", id=bid, edges=[edge(rid, val=self.rng.choice(["Success", "success", "Failure"]))],
                    main=self.text(), width=self.w)
            self.ids.append(bid)
            self.last_id = bid
            self.add(b, "basic")

    def goto_row(self):
        if not self.ids or self.prev not in ("basic", "switch", "hook", "noop"):
            return
        # all `width` edges count for a go_to: give each a source
        es = self.edges_from_prev()
        if self.w > 1:
            es = [es[0]] + [edge(self.rng.choice(self.ids)) for _ in range(self.w - 1)]
            # sources must accept an unconditional exit: only rows created as basic/switch are in ids of that kind
            es = [es[0]] + [edge(i) for i in self.rng.sample(self.basic_ids(), min(self.w - 1, len(self.basic_ids())))]
            if len(es) != self.w:
                return
        dest = self.rng.choice(self.ids)
        r = row("go_to", id="", edges=es, lst=[dest], width=self.w)
        self.add(r, None)

    def basic_ids(self):
        out = []
        for r in self.rows:
            if r["type"] in ("send_message", "save_value", "save_flow_result", "add_to_group", "remove_from_group") and r["inc"] == "t":
                i = t_text(r["id"])
                if i in self.ids and "{{" not in i:
                    out.append(i)
        return out

    def exit_row(self):
        if self.prev not in ("basic", "switch", "hook"):
            return
        es = self.edges_from_prev()
        if self.w > 1:
            b = self.basic_ids()
            if len(b) < self.w - 1:
                return
            es = [es[0]] + [edge(i) for i in self.rng.sample(b, self.w - 1)]
        r = row(self.rng.choice(["hard_exit", "loose_exit"]), edges=es, width=self.w)
        self.add(r, None)

    def noop_row(self):
        if self.prev not in ("basic", "switch"):
            return
        es = self.edges_from_prev()
        if self.w > 1:
            b = self.basic_ids()
            if len(b) < self.w - 1:
                return
            es = [es[0]] + [edge(i) for i in self.rng.sample(b, self.w - 1)]
        rid = self.nid()
        r = row("no_op", id=rid, edges=es, width=self.w)
        self.last_id = rid
        self.add(r, "noop")

    def block(self, loop):
        rng = self.rng
        if self.depth >= 2:
            return
        self.ensure_followable()
        es = self.edges_from_prev()
        if self.w > 1:
            b = self.basic_ids()
            if len(b) < self.w - 1:
                return
            es = [es[0]] + [edge(i) for i in rng.sample(b, self.w - 1)]
        omitted = rng.random() < 0.15
        bid = self.nid()
        var = f"v{self.depth}{self.n}"
        if loop:
            vars_ = [var] + ([f"i{self.depth}{self.n}"] if rng.random() < 0.4 else [])
            head = row("begin_for", id=bid, edges=es, lst=rng.sample(["a", "b", "c", "d"], rng.choice([1, 2, 3])), vars=vars_,
                       inc="f" if omitted else "t", width=self.w)
        else:
            vars_ = []
            head = row("begin_block", id=bid, edges=es, inc="f" if omitted else "t", width=self.w)
        was_omit = self.omit
        self.add(head, None)
        self.omit = was_omit or omitted
        saved = (self.ctx_vars, self.prev)
        self.ctx_vars = self.ctx_vars + vars_
        self.depth += 1
        # the head behaves like a no_op row inside the new block
        if not self.omit:
            self.prev = "noop" if saved[1] is not None else None
        n_body = rng.choice([1, 2, 3])
        for _ in range(n_body):
            self.item(inner=True)
        # last row of the body: a basic row, so that the block has a loose exit
        self.action_row()
        self.depth -= 1
        self.ctx_vars = saved[0]
        self.add(row("end_for" if loop else "end_block", width=self.w), None)
        self.omit = was_omit
        if not self.omit and not omitted:
            self.prev = "block"
            self.last_id = bid
        elif not self.omit:
            self.prev = saved[1]

    def insert_row(self):
        if not self.templates or self.depth > 1:
            return
        self.ensure_followable()
        name, nargs, dsheet, drows = self.rng.choice(self.templates)
        es = self.edges_from_prev()
        if self.w > 1:
            b = self.basic_ids()
            if len(b) < self.w - 1:
                return
            es = [es[0]] + [edge(i) for i in self.rng.sample(b, self.w - 1)]
        rid = self.nid()
        r = row("insert_as_block", id=rid, edges=es, main=name, targs=[self.rng.choice(NAMES) for _ in range(nargs)] or [""],
                dsheet=dsheet or "", drow=self.rng.choice(drows) if dsheet else "", width=self.w)
        self.last_id = rid
        self.add(r, "block")

    def item(self, inner=False):
        rng = self.rng
        k = rng.random()
        if k < 0.35:
            self.action_row()
        elif k < 0.5:
            self.router_rows()
        elif k < 0.56:
            self.enter_row()
        elif k < 0.62:
            self.hook_row()
        elif k < 0.67:
            self.goto_row()
        elif k < 0.71:
            self.exit_row()
        elif k < 0.76:
            self.noop_row()
        elif k < 0.84:
            self.block(loop=True)
        elif k < 0.9:
            self.block(loop=False)
        elif k < 0.95:
            self.insert_row()
        else:
            self.action_row(inc="f")

    def build(self, n_items):
        self.action_row()
        for _ in range(n_items):
            self.item()
        self.action_row()
        return self.rows


def gen_template(rng, name, width):
    """a small template sheet used through insert_as_block or create_flow with arguments"""
    nargs = rng.choice([0, 1, 2])
    argdefs = []
    vars_ = []
    for i in range(nargs):
        n = f"arg{i}"
        argdefs.append((n, rng.choice(["", "dflt"])))
        vars_.append(n)
    return nargs, argdefs, vars_


def gen_valid_workbook(rng, size=1):
    """-> workbook.  Several flows, templates with arguments and data sheets, a campaign and triggers."""
    sheets = []
    index = []
    # data sheets
    ndata = rng.choice([1, 2])
    datas = []
    for k in range(ndata):
        name = f"data{k}"
        cols = ["label", "extra"][: rng.choice([1, 2])]
        ids = [f"r{k}{j}" for j in range(rng.choice([1, 2, 3]))]
        rows = [(i, [rng.choice(NAMES) for _ in cols]) for i in ids]
        sheets.append((name, ("data", cols, rows)))
        index.append(ixrow("data_sheet", [name]))
        datas.append((name, cols, ids))
    dm = None
    if rng.random() < 0.4:
        # a concatenation under a user data model
        dm = ["C15Model"]
        cols = ["label"]
        for k in (7, 8):
            name = f"data{k}"
            ids = [f"r{k}{j}" for j in range(2)]
            sheets.append((name, ("data", cols, [(i, [rng.choice(NAMES)]) for i in ids])))
        index.append(ixrow("data_sheet", ["data7", "data8"], new="datacat", model="C15Model", op=rng.choice(["concat", ""])))
        datas.append(("datacat", cols, ["r70", "r71", "r80", "r81"]))
    # templates for insert_as_block
    templates = []
    for k in range(rng.choice([0, 1, 2])):
        name = f"tmpl{k}"
        nargs, argdefs, vars_ = gen_template(rng, name, 1)
        use_data = rng.random() < 0.5
        d = rng.choice(datas) if use_data else None
        ctx_vars = vars_ + (d[1] if d else [])
        g = FlowGen(rng, 1, f"t{k}_", ctx_vars=ctx_vars)
        rows = g.build(rng.choice([0, 1, 2]))
        sheets.append((name, ("flow", rows)))
        index.append(ixrow("template_definition", [name], argdefs=argdefs))
        req = nargs
        templates.append((name, req, d[0] if d else None, d[2] if d else []))
    # flows
    flow_names = []
    nflows = rng.choice([2, 3, 4]) if size else 1
    for k in range(nflows):
        name = f"flow{k}"
        width = rng.choice([1, 1, 2])
        mode = rng.choice(["plain", "plain", "data_all", "data_one", "args"])
        ctx_vars = []
        ix = None
        if mode == "plain":
            ix = ixrow("create_flow", [name])
            flow_names.append(name)
        elif mode == "data_all":
            d = rng.choice(datas)
            ctx_vars = list(d[1])
            ix = ixrow("create_flow", [name], dsheet=d[0])
            flow_names += [f"{name} - {i}" for i in d[2]]
        elif mode == "data_one":
            d = rng.choice(datas)
            ctx_vars = list(d[1])
            i = rng.choice(d[2])
            ix = ixrow("create_flow", [name], dsheet=d[0], drow=i, new=rng.choice(["", f"renamed{k}"]))
            flow_names.append(f"{ix['new'] or name} - {i}")
        else:
            nargs, argdefs, vars_ = gen_template(rng, name, width)
            ctx_vars = vars_
            index.append(ixrow("template_definition", [name], argdefs=argdefs))
            ix = ixrow("create_flow", [name], targs=[rng.choice(NAMES) for _ in range(nargs)] or [""])
            flow_names.append(name)
        g = FlowGen(rng, width, f"f{k}_", ctx_vars=ctx_vars, templates=templates)
        rows = g.build(rng.choice([1, 2, 3, 4]) * max(size, 1))
        sheets.append((name, ("flow", rows)))
        if mode == "plain" and rng.random() < 0.4:
            # an earlier definition of the same flow name from another sheet: it is compiled like any
            # other definition ("Multiple definitions ... Overwriting"), only its result is replaced
            g0 = FlowGen(rng, 1, f"o{k}_")
            sheets.append((f"{name}_old", ("flow", g0.build(rng.choice([1, 2])))))
            index.append(ixrow("create_flow", [f"{name}_old"], new=name))
        index.append(ix)
    # an ignored flow (never parsed) and a draft row
    if rng.random() < 0.3:
        g = FlowGen(rng, 1, "ig_")
        sheets.append(("ignored", ("flow", g.build(1))))
        index.append(ixrow("create_flow", ["ignored"]))
        index.append(ixrow("ignore_row", ["ignored"]))
    if rng.random() < 0.3:
        index.append(ixrow("create_flow", ["c15_missing_draft"], draft=True))
    # campaign
    if rng.random() < 0.7:
        sheets.append(("camp", ("campaign", [dict(is_msg=True, msg="reminder", flow=""),
                                             dict(is_msg=False, msg="", flow=rng.choice(flow_names))])))
        index.append(ixrow("create_campaign", ["camp"], new=rng.choice(["", "my campaign"]), group="campaign group"))
    # triggers
    if rng.random() < 0.8:
        trows = [dict(is_kw=True, keywords=["join"], flow=rng.choice(flow_names), groups=[], excl=[]),
                 dict(is_kw=False, keywords=[], flow=rng.choice(flow_names), groups=rng.choice([[], ["vip"]]), excl=[])]
        sheets.append(("trig", ("triggers", trows)))
        index.append(ixrow("create_triggers", ["trig"]))
    rng.shuffle(index) if False else None
    wb = dict(sheets=[("content_index", ("index", index))] + sheets, dm=dm, dm_fields={"C15Model": ["label"]})
    return wb


# ------------------------------------------------------------------ arbitrary small workbooks (correspondence)
def gen_calm_row(rng, width, ids, depth):
    """like gen_wild_row but without the faults that stop at once: the graph operations
    (loose exits, categories, cases, no_op forwarding) get exercised"""
    t = rng.choice(RTYPES[:15] + ["send_message", "send_message", "no_op", "go_to", "hard_exit", "loose_exit"])
    if t == "go_to" and not ids:
        t = "send_message"
    frm_pool = ["", "", ""] + ids + ids

    def rcond():
        k = rng.random()
        if k < 0.4:
            return cond()
        c = cond(val=rng.choice(WORDS + ["", "completed", "Expired", "Success", "failure", "No Response"]))
        if rng.random() < 0.5:
            c["var"] = rng.choice(["@fields.a", "@results.b"])
        if rng.random() < 0.3:
            c["typ"] = rng.choice(TESTS)
        if rng.random() < 0.3:
            c["name"] = rng.choice(["Yes", "Other", "No Response", "Cat", "Hello", "Hello_alt"])
        return c

    es = [dict(frm=lit(rng.choice(frm_pool)), cond=rcond()) for _ in range(width)]
    r = row(t, id=f"w{len(ids)}_{rng.randrange(1000)}", edges=es, width=width, inc=rng.choice(["t"] * 9 + ["f"]))
    if t == "send_message":
        r["main"] = lit(rng.choice(WORDS))
    elif t in ("save_value", "save_flow_result"):
        r["main"] = lit(rng.choice(WORDS))
        r["save"] = "good name"
    elif t in ("add_to_group", "remove_from_group", "split_by_group"):
        r["lst"] = [lit(rng.choice(GROUPS))]
        r["objid"] = rng.choice(["", "", "", "uuid-1", "uuid-2"])
    elif t == "wait_for_response":
        r["noresp"] = rng.choice([0, 0, 60])
    elif t == "split_by_value":
        r["main"] = lit("@fields.x")
    elif t == "start_new_flow":
        r["main"] = lit("child")
    elif t == "call_webhook":
        r["url"] = "http://x"
        r["save"] = "res"
    elif t == "go_to":
        r["lst"] = [lit(rng.choice(ids))] if rng.random() < 0.7 else [lit(rng.choice(ids)) for _ in range(width)]
    return r


def gen_wild_row(rng, width, ids, depth, calm=False):
    if calm:
        return gen_calm_row(rng, width, ids, depth)
    t = rng.choice(RTYPES[:16] + ["send_message", "send_message", "no_op", "go_to"])
    frm_pool = ["", "", "", "start"] + ids + ["ghost"]

    def rcond():
        k = rng.random()
        if k < 0.45:
            return cond()
        c = cond(val=rng.choice(WORDS + ["", "completed", "Expired", "Success", "failure", "No Response", "x" * 120]))
        if rng.random() < 0.3:
            c["var"] = rng.choice(["@fields.a", "@results.b"])
        if rng.random() < 0.3:
            c["typ"] = rng.choice(TESTS + ["bogus_test"])
        if rng.random() < 0.3:
            c["name"] = rng.choice(["Yes", "Other", "No Response", "Cat", "n" * 116, "Hello"])
        return c

    es = [dict(frm=lit(rng.choice(frm_pool)), cond=rcond()) for _ in range(width)]
    rid = rng.choice(["", f"w{len(ids)}", f"w{len(ids)}", rng.choice(ids) if ids else "w0"])
    r = row(t, id=rid, edges=es, width=width, inc=rng.choice(["t", "t", "t", "t", "f"]))
    if t == "send_message":
        r["main"] = lit(rng.choice(WORDS + [""]))
    elif t in ("save_value", "save_flow_result"):
        r["main"] = lit(rng.choice(WORDS + ["y" * 641, "y" * 640]))
        r["save"] = rng.choice(["field", "1234", "f" * 37, "good name", ""])
    elif t in ("add_to_group", "remove_from_group", "split_by_group"):
        r["lst"] = [lit(rng.choice(GROUPS))] if rng.random() < 0.9 else []
        r["objid"] = rng.choice(["", "", "uuid-1", "uuid-2"])
    elif t == "wait_for_response":
        r["noresp"] = rng.choice([0, 0, 60])
        r["save"] = rng.choice(["", "ans"])
    elif t == "split_by_value":
        r["main"] = lit(rng.choice(["@fields.x", "@fields.x", ""]))
    elif t == "start_new_flow":
        r["main"] = lit(rng.choice(["child", "child", ""]))
        r["objid"] = rng.choice(["", "", "fuuid-1", "fuuid-2"])
    elif t == "call_webhook":
        r["url"] = rng.choice(["http://x", "http://x", ""])
        r["save"] = rng.choice(["res", "res", "", "99"])
        r["headers"] = rng.choice([[("s", "")], [("l", ["a", "b"])], [("s", "a")], [("s", "a"), ("s", "b")],
                                   [("l", ["a", "b", "c"]), ("l", ["d", "e"])], [("l", ["a", "b"]), ("l", ["c", "d"])]])
    elif t == "go_to":
        n = rng.choice([1, 1, width, width + 1, 0])
        pool = ids + ["ghost"] if ids else ["ghost"]
        r["lst"] = [lit(rng.choice(pool)) for _ in range(n)]
    elif t == "insert_as_block":
        r["main"] = lit(rng.choice(["wtmpl", "wtmpl", "nosuch"]))
        r["dsheet"] = rng.choice(["", "", "wdata", "nosuch"])
        r["drow"] = rng.choice(["", "", "d1", "zz"])
        r["targs"] = rng.choice([[""], ["v"], ["v", "w"]])
    return r


def gen_wild_rows(rng, width, n, depth=0, ids=None, calm=False):
    ids = ids if ids is not None else []
    rows = []
    while len(rows) < n:
        k = rng.random()
        if k < 0.12 and depth < 2:
            loop = rng.random() < 0.6
            es = [dict(frm=lit(rng.choice(["", "start"] + ids)), cond=cond() if rng.random() < 0.8 else cond(val="x")) for _ in range(width)]
            head = row("begin_for" if loop else "begin_block", id=rng.choice(["", f"b{len(rows)}"]), edges=es, width=width,
                       inc=rng.choice(["t", "t", "t", "f"]))
            if loop:
                head["lst"] = [lit(x) for x in rng.choice([["a"], ["a", "b"], [""]])]
                head["vars"] = rng.choice([["x"], ["x", "i"], [], [""], ["x"]])
            if head["id"]:
                pass
            body = gen_wild_rows(rng, width, rng.choice([0, 1, 2]), depth + 1, ids, calm)
            term = rng.random() if not calm else 1.0
            if calm and loop:
                head["vars"] = rng.choice([["x"], ["x", "i"]])
            end = [row("end_for" if loop else "end_block", width=width)]
            if term < 0.08:
                end = []
            elif term < 0.16:
                end = [row("end_block" if loop else "end_for", width=width)]
            rows += [head] + body + end
            if t_text(head["id"]):
                ids.append(t_text(head["id"]))
        else:
            r = gen_wild_row(rng, width, ids, depth, calm)
            if depth > 0 and rng.random() < 0.3:
                # use the loop variable in the id
                r["id"] = r["id"] + ref("x") if rng.random() < 0.5 else r["id"]
            rows.append(r)
            i = t_text(r["id"])
            if i and r["type"] not in ("go_to", "hard_exit", "loose_exit") and "{{" not in i and r["inc"] == "t":
                ids.append(i)
    return rows


def gen_wild_workbook(rng):
    """an arbitrary small workbook over the model's vocabulary: mostly NOT valid"""
    width = rng.choice([1, 1, 2])
    calm = rng.random() < 0.5
    rows = gen_wild_rows(rng, width, rng.choice([1, 2, 3, 4, 5, 6]) if not calm else rng.choice([3, 5, 8, 12]), calm=calm)
    if (calm or rng.random() < 0.7) and rows:
        rows[0]["edges"][0] = edge("start")
    sheets = [("wflow", ("flow", rows))]
    index = []
    kinds = rng.random()
    index.append(ixrow("data_sheet", ["wdata"]))
    sheets.append(("wdata", ("data", ["label"], [("d1", ["one"]), ("d2", ["two"])])))
    tr = [row("send_message", id="t1", edges=[edge("start")], main=lit("hi ") + ref("label") if rng.random() < 0.3 else lit("hi")),
          row("send_message", id="t2", edges=[edge("")], main="there")]
    if rng.random() < 0.3:
        tr = [row("no_op", id="t0", edges=[edge("start")])] + tr
    if rng.random() < 0.2:
        tr = []
    sheets.append(("wtmpl", ("flow", tr)))
    index.append(ixrow("template_definition", ["wtmpl"], argdefs=rng.choice([[], [("arg", "")], [("arg", "d")], [("label", "")]])))
    mode = rng.random() if not calm else 0.0
    if mode < 0.6:
        index.append(ixrow("create_flow", ["wflow"]))
    elif mode < 0.75:
        index.append(ixrow("create_flow", ["wflow"], dsheet="wdata"))
    elif mode < 0.85:
        index.append(ixrow("create_flow", ["wflow"], dsheet=rng.choice(["wdata", "nosuch"]), drow=rng.choice(["d1", "zz"])))
    elif mode < 0.9:
        index.append(ixrow("create_flow", ["wflow"], drow="d1"))
    else:
        index.append(ixrow("create_flow", ["wflow"]))
        index.append(ixrow("create_flow", ["wflow"], new="second"))
    if rng.random() < 0.15:
        index.append(ixrow(rng.choice(["create_flow", "template_definition", "data_sheet", "create_campaign", "create_triggers", "content_index"]),
                           rng.choice([["nosuchsheet"], [], ["wdata", "wdata"]])))
    if rng.random() < 0.15:
        index.append(ixrow("data_sheet", ["wdata", "wdata2"] if rng.random() < 0.5 else ["wdata"], new=rng.choice(["", "merged"]),
                           op=rng.choice(["", "concat", "zip"])))
        sheets.append(("wdata2", ("data", ["label"], [("e1", ["three"])])))
    if rng.random() < 0.2:
        sheets.append(("wtrig", ("triggers", [dict(is_kw=rng.random() < 0.5, keywords=rng.choice([[], ["k"], ["", "k"]]),
                                                   flow=rng.choice(["wflow", "child", "nosuchflow", ""]),
                                                   groups=rng.choice([[], ["g"], ["", "g"]]), excl=[])])))
        index.append(ixrow("create_triggers", ["wtrig"]))
    if rng.random() < 0.2:
        sheets.append(("wcamp", ("campaign", [dict(is_msg=rng.random() < 0.5, msg=rng.choice(["", "m"]), flow=rng.choice(["", "wflow"]))])))
        index.append(ixrow("create_campaign", ["wcamp"], group="g"))
    if rng.random() < 0.1:
        index.append(ixrow("ignore_row", [rng.choice(["wflow", "second", "wtrig"])]))
    wb = dict(sheets=([("content_index", ("index", index))] if rng.random() < 0.97 else []) + sheets, dm=None)
    return wb


def padded_workbooks():
    """directed: rows whose second/third edge columns hold blank padding cells (a CSV sheet is
    rectangular), for every row type that does not create a node.  What the tool does with the
    padding depends on the tree (FlowParser._parse_next_row since /repo a05766f drops it at read;
    before, go_to / no_op / exit / block rows applied it to the preceding row); the model follows the
    regenerated probe `padding_edges_dropped_at_read`.  -> [(label, workbook)]"""
    def base():
        return [row("send_message", id="a1", edges=[edge("start")], main="hi", width=3),
                row("wait_for_response", id="w", edges=[edge("")], width=3),
                row("send_message", id="a2", edges=[edge("w", val="yes", name="Yes")], main="good", width=3),
                row("send_message", id="a3", edges=[edge("w", val="no")], main="bad", width=3)]

    def wb(rows):
        return dict(sheets=[("content_index", ("index", [ixrow("create_flow", ["pflow"])])), ("pflow", ("flow", rows))], dm=None)

    out = []
    # the go_to row of Io/CliExamples.v (goto_padding_follows_the_tree): two sources, one padding cell
    for n in (1, 2, 3, 4):
        out.append((f"go_to 2 sources + 1 padding cell, {n} destination(s)",
                    wb(base() + [row("go_to", edges=[edge("a2"), edge("a3"), edge()], lst=["a1"] * n, width=3)])))
    out.append(("go_to 1 source + 2 padding cells, 1 destination",
                wb(base() + [row("go_to", edges=[edge("a2")], lst=["a1"], width=3)])))
    out.append(("go_to 1 source + 2 padding cells, 3 destinations",
                wb(base() + [row("go_to", edges=[edge("a2")], lst=["a1"] * 3, width=3)])))
    for t in ("no_op", "hard_exit", "loose_exit"):
        out.append((f"{t} 1 source + 2 padding cells, then a row from a3",
                    wb(base() + [row(t, id="x" if t == "no_op" else "", edges=[edge("a2")], width=3),
                                 row("send_message", id="a4", edges=[edge("a3")], main="after", width=3)])))
        out.append((f"{t} blank first edge + 2 padding cells",
                    wb(base() + [row(t, id="x" if t == "no_op" else "", edges=[edge("")], width=3)])))
    for head, tail in (("begin_block", "end_block"), ("begin_for", "end_for")):
        kw = dict(lst=["p", "q"], vars=["x"]) if head == "begin_for" else {}
        out.append((f"{head} 1 source + 2 padding cells",
                    wb(base() + [row(head, id="B", edges=[edge("a2")], width=3, **kw),
                                 row("send_message", id="in1", edges=[edge("")], main="inside", width=3),
                                 row(tail, width=3),
                                 row("send_message", id="a4", edges=[edge("a3")], main="after", width=3)])))
        out.append((f"{head} from start + 2 padding cells (is_starting_row looks at the edges read)",
                    wb([row(head, id="B", edges=[edge("start")], width=3, **kw),
                        row("send_message", id="in1", edges=[edge("")], main="inside", width=3),
                        row(tail, width=3)])))
    # a node row: padding was always skipped there, on every tree
    out.append(("send_message 1 source + 2 padding cells",
                wb(base() + [row("send_message", id="a4", edges=[edge("a2")], main="after", width=3)])))
    # a first edge that is trivial is kept on every tree
    out.append(("go_to trivial first edge + 1 source + 1 padding cell, 2 destinations",
                wb(base() + [row("go_to", edges=[edge(""), edge("a2"), edge()], lst=["a1", "a1"], width=3)])))
    return out


# ------------------------------------------------------------------ fault injection
def flow_sheets(wb):
    return [(i, n, s[1]) for i, (n, s) in enumerate(wb["sheets"]) if s[0] == "flow"]


def index_rows(wb):
    for n, s in wb["sheets"]:
        if n == "content_index":
            return s[1]
    return []


def used_flow_sheets(wb):
    """names of flow sheets that some non-ignored create_flow row compiles (directly)"""
    rows = index_rows(wb)
    ignored = {r["sheets"][0] for r in rows if r["type"] == "ignore_row" and r["sheets"]}
    out = []
    for r in rows:
        if r["type"] == "create_flow" and not r["draft"] and r["sheets"] and (r["new"] or r["sheets"][0]) not in ignored:
            out.append(r["sheets"][0])
    return out


def evaluated_positions(rows):
    """indices of rows that are evaluated: not under a false include_if and not inside an omitted block"""
    out = []
    omit_depth = 0
    depth = 0
    for i, r in enumerate(rows):
        t = r["type"]
        if t in ("begin_for", "begin_block"):
            if omit_depth or r["inc"] == "f":
                omit_depth += 1
            else:
                out.append(i)
            continue
        if t in ("end_for", "end_block"):
            if omit_depth:
                omit_depth -= 1
            continue
        if not omit_depth and r["inc"] == "t":
            out.append(i)
    return out


def block_depths(rows):
    """for every position: nesting depth BEFORE the row (0 = root)"""
    d = 0
    out = []
    for r in rows:
        if r["type"] in ("end_for", "end_block"):
            d -= 1
        out.append(d)
        if r["type"] in ("begin_for", "begin_block"):
            d += 1
    return out


def inject_candidates(wb):
    """-> list of (fault class key, expected model class codes, description, tokens that name the
    problem, mutate(workbook copy))"""
    out = []
    used = set(used_flow_sheets(wb))
    by_name = {n: rows for _, n, rows in flow_sheets(wb)}
    live = set(used)
    work = list(used)
    while work:
        n = work.pop()
        rows = by_name.get(n, [])
        for q in evaluated_positions(rows):
            r = rows[q]
            if r["type"] == "insert_as_block":
                t = t_text(r["main"])
                if t not in live:
                    live.add(t)
                    work.append(t)

    def flow_mut(si, pos, f):
        def m(w):
            f(w["sheets"][si][1][1], pos)
        return m

    for si, name, rows in flow_sheets(wb):
        if name not in live:
            continue
        ev = evaluated_positions(rows)
        depth = block_depths(rows)
        rowtok = lambda p: [name, f"row {p + 2}"]
        for p in ev:
            r = rows[p]
            t = r["type"]
            if t == "send_message":
                out.append(("empty_message_text", [35], f"{name} row {p + 2}", rowtok(p),
                            flow_mut(si, p, lambda rs, q: rs[q].__setitem__("main", []))))
            if t in ("save_value", "save_flow_result"):
                out.append(("overlong_value", [36], f"{name} row {p + 2}", rowtok(p),
                            flow_mut(si, p, lambda rs, q: rs[q].__setitem__("main", lit("v" * 641)))))
            if t == "call_webhook":
                out.append(("malformed_webhook_headers", [39], f"{name} row {p + 2}", rowtok(p),
                            flow_mut(si, p, lambda rs, q: rs[q].__setitem__("headers", [("s", "Authorization")]))))
                # stray elements of exactly two characters: a two-character string is a "pair" to dict(), not to the tool
                out.append(("malformed_webhook_headers", [39], f"{name} row {p + 2} (two-character strays)", rowtok(p),
                            flow_mut(si, p, lambda rs, q: rs[q].__setitem__("headers", [("s", "id"), ("s", "42")]))))
                out.append(("malformed_webhook_headers", [39], f"{name} row {p + 2} (triple)", rowtok(p),
                            flow_mut(si, p, lambda rs, q: rs[q].__setitem__("headers", [("l", ["a", "b", "c"]), ("l", ["d", "e"])]))))
            if t == "begin_for":
                out.append(("loop_without_variable", [22], f"{name} row {p + 2}", rowtok(p),
                            flow_mut(si, p, lambda rs, q: rs[q].__setitem__("vars", []))))
            if t == "go_to":
                out.append(("goto_wrong_number_of_targets", [31], f"{name} row {p + 2}", rowtok(p),
                            flow_mut(si, p, lambda rs, q: rs[q].__setitem__(
                                "lst", [copy.deepcopy(rs[q]["lst"][0]) for _ in range(len(rs[q]["edges"]) + 1)]))))
            if t in RTYPES[:11] + ["no_op", "hard_exit", "loose_exit", "go_to", "insert_as_block", "begin_for", "begin_block"]:
                def unknown(rs, q):
                    rs[q]["edges"][0] = dict(frm=lit("c15_no_such_row"), cond=rs[q]["edges"][0]["cond"])
                out.append(("edge_from_unknown_row", [30], f"{name} row {p + 2}", [name, "c15_no_such_row"], flow_mut(si, p, unknown)))
            if t == "send_message" and r["edges"][0]["cond"]["val"] and t_text(r["edges"][0]["frm"]) not in ("", "start"):
                # a conditional edge out of a router row: an over-long category name
                src = t_text(r["edges"][0]["frm"])
                srow = [x for x in rows if t_text(x["id"]) == src]
                if srow and srow[0]["type"] in ("wait_for_response", "split_by_value", "split_by_group", "split_random") \
                        and r["edges"][0]["cond"]["val"].lower() != "no response":
                    def longcat(rs, q):
                        rs[q]["edges"][0]["cond"] = dict(rs[q]["edges"][0]["cond"], name="N" * 116)
                    out.append(("overlong_category_name", [38], f"{name} row {p + 2}", rowtok(p), flow_mut(si, p, longcat)))
            if t in ("add_to_group", "remove_from_group"):
                def conflict(rs, q):
                    g = rs[q]["lst"]
                    rs[q]["objid"] = "11111111-1111-4111-8111-111111111111"
                    extra = row(rs[q]["type"], id="", edges=[edge("")] + [edge() for _ in rs[q]["edges"][1:]], lst=copy.deepcopy(g),
                                objid="22222222-2222-4222-8222-222222222222", width=len(rs[q]["edges"]))
                    rs.insert(q + 1, extra)
                out.append(("conflicting_uuids", [50], f"{name} rows {p + 2},{p + 3}", [t_text(r["lst"][0])] if r["lst"] else [],
                            flow_mut(si, p, conflict)))
        # block structure
        for p, r in enumerate(rows):
            if r["type"] in ("end_for", "end_block"):
                other = "end_block" if r["type"] == "end_for" else "end_for"
                out.append(("mismatched_block", [21, 20], f"{name} row {p + 2}", [name],
                            flow_mut(si, p, lambda rs, q, o=other: rs[q].__setitem__("type", o))))
                out.append(("unterminated_block", [20, 21], f"{name} row {p + 2} deleted", [name],
                            flow_mut(si, p, lambda rs, q: rs.pop(q))))
            if depth[p] > 0 and p > 0:
                out.append(("unterminated_block", [20], f"{name} truncated before row {p + 2}", [name],
                            flow_mut(si, p, lambda rs, q: rs.__delitem__(slice(q, None)))))

    # index rows
    ix = index_rows(wb)
    ignored = {r["sheets"][0] for r in ix if r["type"] == "ignore_row" and r["sheets"]}

    def ix_mut(pos, f):
        def m(w):
            f(index_rows(w), pos)
        return m

    for p, r in enumerate(ix):
        if r["draft"]:
            continue
        tok = ["content_index", f"row {p + 2}"]
        if r["type"] in ("create_flow", "template_definition", "data_sheet", "create_campaign", "create_triggers") and r["sheets"]:
            if r["type"] == "create_flow" and (r["new"] or r["sheets"][0]) in ignored:
                continue
            if r["type"] == "create_flow" and any(x["type"] == "template_definition" and x["sheets"] == r["sheets"] for x in ix):
                pass
            else:
                out.append(("missing_sheet", [3], f"index row {p + 2} ({r['type']})", ["c15_no_such_sheet"],
                            ix_mut(p, lambda rs, q: rs[q].__setitem__("sheets", ["c15_no_such_sheet"] + rs[q]["sheets"][1:]))))
        if r["type"] == "create_flow" and r["dsheet"] and (r["new"] or r["sheets"][0]) not in ignored:
            out.append(("missing_data_row", [8], f"index row {p + 2}", ["c15_no_such_row"],
                        ix_mut(p, lambda rs, q: rs[q].__setitem__("drow", "c15_no_such_row"))))
            out.append(("missing_sheet", [8], f"index row {p + 2} (data_sheet cell)", ["c15_no_such_data"],
                        ix_mut(p, lambda rs, q: rs[q].__setitem__("dsheet", "c15_no_such_data"))))
        if r["type"] == "data_sheet":
            out.append(("unknown_operation", [5], f"index row {p + 2}", tok,
                        ix_mut(p, lambda rs, q: (rs[q].__setitem__("op", "zip"), rs[q].__setitem__("new", rs[q]["new"] or "c15_named")))))
            if wb.get("dm") is not None:
                out.append(("unknown_data_model", [6], f"index row {p + 2}", tok + ["C15NoSuchModel"],
                            ix_mut(p, lambda rs, q: rs[q].__setitem__("model", "C15NoSuchModel"))))
        if r["type"] == "template_definition" and r["argdefs"]:
            # rows that instantiate this template with arguments
            users = [q for q, x in enumerate(ix) if x["type"] == "create_flow" and x["sheets"] == r["sheets"]
                     and (x["new"] or x["sheets"][0]) not in ignored and not x["draft"]]
            for q in users:
                def missing(rs, _q, q=q, p=p):
                    rs[p]["argdefs"] = [(n, "") for n, _ in rs[p]["argdefs"]]
                    rs[q]["targs"] = [""]
                out.append(("missing_template_argument", [13], f"index row {q + 2}", [f"row {q + 2}", r["argdefs"][0][0]], ix_mut(p, missing)))

                def double(rs, _q, p=p):
                    rs[p]["argdefs"] = rs[p]["argdefs"] + [rs[p]["argdefs"][0]]
                out.append(("doubly_defined_template_argument", [12], f"index row {q + 2}", [f"row {q + 2}", r["argdefs"][0][0]], ix_mut(p, double)))

    # data rows: delete a row a flow definition refers to
    for p, r in enumerate(ix):
        if r["type"] == "create_flow" and r["dsheet"] and r["drow"] and not r["draft"] and (r["new"] or r["sheets"][0]) not in ignored:
            def deldata(w, ds=r["dsheet"], dr=r["drow"]):
                for n, s in w["sheets"]:
                    if s[0] == "data":
                        s[2][:] = [x for x in s[2] if x[0] != dr]
            out.append(("missing_data_row", [8], f"data row {r['drow']} deleted", [r["drow"]], deldata))

    # triggers
    for si, (n, s) in enumerate(wb["sheets"]):
        if s[0] == "triggers" and any(x["type"] == "create_triggers" and x["sheets"] == [n] and not x["draft"] for x in ix):
            for p in range(len(s[1])):
                def trig(w, si=si, p=p):
                    w["sheets"][si][1][1][p]["flow"] = "c15 no such flow"
                out.append(("trigger_for_unknown_flow", [51], f"{n} row {p + 2}", ["c15 no such flow"], trig))

    # the index itself
    def noindex(w):
        w["sheets"][:] = [(n, s) for n, s in w["sheets"] if n != "content_index"]
    out.append(("no_content_index", [1], "content_index sheet removed", ["content index"], noindex))

    # a sheet file removed
    for si, (n, s) in enumerate(wb["sheets"]):
        if s[0] == "flow" and n in used and not any(x["type"] == "ignore_row" and x["sheets"] == [n] for x in ix):
            def delsheet(w, n=n):
                w["sheets"][:] = [(m, s) for m, s in w["sheets"] if m != n]
            out.append(("missing_sheet", [3], f"sheet {n} removed", [n], delsheet))
    return out
