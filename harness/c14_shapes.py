"""C14, stream "shapes" — the SHAPE of a sheet does not matter either.

The property quantifies over "all workbooks of rectangular text sheets … (any sheet count, empty cells …)": nothing in it
bounds the number of rows or columns, the place of the content inside the sheet, or how many rows / columns without
content lie between two pieces of content.  The other streams of harness/c14.py draw small dense tables (<= 9 rows, <= 6
columns, <= 2 neighbouring rows of empty cells), so a reader that treats a LARGE shape specially — stops after a long run
of blank rows, reads only the first N rows / columns / sheets, sizes its grid from a stale or capped dimension record,
guesses the used range from the first block of content — is invisible to them.

This stream draws workbooks by shape:
  row-gap        blocks of content rows separated by runs of rows without content (run lengths around every power of
                 ten up to a few thousand, and random ones)
  leading-gap    the first content row far below the header
  trailing-gap   a long run of rows without content after the last content row
  col-gap        columns whose every cell is empty (the header is there) between / before the columns with content
  far-corner     one cell with content, far down and far right
  long           thousands of content rows
  wide           hundreds of columns
  many-sheets    dozens of sheets
  mixed          several of the above in one workbook
  flow-gap       a valid rpft workbook (content index, flow sheet, template + data sheet) whose sheets carry such runs of
                 rows without content: additionally compiled with create_flows from every format
each written as a CSV folder, as XLSX (cells without text either as empty string cells or — "sparse" — not written at all,
which is what a spreadsheet application saves) and as JSON (the real convert; and held in convert's format), read by the
real readers, compared with each other and with the workbook itself minus its rows without content; the CSV text and the
XLSX grid of every sheet also go through the extracted model readers (the theorems C14_xlsx_sheet_any_rows /
C14_formats_agree_full_repaired / C14_blank_rows_do_not_matter quantify over every table: no bound on rows, columns, runs).

A failure is minimised (other sheets dropped; every run of rows without content shrunk to the shortest length that still
fails — that length is part of the replay) and classified: when the same workbook with every run cut to ONE row still
fails, the shape is not the cause and the classes of harness/c14.py apply."""
import json
import os
import shutil
import time

import c14
import common
from common import enc_str

K_SHAPE = "sheet-shape-dependent-read"
K_SHAPE_COMPILE = "sheet-shape-dependent-compile"
BLANK = "__rows_without_content__"

SHAPES = ["row-gap", "leading-gap", "trailing-gap", "col-gap", "far-corner", "long", "wide", "many-sheets", "mixed", "flow-gap"]
# run lengths: the neighbourhood of every "round" number a reader could have been given as a limit
RUNS = [1, 2, 9, 10, 11, 99, 100, 101, 255, 256, 257, 499, 500, 511, 512, 513, 999, 1000, 1001, 1023, 1024, 1025, 1200, 2047, 2048, 2049]
SHAPE_CELLS = ["a", "b c", "a,b", 'say "hi"', "line1\nline2", "x|y;z", "é", "世界", "😀 ok", "=1+2", "123", "TRUE", " lead", "0", "back\\slash"]


# ------------------------------------------------------------------ run-length form (replays stay small)

def rle(wb):
    out = {}
    for n, (h, rows) in wb.items():
        rr, k = [], 0
        for r in rows:
            if any(r):
                if k:
                    rr.append([BLANK, k])
                    k = 0
                rr.append(list(r))
            else:
                k += 1
        if k:
            rr.append([BLANK, k])
        out[n] = [list(h), rr]
    return out


def unrle(spec):
    wb = {}
    for n, (h, rr) in spec.items():
        rows = []
        for r in rr:
            if len(r) == 2 and r[0] == BLANK and isinstance(r[1], int):
                rows += [[""] * len(h) for _ in range(r[1])]
            else:
                rows.append(list(r))
        wb[n] = (list(h), rows)
    return wb


def runs_of(wb):
    """lengths of the maximal runs of rows without content, per sheet"""
    out = []
    for n, (h, rr) in rle(wb).items():
        out += [r[1] for r in rr if len(r) == 2 and r[0] == BLANK and isinstance(r[1], int)]
    return out


def with_runs_cut(wb, limit):
    spec = rle(wb)
    for n, (h, rr) in spec.items():
        for r in rr:
            if len(r) == 2 and r[0] == BLANK and isinstance(r[1], int):
                r[1] = min(r[1], limit)
    return unrle(spec)


def describe(wb):
    d = []
    items = list(wb.items())
    if len(items) > 6:
        # many sheets: those with a run of rows without content, and the first two
        keep = [x for x in items if any(not any(r) for r in x[1][1])][:4] + items[:2]
        d.append(f"{len(items)} sheets, of which")
        items = [x for x in items if x in keep]
    for n, (h, rows) in items:
        content = sum(1 for r in rows if any(r))
        empty_cols = sum(1 for j in range(len(h)) if not any(r[j] for r in rows))
        d.append(f"{n!r}: {len(h)} columns ({empty_cols} without content), {len(rows)} rows ({content} with content), "
                 f"runs of rows without content {[r[1] for r in rle({n: (h, rows)})[n][1] if r[0] == BLANK and len(r) == 2 and isinstance(r[1], int)]}")
    return "; ".join(d)


# ------------------------------------------------------------------ generators

def _cell(rng):
    return rng.choice(SHAPE_CELLS) if rng.random() < 0.7 else c14.rand_cell(rng)


def _headers(rng, w):
    pool = list(c14.HEADER_POOL)
    if w <= len(pool) and rng.random() < 0.5:
        return rng.sample(pool, w)
    return [f"c{j}" for j in range(w)]


def _content_rows(rng, w, n, fill=0.6):
    rows = []
    for _ in range(n):
        r = [(_cell(rng) if rng.random() < fill else "") for _ in range(w)]
        if not any(r):
            r[rng.randrange(w)] = "z"
        rows.append(r)
    return rows


def _run_len(rng, big):
    if rng.random() < 0.75:
        return rng.choice([x for x in RUNS if x <= big] or [1])
    return rng.randint(1, big)


def gen_shape_workbook(rng, kind, big=2100):
    """-> (workbook, facts about its shape).  big: the order of magnitude of the long dimensions"""
    w = rng.choice([1, 2, 3, 4])
    h = _headers(rng, w)
    name = rng.choice(c14.NAME_POOL)
    blank = lambda k, w_=None: [[""] * (w_ or w) for _ in range(k)]  # noqa: E731
    if kind == "row-gap":
        rows = []
        for i in range(rng.choice([2, 2, 3, 4])):
            if i:
                rows += blank(_run_len(rng, big))
            rows += _content_rows(rng, w, rng.choice([1, 1, 2, 5]))
        wb = {name: (h, rows)}
    elif kind == "leading-gap":
        wb = {name: (h, blank(_run_len(rng, big)) + _content_rows(rng, w, rng.choice([1, 2, 4])))}
    elif kind == "trailing-gap":
        wb = {name: (h, _content_rows(rng, w, rng.choice([1, 2, 4])) + blank(_run_len(rng, big)))}
    elif kind == "col-gap":
        # columns without content between / before the columns with content
        wide = rng.choice([12, 30, 70, 130, 260, 300]) if big >= 300 else rng.choice([8, 12])
        keep = sorted(rng.sample(range(wide), rng.choice([1, 2, 3])))
        if rng.random() < 0.5:
            keep[-1] = wide - 1                      # content in the last column only / also
        if rng.random() < 0.4:
            keep = [k for k in keep if k > wide // 2] or [wide - 1]   # nothing near the origin
        hh = [f"c{j}" for j in range(wide)]
        rows = []
        for _ in range(rng.choice([1, 2, 3, 6])):
            r = [""] * wide
            for k in keep:
                if rng.random() < 0.8:
                    r[k] = _cell(rng)
            if not any(r):
                r[keep[-1]] = "z"
            rows.append(r)
        wb = {name: (hh, rows)}
    elif kind == "far-corner":
        wide = rng.choice([30, 80, 200]) if big >= 300 else 9
        deep = _run_len(rng, big)
        hh = [f"c{j}" for j in range(wide)]
        last = [""] * wide
        last[-1] = _cell(rng)
        rows = blank(deep, wide) + [last]
        if rng.random() < 0.5:
            first = [""] * wide
            first[0] = _cell(rng)
            rows = [first] + rows
        wb = {name: (hh, rows)}
    elif kind == "long":
        n = rng.choice([big // 2, big, big + big // 2])
        rows = [[(f"r{i}" if j == 0 else (_cell(rng) if rng.random() < 0.3 else "")) for j in range(w)] for i in range(n)]
        for i in rng.sample(range(n), 3):
            rows[i] = [""] * w            # the odd row without content inside a long table
        wb = {name: (h, rows)}
    elif kind == "wide":
        wide = rng.choice([100, 257, 400]) if big >= 300 else 20
        hh = [f"c{j}" for j in range(wide)]
        wb = {name: (hh, _content_rows(rng, wide, rng.choice([1, 2, 5]), fill=rng.choice([0.05, 0.5, 1.0])))}
    elif kind == "many-sheets":
        k = rng.choice([12, 33, 64]) if big >= 300 else 6
        wb = {}
        for i in range(k):
            ww = rng.choice([1, 2, 3])
            wb[f"s{i}"] = (_headers(rng, ww), _content_rows(rng, ww, rng.choice([1, 1, 2, 3])))
        if rng.random() < 0.5:
            # and a run of rows without content in one of the LAST sheets
            n = f"s{rng.randrange(k // 2, k)}"
            hh, rr = wb[n]
            wb[n] = (hh, rr + blank(_run_len(rng, big), len(hh)) + _content_rows(rng, len(hh), 1))
    elif kind == "mixed":
        wb = {}
        for kd in rng.sample(["row-gap", "leading-gap", "trailing-gap", "col-gap", "far-corner"], rng.choice([2, 3])):
            sub = gen_shape_workbook(rng, kd, big)
            for n, t in sub.items():
                wb[f"{kd} {len(wb)}"] = t
    elif kind == "flow-gap":
        wb = c14.rand_rpft_workbook(rng, None)
        for n in rng.sample(sorted(wb), rng.choice([1, 1, 2])):
            hh, rr = wb[n]
            rr = list(rr)
            if n == "plain flow" and len(rr) > 1 and rng.random() < 0.8:
                pos = rng.randrange(1, len(rr))       # BETWEEN two rows of the flow: the lower rows are nodes of the flow
            else:
                pos = rng.randrange(len(rr) + 1)
            run = rng.choice([999, 1000, 1001, 1200, 2048]) if rng.random() < 0.5 and big >= 2048 else _run_len(rng, big)
            wb[n] = (hh, rr[:pos] + blank(run, len(hh)) + rr[pos:])
    else:
        raise ValueError(kind)
    return wb


# ------------------------------------------------------------------ oracle

def expected_reads(wb):
    """what every format may read: the workbook itself, or the workbook without its rows without content"""
    return ({n: (h, rows) for n, (h, rows) in wb.items()}, c14.deleted_empty_rows(wb))


def read_oracle(wb, res):
    return c14.formats_oracle(res) and res["csv"][0] == "ok" and res["csv"][1] in expected_reads(wb)


def read_ok(wb, scratch, sparse):
    res, det = c14.read_all_formats(wb, scratch, sparse=sparse)
    shutil.rmtree(det["dir"], ignore_errors=True)
    return read_oracle(wb, res)


def compile_ok(wb, scratch, sparse):
    res, det = c14.read_all_formats(wb, scratch, sparse=sparse)
    comp = c14.compile_all_formats(det)
    shutil.rmtree(det["dir"], ignore_errors=True)
    return c14.compile_oracle(comp) and comp["csv"][0] == "ok"


def _least_failing(lo, hi, fails_at, probes=14):
    """fails_at(hi) is known to hold; bisect for the least n in (lo, hi] with fails_at(n) (exact when failing is monotone in n)"""
    while hi - lo > 1 and probes > 0:
        mid = (lo + hi) // 2
        probes -= 1
        if fails_at(mid):
            hi = mid
        else:
            lo = mid
    return hi


def minimise(wb, fails, drop_sheets=True):
    """fails(wb) -> bool.  Drop sheets (one by one; a long list of sheets: the shortest failing prefix), shrink every run of
    rows without content to the shortest failing length, then cut every long sheet to its shortest failing prefix of rows."""
    cur = wb
    if len(cur) > 6 and drop_sheets:
        names = list(cur)
        k = _least_failing(0, len(names), lambda n: fails({x: cur[x] for x in names[:n]}))
        cand = {x: cur[x] for x in names[:k]}
        if fails(cand):
            cur = cand
    if 1 < len(cur) <= 6 and drop_sheets:
        for n in list(cur):
            if len(cur) == 1:
                break
            cand = {k: v for k, v in cur.items() if k != n}
            if fails(cand):
                cur = cand
    spec = rle(cur)
    for n in spec:
        for idx, r in enumerate(spec[n][1]):
            if not (len(r) == 2 and r[0] == BLANK and isinstance(r[1], int)) or r[1] <= 1:
                continue
            top = r[1]

            def at(length, r=r):
                r[1] = length
                return fails(unrle(spec))
            r[1] = _least_failing(0, top, at)
    out = unrle(spec)
    if fails(out):
        cur = out
    for n in list(cur):
        h, rows = cur[n]
        if len(rows) > 50:
            k = _least_failing(0, len(rows), lambda m_: fails({**cur, n: (h, rows[:m_])}))
            cand = {**cur, n: (h, rows[:k])}
            if fails(cand):
                cur = cand
    return cur


def summarise(res):
    """per format: the error, or per sheet its size and the text cells of its last row; when there are many sheets only
    those on which the formats differ (and the number of sheets each format has)"""
    names = []
    for r in res.values():
        if r[0] == "ok":
            names += [n for n in r[1] if n not in names]
    show = names
    if len(names) > 4:
        def view(f, n):
            r = res[f]
            return r[1].get(n) if r[0] == "ok" else None
        show = [n for n in names if len({repr(view(f, n)) for f in res}) > 1][:4]
    out = {}
    for f, r in res.items():
        if r[0] != "ok":
            out[f] = r[:3]
        else:
            out[f] = {n: f"{len(t[0] or [])} columns, {len(t[1])} rows; last row (cells with text, by column) "
                         f"{ {j: c for j, c in enumerate(t[1][-1]) if c} if t[1] else None!r}"[:200] for n, t in r[1].items() if n in show}
            if len(names) > 4:
                out[f]["<sheets>"] = len(r[1])
            for n in show:
                if n not in r[1]:
                    out[f][n] = "<no such sheet>"
    return out


# ------------------------------------------------------------------ correspondence (model readers on the same files)

def _norm_grid(g):
    """trailing rows of None dropped, rows padded to the widest: the sparse and the dense writing of a sheet then give the
    same grid"""
    g = [list(r) for r in g]
    while g and not any(c is not None for c in g[-1]):
        g.pop()
    w = max([len(r) for r in g], default=0)
    return [r + [None] * (w - len(r)) for r in g]


def correspond(ctx, m, wb, res, det):
    grid = c14.load_grid(det["xlsx"])
    for name, (h, rows) in wb.items():
        what = f"sheet {name!r} of a workbook of shape [{describe({name: (h, rows)})}]"[:600]
        text = open(os.path.join(det["csv_dir"], name + ".csv"), "rb").read().decode("utf-8")
        mo = c14.dec_res(m.ask(f"(114 11 {enc_str(text)})"), c14.dec_table)
        im = ("ok", res["csv"][1][name]) if res["csv"][0] == "ok" and name in res["csv"][1] else ("err",)
        if (mo if mo[0] == "ok" else ("err",)) != im:
            ctx.disagree("CSVSheetReader sheet (shapes)", what, repr(mo)[:400], repr(im)[:400])
        g = grid.get(name)
        want = _norm_grid([[(c14.unl(c) if c != "" else None) for c in r] for r in [h] + rows])
        if g is None or _norm_grid(g) != want:
            ctx.disagree("openpyxl string-cell round trip (section hypothesis; shapes)", what, repr(want)[:300], repr(g)[:300])
        if g is not None and all(c is None or isinstance(c, str) for r in g for c in r):
            mx = c14.dec_res(m.ask(f"(114 6 {c14.enc_grid(g)})"), c14.dec_xtable)
            ix = ("ok", res["xlsx"][1][name]) if res["xlsx"][0] == "ok" and name in res["xlsx"][1] else ("err",)
            if (mx if mx[0] == "ok" else ("err",)) != ix:
                ctx.disagree("XLSXSheetReader sheet (shapes)", what, repr(mx)[:400], repr(ix)[:400])
        if res["json_direct"][0] == "ok" and "json_direct_book" in det and name in res["json_direct"][1]:
            content = det["json_direct_book"]["sheets"][name]
            mf = c14.dec_res(m.ask(f"(114 13 {c14.enc_jsheet(content)})"), c14.dec_table)
            if mf != ("ok", res["json_direct"][1][name]):
                ctx.disagree("JSONSheetReader sheet (workbook held in convert's format; shapes)", what, repr(mf)[:400],
                             repr(res["json_direct"][1][name])[:400])


class DeepModel(common.Model):
    """the extracted model as a co-process with a large stack: the extracted list functions are not tail recursive and a
    sheet of a few thousand rows is one long list of code points (the default 8 MB stack overflows)"""

    def __init__(self):
        import resource
        import subprocess

        def deep():
            soft, hard = resource.getrlimit(resource.RLIMIT_STACK)
            want = 4 << 30
            resource.setrlimit(resource.RLIMIT_STACK, (want if hard == resource.RLIM_INFINITY else min(want, hard), hard))

        self.p = subprocess.Popen([common.MODEL_BIN], stdin=subprocess.PIPE, stdout=subprocess.PIPE, text=True, bufsize=1 << 20,
                                  preexec_fn=deep)
        self.calls = 0


# ------------------------------------------------------------------ the stream

def run_shapes(ctx, scratch, nontrivial):
    v, rng, m = ctx.v, ctx.rng, ctx.model
    thorough = ctx.tier == "thorough"
    t0 = time.time()
    n_rand = (60 if thorough else 12) * ctx.scale
    big = 2100 if not thorough else 4200
    kinds = list(SHAPES) + [rng.choice(SHAPES) for _ in range(n_rand)]
    dist = {"workbooks": 0, "by_shape": {}, "xlsx_sparse": 0, "xlsx_dense": 0, "sheets": 0, "rows": 0, "rows_without_content": 0,
            "max_rows_in_a_sheet": 0, "max_columns_in_a_sheet": 0, "max_sheets": 0, "longest_run_of_rows_without_content": 0,
            "runs_of_1000_or_more": 0, "run_lengths": {}, "columns_without_content": 0, "compiled": 0, "compiled_ok": 0,
            "sheets_through_the_model": 0}
    samples = []
    reported = 0
    if m:
        m = DeepModel()
    try:
        reported = _shapes_loop(ctx, kinds, big, scratch, nontrivial, m, dist, samples)
    finally:
        if m:
            ctx.model.calls += m.calls
            m.close()
    dist["wall_s"] = round(time.time() - t0, 1)
    ctx.stats["sheet_shapes"] = dist
    return samples


def _shapes_loop(ctx, kinds, big, scratch, nontrivial, m, dist, samples):
    v, rng = ctx.v, ctx.rng
    reported = 0
    for k, kind in enumerate(kinds):
        wb = gen_shape_workbook(rng, kind, big)
        sparse = rng.random() < 0.5
        if sum(len(h) * (len(rows) + 1) for (h, rows) in wb.values()) > 30000:
            sparse = True              # (a dense XLSX of that area costs seconds to write)
        dist["workbooks"] += 1
        dist["by_shape"][kind] = dist["by_shape"].get(kind, 0) + 1
        dist["xlsx_sparse" if sparse else "xlsx_dense"] += 1
        dist["sheets"] += len(wb)
        dist["max_sheets"] = max(dist["max_sheets"], len(wb))
        for n, (h, rows) in wb.items():
            dist["rows"] += len(rows)
            dist["rows_without_content"] += sum(1 for r in rows if not any(r))
            dist["max_rows_in_a_sheet"] = max(dist["max_rows_in_a_sheet"], len(rows))
            dist["max_columns_in_a_sheet"] = max(dist["max_columns_in_a_sheet"], len(h))
            dist["columns_without_content"] += sum(1 for j in range(len(h)) if not any(r[j] for r in rows))
        for r in runs_of(wb):
            dist["longest_run_of_rows_without_content"] = max(dist["longest_run_of_rows_without_content"], r)
            dist["runs_of_1000_or_more"] += r >= 1000
            b = "1" if r == 1 else "2-9" if r < 10 else "10-99" if r < 100 else "100-999" if r < 1000 else "1000-1999" if r < 2000 else "2000+"
            dist["run_lengths"][b] = dist["run_lengths"].get(b, 0) + 1
        v.coverage["evaluations"] += 1
        nontrivial.add("shape%d" % k)
        res, det = c14.read_all_formats(wb, scratch, sparse=sparse)
        if m:
            correspond(ctx, m, wb, res, det)
            dist["sheets_through_the_model"] += len(wb)
        ok = read_oracle(wb, res)
        comp = None
        if ok and kind == "flow-gap":
            comp = c14.compile_all_formats(det)
            dist["compiled"] += 1
            v.coverage["evaluations"] += 1
            dist["compiled_ok"] += comp["csv"][0] == "ok"
        shutil.rmtree(det["dir"], ignore_errors=True)
        if not ok:
            reported += _report(ctx, wb, sparse, scratch, res, compiled=False, quiet=reported >= 2)
        elif comp is not None and not (c14.compile_oracle(comp) and comp["csv"][0] == "ok"):
            reported += _report(ctx, wb, sparse, scratch, comp, compiled=True, quiet=reported >= 2)
        if len(samples) < 3 and kind in ("row-gap", "far-corner", "flow-gap"):
            samples.append(dict(shape=kind, xlsx_sparse=sparse, workbook=describe(wb)[:400]))
    return reported


def _report(ctx, wb, sparse, scratch, res, compiled, quiet):
    """classify and minimise a failing workbook, report it"""
    v = ctx.v
    check = compile_ok if compiled else read_ok
    cut = with_runs_cut(wb, 1)
    why = ("the same workbook with every run of rows without content cut to one row reads alike" if cut != wb else
           "no run of rows without content longer than one: the size of the workbook itself")
    if cut != wb and not check(cut, scratch, sparse):
        # the runs are not the cause: the classes of harness/c14.py — unless the shortest failing part of the workbook is
        # still large (many sheets / rows / columns): then it is the size
        def oracle_on(w2):
            return check(w2, scratch, sparse)
        key = c14.classify(cut, oracle_on)
        small = cut
        if key == c14.K_GENERIC and not quiet:
            small = minimise(cut, lambda w2: not check(w2, scratch, sparse), drop_sheets=not compiled)
            if len(small) > 6 or any(len(rows) > 50 or len(h) > 20 for (h, rows) in small.values()):
                key = K_SHAPE_COMPILE if compiled else K_SHAPE
        r2, d2 = c14.read_all_formats(small, scratch, sparse=sparse)
        shutil.rmtree(d2["dir"], ignore_errors=True)
        v.failing_input(key, f"formats disagree on a workbook of shape [{describe(small)}] (xlsx cells without text "
                             f"{'not written' if sparse else 'written as empty strings'}; every run of rows without content already cut to "
                             f"one row): {summarise(r2)!r}"[:1500],
                        dict(fn="shape", spec=rle(small), sparse=sparse, compile=compiled))
        return 1
    # (the sheets of a compiled workbook refer to each other: only the runs are shrunk there)
    small = wb if quiet else minimise(wb, lambda w2: not check(w2, scratch, sparse), drop_sheets=not compiled)
    if compiled:
        summary = {f: (r[0], "…" if r[0] == "ok" else r[1:]) for f, r in res.items()}
        if small is not wb:
            r2, d2 = c14.read_all_formats(small, scratch, sparse=sparse)
            c2 = c14.compile_all_formats(d2)
            shutil.rmtree(d2["dir"], ignore_errors=True)
            summary = {f: (r[0], (f"{sum(len(fl.get('nodes', [])) for fl in r[1].get('flows', []))} nodes" if r[0] == "ok" else r[1:]))
                       for f, r in c2.items()}
        v.failing_input(K_SHAPE_COMPILE, f"create_flows differs between formats on a workbook of shape [{describe(small)}] "
                                         f"(xlsx cells without text {'not written' if sparse else 'written as empty strings'}; {why}): {summary!r}"[:1500],
                        dict(fn="shape", spec=rle(small), sparse=sparse, compile=True))
    else:
        r2 = res
        if small is not wb:
            r2, d2 = c14.read_all_formats(small, scratch, sparse=sparse)
            shutil.rmtree(d2["dir"], ignore_errors=True)
        v.failing_input(K_SHAPE, f"the readers disagree on a workbook of shape [{describe(small)}] (xlsx cells without text "
                                 f"{'not written' if sparse else 'written as empty strings'}; {why}): {summarise(r2)!r}"[:1500],
                        dict(fn="shape", spec=rle(small), sparse=sparse, compile=False))
    return 1


def replay_shape(r, scratch):
    wb = unrle({n: (t[0], t[1]) for n, t in r["spec"].items()})
    sparse = bool(r.get("sparse"))
    print("  workbook:", describe(wb))
    res, det = c14.read_all_formats(wb, scratch, sparse=sparse)
    for f, x in summarise(res).items():
        print("  ", f, x)
    ok = read_oracle(wb, res)
    if ok and r.get("compile"):
        comp = c14.compile_all_formats(det)
        for f, x in comp.items():
            print("  ", f, x[0], (json.dumps(x[1])[:200] if x[0] == "ok" else x[1:]))
        ok = c14.compile_oracle(comp) and comp["csv"][0] == "ok"
    shutil.rmtree(det["dir"], ignore_errors=True)
    return ok
