"""C16, instantiation-path stream (strengthening after wave 3).

The class of defect: whether an unknown name is REPORTED depends on the road by which the sheet that
holds it gets instantiated (FlowParser.parse vs parse_as_block, a callback / list on a throw-away
object, an entry point that never looks at what was collected).  The property quantifies over "all
templates x all contexts, every way a referenced name can be missing"; a cell is instantiated on
many roads, so the stream plants ONE reference (defined or unknown) at a generated site of a
generated workbook and reaches it through every road the toolkit has:

  roads     create_flow without data (arguments only) | create_flow naming a data row | bulk
            create_flow (one instance per data row) | insert_as_block at depth 1 and 2, with and
            without an own data row, inside and outside a begin_for of the inserting flow |
            TemplateSheetParser.parse_sheet | cells read with an EMPTY context (data-sheet cell,
            content-index cell, trigger sheet cell)
  columns   message_text, choices, image, condition (edge), include_if, the list of a begin_for,
            data_row_id / template_arguments of an insert_as_block row, save_name, group name
  forms     {{ x }}, text{{ x }}text, {{ x | filter }}, {{ 'a' ~ x }}, {% if x %}, {% if x == .. %},
            {% for q in x %}, {% set z = x %}, ternary, `is` tests over an operation on x, {@ x @},
            {@ x | filter @}
  ways      misspelt field, undeclared argument, absent data column, loop variable after end_for,
            undeclared loop index, attribute missing on a defined object, row / column missing in a
            sheet argument, variable of the INSERTING flow used inside a block, argument of a block
            used in the inserting flow, argument of another template
  guards    none (evaluated -> must be an error) | un-taken branch | short-circuited operand | row
            under a false include_if (literal, native False, rendered "false"; and falsy objects that
            are not the string "false": {@ none @}, {@ 0 @}, {@ [] @}) | inside a begin_block /
            begin_for that is excluded | loop over nothing | block whose insert row is excluded |
            branch taken only for ANOTHER data row

The expectation is known by construction (a small reference interpreter over the abstract segments):
`error` when the planted unknown name is evaluated in some generated instance, otherwise the exact
message texts of every flow ("defined references are replaced by exactly their value").  Model-free.
"""
import csv
import io
import os
import shutil
import tempfile

from common import run_cli_mode

MISSING = ("<missing>",)


class Evaluated(Exception):
    """the reference interpreter reached the planted unknown name"""


# ------------------------------------------------------------------ reference forms
def _s(v):
    return str(v)


# name -> (template with one %s for the reference, python value of the rendering, native?)
FORMS = {
    "expr": ("{{ %s }}", lambda v: _s(v)),
    "expr-tight": ("{{%s}}", lambda v: _s(v)),
    "expr-in-text": ("Hi {{ %s }}!", lambda v: f"Hi {v}!"),
    "filter-upper": ("m {{ %s | upper }}", lambda v: "m " + _s(v).upper()),
    "filter-length": ("n{{ %s | string | length }}", lambda v: "n" + str(len(_s(v)))),
    "filter-replace": ("{{ %s | replace('n', 'N') }}", lambda v: _s(v).replace("n", "N")),
    "filter-escape": ("{{ %s | string | escape }}", lambda v: _s(v).replace("\\", "\\\\").replace("|", "\\|").replace(";", "\\;")),
    "concat": ("{{ 'x' ~ %s }}", lambda v: "x" + _s(v)),
    "stmt-if": ("{%% if %s %%}T{%% else %%}F{%% endif %%}", lambda v: "T" if v else "F"),
    "stmt-if-eq": ("{%% if %s == 'Ann' %%}eqA{%% else %%}neA{%% endif %%}", lambda v: "eqA" if v == "Ann" else "neA"),
    "stmt-if-only": ("s{%% if %s %%}T{%% endif %%}", lambda v: "sT" if v else "s"),
    "stmt-for": ("f{%% for q in %s | string %%}.{%% endfor %%}", lambda v: "f" + "." * len(_s(v))),
    "stmt-set": ("{%% set z = %s %%}z={{ z }}", lambda v: "z=" + _s(v)),
    "stmt-set-bare": ("{%% set z = %s %%}{{ z }}", lambda v: _s(v)),
    "ternary": ("{{ 'Y' if %s else 'N' }}", lambda v: "Y" if v else "N"),
    "test-eq": ("t{{ %s == 'Ann' }}", lambda v: "t" + str(v == "Ann")),
    "test-in": ("i{{ 'n' in %s | string }}", lambda v: "i" + str("n" in _s(v))),
    "native": ("{@ %s @}", lambda v: _s(v)),
    "native-filter": ("{@ %s | string | upper @}", lambda v: _s(v).upper()),
    "native-concat": ("{@ 'x' ~ %s @}", lambda v: "x" + _s(v)),
}
TEXT_FORMS = [f for f in FORMS if not f.startswith("native")]
NATIVE_FORMS = [f for f in FORMS if f.startswith("native")]

# guards for text forms: the reference sits in a position that is not evaluated
TEXT_GUARDS = {
    "false-branch-literal": ("{%% if false %%}%s{%% else %%}ok{%% endif %%}", "ok"),
    "true-else": ("{%% if 1 == 1 %%}ok{%% else %%}%s{%% endif %%}", "ok"),
    "empty-for": ("g{%% for q in [] %%}%s{%% endfor %%}", "g"),
}
# guards on the bare reference (expression level)
EXPR_GUARDS = {
    "or-short": ("{{ 'ok' or %s }}", "ok"),
    "and-short": ("{{ false and %s }}", "False"),
    "native-or-short": ("{@ 'ok' or %s @}", "ok"),
}


def render_cell(form, ref):
    return FORMS[form][0] % ref


def value_of(form, v):
    return FORMS[form][1](v)


# ------------------------------------------------------------------ abstract workbook
NAMES = ["Ann", "Bob", "Cyn"]
CITIES = ["Rome", "Oslo", "Lima"]
HEAD = ["row_id", "type", "from", "condition", "include_if", "loop_variable", "message_text", "choices", "image",
        "save_name", "data_sheet", "data_row_id", "template_arguments"]


def row(**kw):
    return [kw.get(h, "") for h in HEAD]


def gen_book(rng, force=None):
    """An abstract workbook with exactly one planted reference.  Everything random is drawn here."""
    force = force or {}
    n_rows = rng.choice([1, 2, 3])
    ids = ["r1", "r2", "r3"][:n_rows]
    data = [dict(ID=i, name=NAMES[k], flag=rng.choice(["yes", "no"]), city=rng.choice(CITIES),
                 custom=dict(happy="H" + i, sad="S" + i)) for k, i in enumerate(ids)]
    road = force.get("road") or rng.choice([
        "create-plain", "create-plain", "create-single", "create-single", "create-bulk", "create-bulk", "create-bulk",
        "block-1", "block-1", "block-1", "block-1-data", "block-1-data", "block-1-in-loop", "block-1-in-loop",
        "block-2", "block-2", "block-2", "block-2-data", "block-2-data",
        "template-sheet-parser", "template-sheet-parser", "empty-context-data-cell", "empty-context-index-cell", "empty-context-trigger-cell"])
    main_mode = {"create-plain": "plain", "create-single": "single", "create-bulk": "bulk"}.get(road) or \
        rng.choice(["plain", "single", "bulk"])
    if road == "template-sheet-parser":
        main_mode = "tsp"
    single_id = rng.choice(ids)
    # which sheet carries the planted reference
    target = {"block-1": "blkA", "block-1-data": "blkA", "block-1-in-loop": "blkA", "block-2": "blkB", "block-2-data": "blkB"}.get(road, "main")
    a1 = rng.choice(["A1", "val", "Ann"])
    book = dict(ids=ids, data=data, road=road, main_mode=main_mode, single_id=single_id, a1=a1, target=target,
                blkA_data=road in ("block-1-data",) or (road.startswith("block-2") and rng.random() < 0.5),
                blkB_data=road == "block-2-data",
                blkA_in_loop=road == "block-1-in-loop" or (road.startswith("block-2") and rng.random() < 0.3),
                uses_blocks=road.startswith("block") or (not road.startswith("empty") and road != "template-sheet-parser" and rng.random() < 0.4))
    book["calls_B"] = road.startswith("block-2") or (book["uses_blocks"] and rng.random() < 0.4)
    if main_mode in ("plain", "tsp"):
        book["blkA_data_literal"] = True      # no data row in the inserting flow: the block names its row literally
    else:
        book["blkA_data_literal"] = rng.random() < 0.4
    book["plant"] = gen_plant(rng, book, force)
    book["fill"] = {s: [gen_fill(rng, book, s) for _ in range(rng.choice([0, 1, 2]))] for s in ("main", "blkA", "blkB")}
    return book


def sheet_has_data(book, sheet):
    if sheet == "main":
        return book["main_mode"] in ("single", "bulk", "tsp")
    return book["blkA_data"] if sheet == "blkA" else book["blkB_data"]


def defined_refs(book, sheet, in_loop=False):
    """reference texts that ARE defined in an instance of `sheet`, with a function ctx -> value"""
    refs = []
    if sheet_has_data(book, sheet):
        refs += [("name", lambda c: c["name"]), ("city", lambda c: c["city"]), ("ID", lambda c: c["ID"]),
                 ("custom.happy", lambda c: c["custom"]["happy"]), ("custom['sad']", lambda c: c["custom"]["sad"]),
                 ("flag", lambda c: c["flag"])]
    if sheet == "main" and book["main_mode"] != "tsp":
        refs += [("a1", lambda c: c["a1"]), ("a2", lambda c: c["a2"]), ("lk.x.col", lambda c: "Cx"), ("lk['y'].col", lambda c: "Cy")]
    if sheet == "blkA":
        refs += [("b1", lambda c: c["b1"])]
    if sheet == "blkB":
        refs += [("c1", lambda c: c["c1"])]
    if in_loop:
        refs += [("x", lambda c: c["x"]), ("i", lambda c: c["i"])]
    return refs


WAYS_ANY = ["misspelt-field", "undeclared-argument", "absent-data-column", "argument-of-another-template"]


def missing_ref(rng, book, sheet, site):
    """(way, reference text) of a name the context of `sheet` does not define at `site`"""
    ways = list(WAYS_ANY)
    if sheet_has_data(book, sheet):
        ways += ["attribute-missing-on-object", "attribute-missing-on-object"]
    if sheet == "main" and book["main_mode"] != "tsp":
        ways += ["row-missing-in-sheet-argument", "column-missing-in-sheet-argument"]
        if book["uses_blocks"]:
            ways += ["block-argument-in-inserting-flow"]
    if sheet in ("blkA", "blkB"):
        ways += ["variable-of-inserting-flow", "variable-of-inserting-flow"]
        if book["blkA_in_loop"]:
            ways += ["loop-variable-of-inserting-flow"]
    if site == "after-loop":
        ways = ["loop-variable-after-end_for"] * 3 + ["loop-index-after-end_for"]
    if site == "in-loop-noindex":
        ways = ways + ["undeclared-loop-index"] * 3
    way = rng.choice(ways)
    ref = {
        "misspelt-field": rng.choice(["nmae", "Name", "citty"]),
        "undeclared-argument": {"main": "a9", "blkA": "b9", "blkB": "c9"}[sheet],
        "absent-data-column": rng.choice(["phone", "custom_happy"]),
        "argument-of-another-template": {"main": "c1", "blkA": "c1", "blkB": "b1"}[sheet],
        "attribute-missing-on-object": rng.choice(["custom.angry", "custom['angry']", "name.first"]),
        "row-missing-in-sheet-argument": rng.choice(["lk.nosuch.col", "lk['w'].col"]),
        "column-missing-in-sheet-argument": "lk.x.nocol",
        "block-argument-in-inserting-flow": "b1",
        "variable-of-inserting-flow": "a1" if sheet == "blkA" or rng.random() < 0.5 else "b1",
        "loop-variable-of-inserting-flow": "x",
        "loop-variable-after-end_for": "x",
        "loop-index-after-end_for": "i",
        "undeclared-loop-index": "i",
    }[way]
    # a data-less main has no `name`; with data, `name.first` is an attribute of a str
    if ref == "name.first" and not sheet_has_data(book, sheet):
        ref = "nmae.first"
    return way, ref


def other_row_possible(book, sheet):
    """`ID` is defined in the instances of `sheet` and differs between them"""
    if len(book["ids"]) < 2 or book["main_mode"] == "tsp":
        return False
    if sheet == "main":
        return book["main_mode"] in ("single", "bulk")
    return sheet_has_data(book, sheet)


COLUMNS = ["message_text", "message_text", "message_text", "choices", "image", "condition", "include_if", "loop-list",
           "save_name", "group", "block-data_row_id", "block-template_arguments"]
ROW_GUARDS = ["false-include_if", "false-include_if-native", "false-include_if-rendered", "excluded-block", "excluded-loop",
              "loop-over-nothing", "excluded-insert-row", "falsy-include_if-none", "falsy-include_if-zero", "falsy-include_if-empty-list"]
# include_if cells that exclude the row without rendering as the string "false" (RowParser: bool(value) of a native object)
FALSY_INCLUDE = {"falsy-include_if-none": "{@ none @}", "falsy-include_if-zero": "{@ 0 @}", "falsy-include_if-empty-list": "{@ [] @}"}


def gen_plant(rng, book, force):
    """where the one planted reference sits and what it is"""
    road, sheet = book["road"], book["target"]
    if road.startswith("empty-context"):
        form = force.get("form") or rng.choice(["expr", "expr-in-text", "stmt-if", "filter-upper", "stmt-for", "native", "stmt-set"])
        # a cell read with the empty context: every name is unknown there
        return dict(sheet=None, column=road, form=form, ref=rng.choice(["nmae", "name", "x"]), way="empty-context", guard="none",
                    defined=False, site="cell")
    defined = force["defined"] if "defined" in force else (rng.random() < 0.18)
    column = force.get("column") or rng.choice(COLUMNS)
    if column.startswith("block-") and (sheet == "blkB" or book["main_mode"] == "tsp"):
        column = "message_text"
    if column == "block-data_row_id" and defined and not sheet_has_data(book, sheet):
        column = "block-template_arguments"
    if sheet == "main" and column.startswith("block-"):
        book["uses_blocks"] = True
    site = rng.choice(["top", "top", "in-loop", "in-loop-noindex", "after-loop"])
    if column in ("loop-list",):
        site = "top"
    native_ok = column in ("message_text", "include_if", "loop-list", "save_name", "image", "block-data_row_id")
    forms = TEXT_FORMS + (NATIVE_FORMS * 3 if native_ok else [])
    form = force.get("form") or rng.choice(forms)
    if column == "include_if":
        # the cell must read as a truth value: forms whose defined rendering is not "false"
        form = force.get("form") or rng.choice(["expr", "stmt-if", "stmt-if-eq", "ternary", "native", "stmt-set", "filter-upper", "concat"])
    if column == "loop-list":
        form = force.get("form") or rng.choice(["expr", "native", "filter-upper", "stmt-set", "concat", "stmt-if", "native-filter"])
    guard = "none"
    if not defined and "guard" in force:
        guard = force["guard"]
    elif not defined and rng.random() < 0.4:
        g = rng.choice(["text", "expr", "row", "row", "other-row", "other-row"])
        if g == "text" and form not in TEXT_FORMS:
            g = "row"
        if g == "other-row" and not (other_row_possible(book, sheet) and form in TEXT_FORMS):
            g = "expr"
        if g == "row" and column == "include_if":
            g = "expr"
        if g == "text" and form in TEXT_FORMS:
            guard = rng.choice(list(TEXT_GUARDS))
        elif g == "expr":
            guard = rng.choice(["or-short"] + (["and-short"] if column != "include_if" else []) + (["native-or-short"] if native_ok else []))
        elif g == "row" and column != "include_if":
            guard = rng.choice(ROW_GUARDS)
            if guard == "excluded-insert-row" and sheet == "main":
                guard = "false-include_if"
        elif g == "other-row" and other_row_possible(book, sheet) and form in TEXT_FORMS:
            guard = "only-for-another-data-row"
    if guard == "only-for-another-data-row" and not (other_row_possible(book, sheet) and form in TEXT_FORMS):
        guard = "none"
    if guard != "none" and column == "block-data_row_id":
        column = "block-template_arguments"     # an un-evaluated reference gives no row id
        if form in NATIVE_FORMS:
            form = "expr"
        if guard == "native-or-short":
            guard = "or-short"
    if guard in ("or-short", "and-short", "native-or-short"):
        form = guard
    if defined:
        if site in ("after-loop", "in-loop-noindex"):
            site = "top"
        refs = defined_refs(book, sheet, in_loop=site == "in-loop")
        ref = rng.choice([r for r, _ in refs])
        way = "defined"
        if column == "block-data_row_id":
            # the value must name a data row
            ref, form = "ID", rng.choice(["expr", "expr-tight", "native", "stmt-set-bare"])
    else:
        way, ref = missing_ref(rng, book, sheet, site)
    other = None
    if guard == "only-for-another-data-row":
        other = rng.choice(book["ids"])
    return dict(sheet=sheet, column=column, form=form, ref=ref, way=way, guard=guard, defined=defined, site=site, other=other)


def gen_fill(rng, book, sheet):
    """a segment made of DEFINED references only (every column, every form): the exact-value control"""
    refs = defined_refs(book, sheet)
    ref = rng.choice([r for r, _ in refs])
    kind = rng.choice(["msg", "msg", "choices", "cond", "incl", "loop", "save"])
    form = rng.choice(TEXT_FORMS + NATIVE_FORMS) if kind == "msg" else rng.choice(TEXT_FORMS)
    return dict(kind=kind, form=form, ref=ref, truth=rng.random() < 0.5, loop=rng.sample(["p", "q", "s"], rng.choice([1, 2, 3])))


# ------------------------------------------------------------------ rendering a sheet + reference interpreter
def lookup_ref(book, sheet, ref, ctx):
    for r, fn in defined_refs(book, sheet, in_loop=True):
        if r == ref:
            try:
                return fn(ctx)
            except KeyError:
                return MISSING
    return MISSING


class SheetBuilder:
    """Builds the CSV rows of one sheet and, in parallel, a program for the reference interpreter:
    prog = list of steps, each step(ctx, out) appends messages or raises Evaluated."""

    def __init__(self, book, sheet):
        self.book, self.sheet = book, sheet
        self.rows = [HEAD]
        self.prog = []
        self.nid = 0

    def rid(self):
        self.nid += 1
        return f"{self.sheet[0]}{self.nid}"

    # ---- cells
    def cell(self, form, ref, guard="none", other=None):
        """-> (cell text, fn(ctx) -> rendered str; raises Evaluated when the unknown name is evaluated)"""
        book, sheet = self.book, self.sheet
        if form in EXPR_GUARDS:
            text, val = EXPR_GUARDS[form]
            return text % ref, (lambda c: val)
        base = render_cell(form, ref)

        def ev(c):
            v = lookup_ref(book, sheet, ref, c)
            if v is MISSING:
                raise Evaluated(ref)
            return value_of(form, v)

        if guard in TEXT_GUARDS:
            text, val = TEXT_GUARDS[guard]
            return text % base, (lambda c: val)
        if guard == "only-for-another-data-row":
            text = "{%% if ID == '%s' %%}%s{%% else %%}ok{%% endif %%}" % (other, base)
            return text, (lambda c: ev(c) if c.get("ID") == other else "ok")
        return base, ev

    def msg(self, text_fn_pair, **kw):
        text, fn = text_fn_pair
        self.rows.append(row(type="send_message", message_text=text, **kw))
        self.prog.append(lambda c, out: out.append(fn(c)))

    def literal(self, s, **kw):
        self.rows.append(row(type="send_message", message_text=s, **kw))
        self.prog.append(lambda c, out: out.append(s))

    # ---- segments
    def site(self, column, cellpair, row_guard="none"):
        """one planted / filled reference in `column`"""
        text, fn = cellpair
        inc = dict({"false-include_if": "FALSE", "false-include_if-native": "{@ 1 == 2 @}",
                    "false-include_if-rendered": "{% if false %}x{% else %}false{% endif %}"}, **FALSY_INCLUDE).get(row_guard, "")
        skipped = bool(inc)
        b = self

        def guarded(step):
            if skipped:
                return lambda c, out: None
            return step

        if column == "message_text":
            self.rows.append(row(type="send_message", message_text=text, include_if=inc))
            self.prog.append(guarded(lambda c, out: out.append(fn(c))))
        elif column == "choices":
            self.rows.append(row(type="send_message", message_text="q", choices=text, include_if=inc))
            self.prog.append(guarded(lambda c, out: (fn(c), out.append("q"))))
        elif column == "image":
            self.rows.append(row(type="send_message", message_text="im", image=text, include_if=inc))
            self.prog.append(guarded(lambda c, out: (fn(c), out.append("im"))))
        elif column == "save_name":
            r = self.rid()
            self.rows.append(row(row_id=r, type="wait_for_response", save_name=text, include_if=inc))
            self.rows.append(row(type="send_message", message_text="after wait", include_if=inc, **{"from": r}))
            self.prog.append(guarded(lambda c, out: (fn(c), out.append("after wait"))))
        elif column == "group":
            self.rows.append(row(type="add_to_group", message_text=text, include_if=inc))
            self.prog.append(guarded(lambda c, out: fn(c)))
        elif column == "condition":
            r = self.rid()
            self.rows.append(row(row_id=r, type="split_by_value", message_text="@fields.k", include_if=inc))
            self.rows.append(row(type="send_message", message_text="c-yes", condition=text, include_if=inc, **{"from": r}))
            self.rows.append(row(type="send_message", message_text="c-no", include_if=inc, **{"from": r}))
            self.prog.append(guarded(lambda c, out: (fn(c), out.extend(["c-yes", "c-no"]))))
        elif column == "include_if":
            # the planted cell IS the inclusion condition; its defined renderings are never the text "false" — but a native
            # cell hands the OBJECT on, and a falsy object (the loop index 0) excludes the row (false alarm of the thorough
            # tier corrected: the reference used to expect the row for `{@ i @}` in the first iteration)
            self.rows.append(row(type="send_message", message_text="inc", include_if=text))
            book_, sheet_ = self.book, self.sheet

            def inc_step(c, out, text=text):
                fn(c)
                if text.startswith("{@") and text.endswith("@}") and "|" not in text and "~" not in text:
                    obj = lookup_ref(book_, sheet_, text[2:-2].strip(), c)
                    if obj is not MISSING and not isinstance(obj, str) and not obj:
                        return
                out.append("inc")
            self.prog.append(inc_step)
        elif column == "loop-list":
            self.rows.append(row(type="begin_for", loop_variable="y", message_text=text, include_if=inc))
            self.rows.append(row(type="send_message", message_text="it {{ y }}"))
            self.rows.append(row(type="end_for"))

            def step(c, out):
                v = fn(c)
                # a str cell is split on the separators: our defined values hold none -> one element
                out.append("it " + v)
            self.prog.append(guarded(step) if not skipped else (lambda c, out: None))
        elif column in ("block-data_row_id", "block-template_arguments"):
            self.block_call(inc=inc, planted=(column, text, fn))
        else:
            raise ValueError(column)

    def wrap_excluded(self, kind, body):
        """body() emits rows; nothing of them is evaluated"""
        if kind == "excluded-block":
            self.rows.append(row(type="begin_block", include_if="FALSE"))
            end = "end_block"
        elif kind == "excluded-loop":
            self.rows.append(row(type="begin_for", loop_variable="u", message_text="a;b", include_if="{@ 1 == 2 @}"))
            end = "end_for"
        else:  # loop-over-nothing
            self.rows.append(row(type="begin_for", loop_variable="u", message_text="{@ [] @}"))
            end = "end_for"
        n = len(self.prog)
        body()
        del self.prog[n:]
        self.rows.append(row(type=end))

    def loop(self, elems, body, index=True):
        """begin_for x;i over literal elems; body(builder) emits the body segments"""
        self.rows.append(row(type="begin_for", loop_variable="x;i" if index else "x", message_text=";".join(elems) + (";" if len(elems) == 1 else "")))
        n = len(self.prog)
        body()
        steps = self.prog[n:]
        del self.prog[n:]
        self.rows.append(row(type="end_for"))

        def step(c, out):
            for k, e in enumerate(elems):
                c2 = dict(c)
                c2["x"] = e
                if index:
                    c2["i"] = k
                else:
                    c2.pop("i", None)
                for s in steps:
                    s(c2, out)
        self.prog.append(step)

    def block_call(self, inc="", planted=None, in_loop_arg=None):
        """insert_as_block of the next sheet (main -> blkA -> blkB)"""
        book = self.book
        child = {"main": "blkA", "blkA": "blkB"}[self.sheet]
        with_data = book["blkA_data"] if child == "blkA" else book["blkB_data"]
        parent_has_data = sheet_has_data(book, self.sheet)
        idfn = None
        ds, did = "", ""
        if with_data:
            ds = "data"
            if parent_has_data and not book.get("blkA_data_literal"):
                did, idfn = "{{ID}}", (lambda c: c["ID"])
            else:
                lit = book["ids"][-1]
                did, idfn = lit, (lambda c: lit)
        argname = {"blkA": "b1", "blkB": "c1"}[child]
        if in_loop_arg:
            arg, argfn = "{{x}}{{i}}", (lambda c: f"{c['x']}{c['i']}")
        elif self.sheet == "main" and book["main_mode"] not in ("tsp",):
            arg, argfn = "{{a1}}", (lambda c: c["a1"])
        else:
            arg, argfn = "LIT", (lambda c: "LIT")
        if planted:
            column, text, fn = planted
            if column == "block-data_row_id":
                if not with_data:
                    ds = "data"
                    with_data = True
                did = text
                idfn = None     # the planted cell gives the row
            else:
                arg, argfn = text, fn
        skipped = bool(inc)
        pl_id = planted[2] if planted and planted[0] == "block-data_row_id" else None
        self.rows.append(row(type="insert_as_block", message_text=child, data_sheet=ds, data_row_id=did, template_arguments=arg, include_if=inc))

        def step(c, out):
            if skipped:
                return
            # cells of the row are rendered in column order: data_row_id before template_arguments
            cc = {}
            if with_data:
                if planted and planted[0] == "block-data_row_id":
                    rid_ = pl_id(c)
                else:
                    rid_ = idfn(c)
                rowd = next((r for r in book["data"] if r["ID"] == rid_), None)
                if rowd is None:
                    raise Evaluated("no such data row " + repr(rid_))   # KeyError in the toolkit: an error all the same
                a = argfn(c)
                cc.update(rowd)
            else:
                a = argfn(c)
            cc[argname] = a
            book["_run"](child, cc, out)
        self.prog.append(step)


def build_sheets(book):
    """-> dict sheet name -> SheetBuilder (rows + reference program)"""
    plant = book["plant"]
    builders = {}
    for sheet in ("main", "blkA", "blkB"):
        b = SheetBuilder(book, sheet)
        builders[sheet] = b
        b.literal("S:" + sheet, **({"from": "start"} if sheet == "main" else {}))
        fills = list(book["fill"][sheet])
        is_target = plant["sheet"] == sheet

        def emit_fill(f, b=b):
            cp = b.cell(f["form"], f["ref"])
            if f["kind"] == "msg":
                b.site("message_text", cp)
            elif f["kind"] == "choices":
                b.site("choices", cp)
            elif f["kind"] == "cond":
                b.site("condition", cp)
            elif f["kind"] == "save":
                b.site("save_name", cp)
            elif f["kind"] == "incl":
                t = "{@ 1 == 1 @}" if f["truth"] else "{{ 1 == 2 }}"
                b.rows.append(row(type="send_message", message_text="I:" + cp[0], include_if=t))
                if f["truth"]:
                    b.prog.append(lambda c, out, fn=cp[1]: out.append("I:" + fn(c)))
            elif f["kind"] == "loop":
                def body():
                    b.msg(("L:{{x}}:{{i}}:" + cp[0], (lambda c, fn=cp[1]: f"L:{c['x']}:{c['i']}:" + fn(c))))
                b.loop(f["loop"], body)

        if fills:
            emit_fill(fills.pop(0))
        if is_target:
            emit_plant(book, b)
        # the call of the next block
        planted_call = is_target and plant["column"].startswith("block-")
        if sheet == "main" and book["uses_blocks"] and not planted_call:
            inc = "FALSE" if (plant["guard"] == "excluded-insert-row" and plant["sheet"] in ("blkA", "blkB") and not
                              (plant["sheet"] == "blkB")) else ""
            if book["blkA_in_loop"]:
                b.loop(["a", "b"], lambda: b.block_call(inc=inc, in_loop_arg=True))
            else:
                b.block_call(inc=inc)
        if sheet == "blkA" and book["calls_B"] and not planted_call:
            inc = "FALSE" if (plant["guard"] == "excluded-insert-row" and plant["sheet"] == "blkB") else ""
            b.block_call(inc=inc)
        for f in fills:
            emit_fill(f)
        b.literal("E:" + sheet)
    return builders


def emit_plant(book, b):
    plant = book["plant"]
    guard = plant["guard"]
    row_guard = guard if guard in ("false-include_if", "false-include_if-native", "false-include_if-rendered") or guard in FALSY_INCLUDE else "none"
    cell_guard = guard if (guard in TEXT_GUARDS or guard == "only-for-another-data-row") else "none"

    def the_site():
        cp = b.cell(plant["form"], plant["ref"], cell_guard, plant.get("other"))
        b.site(plant["column"], cp, row_guard)

    def placed():
        if guard in ("excluded-block", "excluded-loop", "loop-over-nothing"):
            b.wrap_excluded(guard, the_site)
        else:
            the_site()

    site = plant["site"]
    if site == "top":
        placed()
    elif site == "in-loop":
        b.loop(["a", "b"], placed)
    elif site == "in-loop-noindex":
        b.loop(["a", "b"], placed, index=False)
    elif site == "after-loop":
        b.loop(["a", "b"], lambda: b.literal("in loop"))
        placed()


INDEX_HEAD = ["type", "sheet_name", "data_sheet", "data_row_id", "template_arguments", "new_name", "status"]


def csv_text(rows):
    buf = io.StringIO()
    w = csv.writer(buf, lineterminator="\n")
    for r in rows:
        w.writerow(r)
    return buf.getvalue()


def realise(book, keep_interp=False):
    """-> dict(files=..., expect='error' | {flow name: [messages]}, api=None | 'tsp')"""
    plant = book["plant"]
    builders = build_sheets(book)
    progs = {s: b.prog for s, b in builders.items()}

    def run(sheet, ctx, out):
        for step in progs[sheet]:
            step(ctx, out)
    book["_run"] = run
    data_rows = [["ID", "name", "flag", "city", "custom.happy", "custom.sad"]] + \
        [[d["ID"], d["name"], d["flag"], d["city"], d["custom"]["happy"], d["custom"]["sad"]] for d in book["data"]]
    lookup = [["ID", "col"], ["x", "Cx"], ["y", "Cy"]]
    mode = book["main_mode"]
    ci = [INDEX_HEAD,
          ["data_sheet", "data", "", "", "", "", ""], ["data_sheet", "lookup", "", "", "", "", ""],
          ["template_definition", "main", "", "", "a1;;|a2;;d2|lk;sheet;lookup", "", ""],
          ["template_definition", "blkA", "", "", "b1;;|", "", ""],
          ["template_definition", "blkB", "", "", "c1;;dflt|", "", ""]]
    insts = []          # (flow name, ctx)
    base = dict(a1=book["a1"], a2="d2")
    if mode == "plain":
        ci.append(["create_flow", "main", "", "", book["a1"], "", ""])
        insts.append(("main", dict(base)))
    elif mode == "single":
        ci.append(["create_flow", "main", "data", book["single_id"], book["a1"], "", ""])
        d = next(r for r in book["data"] if r["ID"] == book["single_id"])
        insts.append(("main - " + d["ID"], dict(d, **base)))
    elif mode == "bulk":
        ci.append(["create_flow", "main", "data", "", book["a1"], "", ""])
        for d in book["data"]:
            insts.append(("main - " + d["ID"], dict(d, **base)))
    else:   # tsp: TemplateSheetParser.parse_sheet(data table, flow table): one flow per data row, named by its ID
        for d in book["data"]:
            insts.append((d["ID"], dict(d)))
    files = {"content_index": csv_text(ci), "data": csv_text(data_rows), "lookup": csv_text(lookup)}
    for s, b in builders.items():
        files[s] = csv_text(b.rows)
    # cells read with the EMPTY context
    road = book["road"]
    cell = render_cell(plant["form"], plant["ref"]) if plant["form"] in FORMS else EXPR_GUARDS[plant["form"]][0] % plant["ref"]
    if road == "empty-context-data-cell":
        data_rows[1][3] = cell
        files["data"] = csv_text(data_rows)
    elif road == "empty-context-index-cell":
        ci[-1][5] = cell
        files["content_index"] = csv_text(ci)
    elif road == "empty-context-trigger-cell":
        ci.append(["create_triggers", "trig", "", "", "", "", ""])
        files["content_index"] = csv_text(ci)
        files["trig"] = csv_text([["type", "keywords", "flow", "groups", "exclude_groups", "match_type", "channel"],
                                  ["K", cell, "main" if mode == "plain" else insts[0][0], "", "", "", ""]])
    try:
        if road.startswith("empty-context"):
            raise Evaluated(plant["ref"])
        expect = {}
        for name, c in insts:
            out = []
            run("main", c, out)
            expect[name] = out
    except Evaluated:
        expect = "error"
    real = dict(files=files, expect=expect, api="tsp" if mode == "tsp" else None, guard=plant["guard"])
    if keep_interp:
        real["_interp"] = run       # run() reads book["_run"]: the caller keeps it until done
    else:
        book.pop("_run", None)
    return real


# ------------------------------------------------------------------ running the implementation
def flow_messages(flow):
    return [a.get("text") for n in flow["nodes"] for a in n["actions"] if a["type"] == "send_msg"]


def run_book(files, api=None):
    """-> ('ok', {flow name: [messages]}) | ('err', kind, message)"""
    d = tempfile.mkdtemp(prefix="c16path")
    cwd = os.getcwd()
    try:
        for name, text in files.items():
            with open(os.path.join(d, name + ".csv"), "w", encoding="utf8", newline="") as f:
                f.write(text)
        os.chdir(d)
        if api == "tsp":
            r = run_cli_mode(_run_tsp, files)
        else:
            from rpft.converters import create_flows
            r = run_cli_mode(create_flows, [d], None, "csv")
    finally:
        os.chdir(cwd)
        shutil.rmtree(d, ignore_errors=True)
    if r[0] == "ok":
        return ("ok", {fl["name"]: flow_messages(fl) for fl in r[1]["flows"]})
    return r


def _run_tsp(files):
    """TemplateSheetParser.parse_sheet: the documented pre-content-index road (one FlowParser.parse per data row)"""
    import tablib
    from rpft.parsers.common.cellparser import CellParser
    from rpft.parsers.common.model_inference import model_from_headers
    from rpft.parsers.common.rowparser import RowParser
    from rpft.parsers.creation.template_sheet_parser import TemplateSheetParser

    data = tablib.import_set(files["data"], format="csv")
    flow = tablib.import_set(files["main"], format="csv")
    model = model_from_headers("data", data.headers)
    cont = TemplateSheetParser(RowParser(model, CellParser())).parse_sheet(data, flow)
    return cont.render()


def judge(real, res):
    """-> None when the property holds on this workbook, else (key, summary)"""
    exp = real["expect"]
    if exp == "error":
        if res[0] == "ok":
            return ("missing-name-renders", f"no error; delivered {res[1]!r}")
        return None
    if res[0] != "ok":
        if real.get("guard") in FALSY_INCLUDE:
            return ("falsy-include_if-row-evaluated", f"the reference sits in a row that `include_if` = {FALSY_INCLUDE[real['guard']]} excludes, "
                                                      f"yet the run stops on it: {res[1:]!r}")
        return ("defined-not-exact", f"every evaluated reference is defined but the run stops: {res[1:]!r}")
    if res[1] != exp:
        return ("defined-not-exact", f"messages {res[1]!r}, expected {exp!r}")
    return None


def describe(book):
    p = book["plant"]
    return (f"road={book['road']} main={book['main_mode']} sheet={p['sheet']} column={p['column']} form={p['form']} "
            f"ref={p['ref']} way={p['way']} guard={p['guard']} site={p['site']}")


# ------------------------------------------------------------------ histories on ONE long-lived ContentIndexParser
# The objects a real run shares: one ContentIndexParser (its template/data registries) serves every
# _parse_flow / get_node_group call of the run.  A history is a sequence of such calls — flows for
# different data rows, blocks with different rows and arguments, whole parse_all_flows passes,
# repeated, failing ones in between — on ONE parser; each call must give what the reference
# interpreter says and what the same call gives on a parser built afresh from the same workbook.
def history_book(rng):
    """a workbook whose planted reference is evaluated for SOME instances only, whenever possible"""
    road = rng.choice(["create-bulk", "create-bulk", "block-1-data", "block-1", "block-2-data", "block-2", "block-1-in-loop"])
    force = dict(road=road)
    r = rng.random()
    if r < 0.55:
        force.update(defined=False, guard="only-for-another-data-row", form=rng.choice(TEXT_FORMS))
    elif r < 0.7:
        force.update(defined=True)
    book = gen_book(rng, force)
    if len(book["ids"]) < 2 or book["plant"]["guard"] in FALSY_INCLUDE:
        return history_book(rng)
    return book


def gen_ops(rng, book, n):
    ids = book["ids"]
    ops = []
    for _ in range(n):
        k = rng.random()
        if k < 0.45 and book["main_mode"] != "plain":
            ops.append(["flow", rng.choice(ids)])
        elif k < 0.55 and book["main_mode"] == "plain":
            ops.append(["flow", ""])
        elif k < 0.8 and book["uses_blocks"]:
            child = "blkB" if (book["calls_B"] and rng.random() < 0.5) else "blkA"
            with_data = book["blkA_data"] if child == "blkA" else book["blkB_data"]
            ops.append(["block", child, rng.choice(ids) if with_data else "", rng.choice(["LIT", "Ann", "w"])])
        elif k < 0.9:
            ops.append(["all"])
        else:
            ops.append(["flow", rng.choice(ids) if book["main_mode"] != "plain" else ""])
    if ops and rng.random() < 0.5:
        ops.append(list(rng.choice(ops)))      # a call repeated verbatim
    return ops


def expected_op(book, real, op):
    """-> 'error' | value, by the reference interpreter"""
    run = real["_interp"]
    try:
        if op[0] == "flow":
            c = dict(a1=book["a1"], a2="d2")
            if op[1]:
                c.update(next(r for r in book["data"] if r["ID"] == op[1]))
            out = []
            run("main", c, out)
            return out
        if op[0] == "block":
            c = {}
            if op[2]:
                c.update(next(r for r in book["data"] if r["ID"] == op[2]))
            c[{"blkA": "b1", "blkB": "c1"}[op[1]]] = op[3]
            out = []
            run(op[1], c, out)
            return out
        return real["expect"] if real["expect"] == "error" else dict(real["expect"])
    except Evaluated:
        return "error"


def build_parser(files):
    from rpft.converters import get_content_index_parser

    d = tempfile.mkdtemp(prefix="c16hist")
    try:
        for name, text in files.items():
            with open(os.path.join(d, name + ".csv"), "w", encoding="utf8", newline="") as f:
                f.write(text)
        return run_cli_mode(get_content_index_parser, [d], "csv", None, [])
    finally:
        shutil.rmtree(d, ignore_errors=True)


def apply_op(parser, book, op):
    """-> value | 'error'"""
    from rpft.rapidpro.models.containers import FlowContainer, RapidProContainer

    def go():
        if op[0] == "flow":
            fl = parser._parse_flow("main", "data" if op[1] else "", op[1], [book["a1"]], RapidProContainer(), "")
            return flow_messages(fl.render())
        if op[0] == "block":
            ng = parser.get_node_group(op[1], "data" if op[2] else "", op[2], [op[3]])
            fc = FlowContainer("blk")
            ng.add_nodes_to_flow(fc)
            return flow_messages(fc.render())
        cont = RapidProContainer()
        parser.parse_all_flows(cont)
        return {fl["name"]: flow_messages(fl) for fl in cont.render()["flows"]}
    r = run_cli_mode(go)
    return r[1] if r[0] == "ok" else "error"


def run_history(book, ops):
    """-> list of (op, expected, on the long-lived parser, on a fresh parser or None); None when the workbook does not load.
    The first call IS a call on a fresh parser; later ones are compared with the reference interpreter, and
    with a parser built afresh only when they deviate (to tell a history effect from a plain error)."""
    real = realise(book, keep_interp=True)
    p = build_parser(real["files"])
    if p[0] != "ok":
        return None
    long_lived = p[1]
    res = []
    for op in ops:
        exp = expected_op(book, real, op)
        got = apply_op(long_lived, book, op)
        fresh = None
        if got != exp:
            f = build_parser(real["files"])
            fresh = apply_op(f[1], book, op) if f[0] == "ok" else "error"
        res.append((op, exp, got, fresh))
    book.pop("_run", None)
    return res


def judge_history(res):
    """-> None | (key, summary, index of the first offending call)"""
    for k, (op, exp, got, fresh) in enumerate(res):
        if got == exp:
            continue
        note = " (the same call on a parser built afresh is right: the result depends on the calls before)" if fresh == exp else ""
        if exp == "error":
            return ("missing-name-renders", f"call {k} {op}: an unknown name is evaluated but the call delivers {got!r}" + note, k)
        return ("defined-not-exact", f"call {k} {op}: {got!r}, expected {exp!r}" + note, k)
    return None
