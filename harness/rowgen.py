"""Generators and reference notions for C07/C09 (row codec): random model descriptions,
instances, layouts; the domain of the round-trip statement written from the property text
(representable / admissible); helpers to run the implementation."""
import re

import rowlib
from rowlib import REQUIRED, STR, INT, FLOAT, BOOL, ULIST

ALPHA = ["a", "b", "|", ";", "\\", " ", "\n", "é", "1", "=", ":"]
NAMES = ["a", "b", "c", "ab", "d", "e1", "value", "name", "type", "x_y", "from_", "k"]
TMP = "\x01"


# ---------------------------------------------------------------------- strings
def rand_text(rng, names=(), maxlen=5):
    r = rng.random()
    if r < 0.12 and names:
        return rng.choice(list(names))          # a value equal to a field name
    if r < 0.2:
        return rng.choice(["", "True", "False", "false", "1", "a;b", "a|b", "\\", "a\\;b", "x=1", "k:v", "é|", ";", "|"])
    n = rng.choice([0, 1, 1, 2, 2, 3, 4, maxlen])
    return "".join(rng.choice(ALPHA) for _ in range(n))


def good_text(rng, names=(), nonblank=False):
    """a representable string: trimmed, no template opener, no U+0001"""
    for _ in range(50):
        s = rand_text(rng, names).strip()
        if nonblank and not s:
            continue
        return s
    return "a"


def rand_float(rng):
    return rng.choice([0.0, 1.5, -2.25, 10.0, 0.1, 3.0, 100.125, -0.5, 7.75])


# ---------------------------------------------------------------------- models
def gen_ty(rng, depth, allow_model=True):
    r = rng.random()
    if depth <= 0 or r < 0.45:
        return rng.choice([STR, STR, STR, INT, BOOL, FLOAT, ULIST])
    if r < 0.7:
        inner = gen_ty(rng, depth - 1, allow_model)
        if inner == ULIST:
            inner = STR
        return ("list", inner)
    if allow_model:
        return gen_model(rng, depth - 1, "Sub")
    return STR


def gen_default(rng, t, plain=0.75):
    """default of a field of type t (natives), or REQUIRED"""
    k = t[0]
    r = rng.random()
    if r < 0.08:
        return REQUIRED
    simple = r < plain
    if k == "str":
        return "" if simple else rng.choice(["x", "a", "d e"])
    if k == "int":
        return 0 if simple else rng.choice([1, -3, 12])
    if k == "float":
        return 0.0 if simple else rng.choice([1.5, -2.25])
    if k == "bool":
        return rng.choice([True, False])
    if k == "ulist":
        return [] if simple else rng.choice([["x"], ["a", "b"]])
    if k == "list":
        if simple:
            return []
        d = gen_default(rng, t[1], 0.3)
        return [] if d is REQUIRED else [d]
    if k == "model":
        return class_default(t) if simple else gen_value(rng, t, good=True)
    raise ValueError(k)


def class_default(t):
    """the instance with every field at its default (required fields get a filler)"""
    out = {}
    for (n, ft, d) in t[2]:
        out[n] = filler(ft) if d is REQUIRED else d
    return out


def filler(t):
    k = t[0]
    return {"str": "r", "int": 7, "float": 2.5, "bool": True, "ulist": ["r"], "list": []}.get(k) if k != "model" else class_default(t)


def gen_model(rng, depth, name="M", nmax=4, root=False):
    n = rng.randint(1, nmax) if not root else rng.randint(2, nmax + 2)
    names = rng.sample(NAMES, n)
    fields = []
    for fn in names:
        t = gen_ty(rng, depth)
        fields.append((fn, t, None))
    fields = [(fn, t, gen_default(rng, t)) for (fn, t, _) in fields]
    h2f, f2h = {}, {}
    if rng.random() < 0.25:
        # a renamed field: header h <-> field fn (symmetric unless malformed)
        fn = rng.choice(names)
        h = rng.choice(["hdr", "H", "alias", "from"])
        if h not in names:
            f2h[fn] = h
            r = rng.random()
            if r < 0.85:
                h2f[h] = fn
            elif r < 0.93:
                pass                                   # malformed: no way back
            else:
                h2f[h] = rng.choice(names)             # malformed: wrong way back
    return ("model", name, fields, h2f, f2h)


# ---------------------------------------------------------------------- values
def gen_value(rng, t, good=True, names=()):
    k = t[0]
    if k == "str":
        return good_text(rng, names) if good or rng.random() < 0.6 else rand_text(rng, names)
    if k == "int":
        return rng.choice([0, 1, -1, 5, 12, -30, 1000000007])
    if k == "float":
        return rand_float(rng)
    if k == "bool":
        return rng.random() < 0.5
    if k == "ulist":
        n = rng.choice([0, 1, 2, 2, 3])
        r = rng.random()
        if r < 0.6:
            return [good_text(rng, names, nonblank=good) for _ in range(n)]
        # nested content (only packable)
        return [[good_text(rng, names, nonblank=True) for _ in range(rng.choice([1, 2, 2, 3]))] if rng.random() < 0.6
                else good_text(rng, names, nonblank=True) for _ in range(max(n, 1))]
    if k == "list":
        n = rng.choice([0, 1, 1, 2, 2, 3])
        vals = [gen_value(rng, t[1], good, names) for _ in range(n)]
        if good and t[1][0] == "str" and rng.random() < 0.8:
            vals = [v if v else "z" for v in vals]
        return vals
    if k == "model":
        fnames = [f[0] for f in t[2]]
        out = {}
        for (n, ft, d) in t[2]:
            if d is not REQUIRED and rng.random() < 0.35:
                out[n] = d
            else:
                out[n] = gen_value(rng, ft, good, tuple(names) + tuple(fnames))
        return out
    raise ValueError(k)


# ---------------------------------------------------------------------- layouts
def compound_paths(t, v, prefix=()):
    """header paths (tuples of components) of every non-basic node the unparser can reach"""
    k = t[0]
    out = []
    if k in ("list", "ulist", "model") and prefix:
        out.append(prefix)
    if k == "list":
        for i, x in enumerate(v):
            out += compound_paths(t[1], x, prefix + (str(i + 1),))
    elif k == "ulist":
        for i, x in enumerate(v):
            if isinstance(x, list):
                out.append(prefix + (str(i + 1),))
    elif k == "model":
        for (n, ft, d) in t[2]:
            h = t[4].get(n, n)
            if h == n:
                out += compound_paths(ft, v[n], prefix + (h,))
    return out


def gen_layout(rng, t, v):
    paths = compound_paths(t, v)
    T = set()
    r = rng.random()
    if r < 0.25 or not paths:
        pass
    elif r < 0.35:
        T.add("*")
    else:
        for p in rng.sample(paths, rng.randint(1, min(3, len(paths)))):
            comps = list(p)
            if rng.random() < 0.4:
                comps = [("*" if c.isdigit() else c) for c in comps]
            if rng.random() < 0.1 and len(comps) > 1:
                comps[-1] = "*"
            T.add(".".join(comps))
    X = set()
    if rng.random() < 0.06 and paths:
        X.add(".".join(rng.choice(paths)))
    return T, X


# ---------------------------------------------------------------------- reference notions
def matches(comps, headers):
    """matches_headers, written from its documentation: header with * = one path component,
    matched as a prefix"""
    if not comps:
        return False
    prefix = ".".join(comps)
    for h in headers:
        rx = "^" + "".join("[^.]+" if c == "*" else re.escape(c) for c in h)
        if re.match(rx, prefix):
            return True
    return False


def text_ok(s):
    return s == s.strip() and "{{" not in s and "{%" not in s and "{#" not in s and TMP not in s


def name_ok(n):
    return n != "" and n == n.strip() and not any(c in n for c in ".:=*")


def nested_of(t, v):
    """to_nested_list with default elision, basic values as text; None = not expressible"""
    k = t[0]
    if k == "str":
        return v
    if k in ("int", "float"):
        return str(v)
    if k == "bool":
        return str(v)
    if k == "ulist":
        return [nested_u(x) for x in v]
    if k == "list":
        return [nested_of(t[1], x) for x in v]
    if k == "model":
        return [[n, nested_of(ft, v[n])] for (n, ft, d) in t[2] if d is REQUIRED or v[n] != d]
    raise ValueError(k)


def nested_u(x):
    return x if isinstance(x, str) else [nested_u(y) for y in x]


def depth(x):
    return 0 if isinstance(x, str) else 1 + max([depth(y) for y in x], default=0)


def cell_wf(x):
    """C08's domain: depth <= 2, lists non-empty, a list of >= 2 elements does not end in ''"""
    if isinstance(x, str):
        return text_ok(x)
    if len(x) == 0:
        return False
    if len(x) >= 2 and x[-1] == "":
        return False
    return all(cell_wf(y) for y in x)


def pairs_wf(x):
    """the key/value pairs a packed MODEL is written as: names and values are representable texts; a value may be
    the empty string (it is the value of a str field, not an element of a list of the instance: the property text
    excludes blank elements inside lists only)"""
    return len(x) > 0 and all(isinstance(p, list) and len(p) == 2 and all(isinstance(y, str) and text_ok(y) for y in p)
                              for p in x)


# Which domain packed models have.  True: the property text's (a str field of a packed model may hold "" under a
# non-blank default — finding packed-model-blank-value-under-nonblank-default).  False: the domain of the theorem on
# a tree whose join_from_lists drops an empty last element (C08's wfb on the pairs).  Only harness/c07.py switches it,
# and only to compare the theorem's domain with the oracle's on such a tree.
def packed_ok(t, v, blank_values=True):
    """the value can be written into ONE cell and read back"""
    k = t[0]
    x = nested_of(t, v)
    if depth(x) > 2:
        return False
    if k == "list" and v == []:
        return True                   # "" reads back as []
    if k == "model" and blank_values:
        if not pairs_wf(x):
            return False
    elif not cell_wf(x):
        return False
    if k == "list":
        # a one-level packed list of lists would read 'a;b' as [[a],[b]]: only via depth 2
        if t[1][0] in ("str", "int", "float", "bool"):
            return True
        if t[1][0] == "list":
            return t[1][1][0] in ("str", "int", "float", "bool")
        return False                  # lists of models / bare lists need 3 levels
    if k == "ulist":
        return True
    if k == "model":
        # key;value pairs: every written field basic, field names map to themselves
        for (n, ft, d) in t[2]:
            if d is REQUIRED or v[n] != d:
                if ft[0] not in ("str", "int", "float", "bool"):
                    return False
                if t[3].get(n, n) != n or not name_ok(n):
                    return False
        return True
    return False


def produces(t, v, comps, T):
    """number of columns unparse writes for v at prefix comps (excluded = {})"""
    k = t[0]
    if k in ("str", "int", "float", "bool") or matches(comps, T):
        return 1
    if k in ("list", "ulist"):
        return sum(produces(t[1] if k == "list" else (STR if isinstance(x, str) else ULIST), x, comps + [str(i + 1)], T)
                   for i, x in enumerate(v))
    if k == "model":
        n_ = 0
        for (n, ft, d) in t[2]:
            if d is not REQUIRED and v[n] == d:
                continue
            h = t[4].get(n, n)
            n_ += produces(ft, v[n], comps + [h], T) if h == n else 1
        return n_
    raise ValueError(k)


def in_domain(t, v, comps, T, blank_values=True):
    """representable(v) and admissible(v, layout T), for excluded = {} (blank_values: see packed_ok)"""
    k = t[0]
    if k == "str":
        return text_ok(v)
    if k in ("int", "bool"):
        return True
    if k == "float":
        return True
    if matches(comps, T):
        return packed_ok(t, v, blank_values)
    if k == "list":
        for i, x in enumerate(v):
            c = comps + [str(i + 1)]
            if produces(t[1], x, c, T) == 0 or not in_domain(t[1], x, c, T, blank_values):
                return False
        return True
    if k == "ulist":
        # spread: every element a trimmed string (a nested element cannot be addressed)
        return all(isinstance(x, str) and text_ok(x) for x in v)
    if k == "model":
        headers = {}
        for (n, ft, d) in t[2]:
            if not name_ok(n):
                return False
            if d is not REQUIRED and v[n] == d:
                continue
            h = t[4].get(n, n)
            if not name_ok(h) or h in headers:
                return False
            headers[h] = n
            if t[3].get(h, h) != n:
                return False              # the header does not lead back to the field
            c = comps + [h]
            if h == n:
                if produces(ft, v[n], c, T) == 0 or not in_domain(ft, v[n], c, T, blank_values):
                    return False
            else:
                if ft[0] == "str":
                    if not text_ok(v[n]):
                        return False
                elif ft[0] not in ("int", "float", "bool") and not packed_ok(ft, v[n], blank_values):
                    return False
        return True
    raise ValueError(k)


# ---------------------------------------------------------------------- implementation
def impl_unparse(parser, inst, T, X):
    d = parser.unparse_row(inst, set(T), set(X))
    return [(k, v if isinstance(v, str) else str(v)) for k, v in d.items()]
