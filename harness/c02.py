"""C02 — the compiled flow has exactly the control flow the sheet rows describe.
Per sheet: RowSem (Gallina reference meaning, Flow/RowSem.v) vs the flow the
implementation compiled from the CSV text, decided by the verified simulation checker
(Flow/Lts.v check_sound) in both directions — equality of behaviour for ALL input/outcome
sequences up to names the sheet does not fix."""
import copy
import json
import re

import comp_corr
import flowutil
import rowref
import sheetgen
from common import enc_str, parse_sexp

LEVEL = "translation_validation"


def refinement_on_model(ctx, rows):
    """the statement of C02_compile_refines_rowsem_std evaluated on the extracted model for this sheet: is the sheet in
    the fragment (fragb), does the model compile it, does it have a reference meaning, does the verified checker accept
    the pair.  In the fragment, with both defined, the theorem says: accepted."""
    m = ctx.model
    if not m:
        return
    try:
        q = "(120 3 %s %s)" % (enc_str("f1"), comp_corr.rows_sexp(rows))
    except (ValueError, KeyError):
        ctx.count("refinement: sheet outside the encodable vocabulary")
        return
    r = parse_sexp(m.ask(q))
    if not isinstance(r, list) or len(r) != 4:
        ctx.disagree("refinement evaluation: model could not read the sheet", dict(rows=rows), str(r), "")
        return
    frag, comp, ref, eq = r
    if not frag:
        ctx.count("refinement: sheet outside the fragment of the theorem")
        return
    ctx.count("refinement: sheets in the fragment of the theorem")
    if comp and ref:
        ctx.count("refinement: in fragment, compiles, has a reference meaning")
        if eq != 1:
            ctx.disagree("the extracted model contradicts C02_compile_refines_rowsem_std on this sheet", dict(rows=rows), str(r), "")


def strip_names(rows):
    """the same sheet inside the fragment of the refinement theorem: no node ids / node names"""
    import copy
    rows = copy.deepcopy(rows)
    for r in rows:
        r.pop("node_uuid", None)
        r.pop("node_name", None)
    return rows


def name_clashes(rows):
    """explicit category names of the sheet that are also a name the compiler invents for a condition of the sheet
    (generate_category_name: the arguments title-cased and joined by "_", "_alt" appended while taken), "Other" (the
    default category) or "No Response" - Comp/Refine.v: gnameb"""
    invented = {"Other", "No Response"}
    for r in rows:
        for e in r["edges"]:
            invented.add(e["value"].title())
            invented.add("None_" + e["value"].title())
    out = set()
    for r in rows:
        for e in r["edges"]:
            nm = e["name"]
            while nm:
                if nm in invented:
                    out.add(e["name"])
                if not nm.endswith("_alt"):
                    break
                nm = nm[:-4]
    return out


BUCKET_RE = re.compile(r"^Bucket \d+$")


def bucket_clashes(rows):
    """explicit names of the sheet that are spelt exactly like a name RandomRouter.add_choice invents for an unnamed
    bucket ("Bucket <n>")"""
    return {x for r in rows for e in r["edges"] for x in (e["name"], e["value"]) if BUCKET_RE.match(x)}


def declash(rows, buckets=True):
    """the same sheet with every explicit name that name_clashes (and, with `buckets`, bucket_clashes) report replaced
    - consistently, so that tests which share a category still share it - by a name nothing else in the sheet has.
    What the known findings category-name-clash / bucket-name-clash describe cannot happen in it."""
    rows = copy.deepcopy(rows)
    ren = {}
    for nm in sorted(name_clashes(rows)):
        ren[nm] = "Zq name %d" % len(ren)
    bren = {nm: "Zq bucket %d" % i for i, nm in enumerate(sorted(bucket_clashes(rows)))} if buckets else {}
    for r in rows:
        for e in r["edges"]:
            if e["name"] in ren:
                e["name"] = ren[e["name"]]
            if e["name"] in bren:
                e["name"] = bren[e["name"]]
            if e["value"] in bren:
                e["value"] = bren[e["value"]]
    return rows


def verdict_of(ctx, abstract, layout):
    """-> (checker verdict "1" / "0" / "2" or "rejected", written rows, headers, cells, flow) of one more sheet (no
    statistics, no report): used to tell WHY a sheet fails"""
    headers, cells = sheetgen.render_sheet(abstract, None, layout)
    rows = sheetgen.written_rows(abstract, headers)
    r = flowutil.compile_workbook(flowutil.single_flow_workbook("f1", headers, cells))
    if r[0] != "ok":
        return "rejected", rows, headers, cells, None
    flow = r[1]["flows"][0]
    return ctx.model.ask("(7 2 %s %s)" % (rowref.rows_sexp(rows), flowutil.flow_sexp(flow))), rows, headers, cells, flow


def minimise(ctx, abstract, layout, budget=200):
    """a smaller sheet that still compiles, still has a reference meaning and is still rejected by the checker: rows,
    then single edges, are left out greedily (a row that others name cannot go: the sheet would not compile)"""
    cur = abstract
    changed = True
    while changed and budget > 0:
        changed = False
        for i in reversed(range(len(cur))):
            if len(cur) <= 1 or budget <= 0:
                break
            cand = cur[:i] + cur[i + 1:]
            budget -= 1
            if verdict_of(ctx, cand, layout)[0] == "2":
                cur, changed = cand, True
        for i in range(len(cur)):
            for j in reversed(range(len(cur[i]["edges"]))):
                if len(cur[i]["edges"]) <= 1 or budget <= 0:
                    break
                cand = copy.deepcopy(cur)
                del cand[i]["edges"][j]
                budget -= 1
                if verdict_of(ctx, cand, layout)[0] == "2":
                    cur, changed = cand, True
    return cur


def model_agrees(ctx, rows, headers, cells, flow):
    """the compiler MODEL (Comp/Compile.v, extracted) against the flow the implementation compiled from this sheet:
    the whole rendered flow up to a renaming of invented uuids (comp_corr.py; C01 runs this on its own sheets, here
    it is run on the sheets whose words collide with the names the tool invents).  rows = the written rows."""
    try:
        mo = comp_corr.model_compile(ctx.model, rows)
    except (ValueError, KeyError):
        ctx.count("names: model correspondence - sheet outside the encodable vocabulary")
        return
    case = dict(label="reserved names", rows=rows, headers=headers, cells=[[c.get(h, "") for h in headers] for c in cells])
    if mo[0] != "ok":
        ctx.disagree("compile verdict differs (model vs create_flows)", case, repr(mo[:2]), "ok")
        return
    given = {r.get("node_uuid") for r in rows if r.get("node_uuid")}
    cm, ci = comp_corr.canon(mo[1], given), comp_corr.canon(comp_corr.impl_flow(flow), given)
    if not comp_corr.ascii_only(rows):
        ctx.count("names: model correspondence - non-ASCII condition (names not compared)")
        for c in (cm, ci):
            for n in c["nodes"]:
                if "router" in n:
                    n["router"]["categories"] = [(u, "", x) for (u, _, x) in n["router"]["categories"]]
    d = comp_corr.first_difference(cm, ci)
    if d:
        ctx.disagree("compiled flow differs (model vs create_flows): " + d, case, json.dumps(cm)[:1500], json.dumps(ci)[:1500])
    else:
        ctx.count("names: model correspondence - flows equal (names of all categories included)")


def has_group_from_noop(rows):
    """does an edge with a has_group test (and a value) leave a no_op row?"""
    noops = {r["row_id"] for r in rows if r["type"] == "no_op" and r.get("row_id")}
    prev_noop = False
    for r in rows:
        for i, e in enumerate(r["edges"]):
            if e["ctype"] == "has_group" and e["value"] and (e["from"] in noops or (e["from"] == "" and i == 0 and prev_noop)):
                return True
        if r["type"] in sheetgen.NODE_TYPES or r["type"] == "no_op":
            prev_noop = r["type"] == "no_op"
    return False


def judge(ctx, rows, layout_rng, nontrivial, samples, wf=True, model_too=False):
    v, m = ctx.v, ctx.model
    headers, cells = sheetgen.render_sheet(rows, layout_rng)
    layout = "short" if "from" in headers else "long"
    # the rows as the rendered sheet holds them: with the edges.N.* headers every row has as many edge entries as the
    # widest row, the missing ones blank.  The reference does not read a blank entry as an edge, in any kind of row.
    abstract, rows = rows, sheetgen.written_rows(rows, headers)
    if any(len(a["edges"]) != len(b["edges"]) for a, b in zip(abstract, rows)):
        ctx.count("sheets with blank padding entries in the edge columns")
        for a, b in zip(abstract, rows):
            if len(a["edges"]) != len(b["edges"]):
                ctx.count("padded rows: " + a["type"])
    if any(e["ctype"] == "has_group" for r in rows for e in r["edges"]):
        ctx.count("sheets with a has_group test on an edge")
    refinement_on_model(ctx, rows)
    r = flowutil.compile_workbook(flowutil.single_flow_workbook("f1", headers, cells))
    v.coverage["evaluations"] += 1
    rs = rowref.rows_sexp(rows)
    if r[0] != "ok":
        ctx.count("impl_rejects")
        if m and wf:
            ref = m.ask("(7 1 %s)" % rs)
            if ref != "()":
                if r[1] == "critical" and name_clashes(rows) & {"Other", "No Response"}:
                    # a tree that refuses a category named like the default / No Response category (one way of repairing
                    # the finding category-name-clash) complies: there is no compiled flow to judge
                    ctx.count("rejected: explicit category name of a reserved category")
                elif r[1] == "IndexError" and any(e["ctype"] == "has_group" and e["value"] for x in rows for e in x["edges"]):
                    # the only IndexError a has_group test can cause: SwitchRouter.record_global_uuids reads arguments[1]
                    frm = "leaving a no_op decision" if has_group_from_noop(rows) else "of a row that is not a group split"
                    v.failing_input("has_group-condition-from-no_op" if has_group_from_noop(rows) else "has_group-condition-outside-group-split",
                                    f"a has_group test on an edge {frm}: the sheet has a meaning but does not compile (IndexError when the container is validated)",
                                    dict(headers=headers, cells=[[c.get(h, "") for h in headers] for c in cells], rows=rows, trace=None))
                else:
                    ctx.disagree("reference accepts a sheet the implementation rejects", dict(rows=rows, error=r[1:]), "Some", "Err")
        return
    flow = r[1]["flows"][0]
    if not m:
        return
    res = m.ask("(7 2 %s %s)" % (rs, flowutil.flow_sexp(flow)))
    if model_too and m:
        model_agrees(ctx, rows, headers, cells, flow)
    if res == "1":
        ctx.count("equivalent")
        key = json.dumps([(x["type"], len(x["edges"])) for x in rows])
        if len(rows) >= 3 and any(not sheetgen.blank_cond(e) for x in rows for e in x["edges"]):
            nontrivial.add(key)
        if len(samples) < 3:
            samples.append(dict(headers=headers, rows=[[c.get(h, "") for h in headers] for c in cells]))
    elif res == "0":
        ctx.count("outside_reference_domain")
        if wf:
            ctx.disagree("implementation compiles a sheet the reference rejects", dict(rows=rows), "None", "Ok")
    elif res == "2":
        if not wf:
            ctx.count("differs_on_ill_formed_sheet(not judged)")
            return
        ref = parse_sexp(m.ask("(7 1 %s)" % rs))
        tr = flowutil.distinguishing_trace(rowref.flow_from_sexp(ref[0]), flow) if ref else None
        if tr is None:
            ctx.disagree("checker rejects but no distinguishing sequence found", dict(rows=rows), "2", "")
        else:
            clash, bclash = name_clashes(rows), bucket_clashes(rows)
            key = "control-flow-differs"
            failing = abstract
            if clash or bclash:
                # the known findings are about EXPLICIT names that are also the name of another category.  Are they
                # why this sheet fails?  The same sheet with those names replaced by names nothing else has:
                res2 = None
                if clash:
                    res2, rows2, headers2, cells2, flow2 = verdict_of(ctx, declash(abstract, buckets=False), layout)
                    if res2 == "1":
                        key = "category-name-clash"
                if bclash and res2 != "1":
                    res2, rows2, headers2, cells2, flow2 = verdict_of(ctx, declash(abstract), layout)
                    if res2 == "1":
                        key = "bucket-name-clash"
                if res2 == "1":
                    ctx.count("failing sheets that pass once the clashing explicit names are replaced: " + key)
                elif res2 == "2":
                    # no: it fails without them - that sheet is the failing input
                    ref2 = parse_sexp(m.ask("(7 1 %s)" % rowref.rows_sexp(rows2)))
                    tr2 = flowutil.distinguishing_trace(rowref.flow_from_sexp(ref2[0]), flow2) if ref2 else None
                    if tr2 is not None:
                        rows, headers, cells, tr, clash, bclash, failing = rows2, headers2, cells2, tr2, set(), set(), declash(abstract)
                    ctx.count("failing sheets that still fail once the clashing explicit names are replaced")
            if key == "control-flow-differs" and v.viol_by_key.get(key, 0) < 2 and not any(k["key"] == key for k in v.known):
                # this one is written out as a replay: make it small
                small = minimise(ctx, failing, layout)
                res3, rows3, headers3, cells3, flow3 = verdict_of(ctx, small, layout)
                ref3 = parse_sexp(m.ask("(7 1 %s)" % rowref.rows_sexp(rows3))) if res3 == "2" else None
                tr3 = flowutil.distinguishing_trace(rowref.flow_from_sexp(ref3[0]), flow3) if ref3 else None
                if tr3 is not None:
                    ctx.count("replays minimised: rows %d -> %d" % (len(rows), len(rows3)))
                    rows, headers, cells, tr = rows3, headers3, cells3, tr3
            v.failing_input(key,
                            (f"explicit category name(s) {sorted(clash | bclash)!r} are also the name of another category of the router; " if key != "control-flow-differs" else "")
                            + f"input/outcome sequence {tr!r} separates the rows' meaning from the compiled flow",
                            dict(headers=headers, cells=[[c.get(h, "") for h in headers] for c in cells], rows=rows, trace=tr))
    else:
        ctx.disagree("model could not read the case", dict(rows=rows), res, "")


def run(ctx):
    thorough = ctx.tier == "thorough"
    n = (20000 if thorough else 500) * ctx.scale
    nontrivial, samples = set(), []
    for i in range(n):
        rng = ctx.rng
        wf = rng.random() > 0.12
        rows, g = sheetgen.gen_core_sheet(rng, rng.choice([2, 3, 4, 6, 10, 15]), wf=wf, special_text=rng.random() < 0.6,
                                          has_group=rng.random() < 0.4, clash_names=rng.random() < 0.3)
        if not rows:
            continue
        judge(ctx, rows, rng, nontrivial, samples, wf=wf)
    # the same kind of sheets inside the fragment of the refinement theorem (no node ids)
    for i in range(n // 4):
        rng = ctx.rng
        rows, g = sheetgen.gen_core_sheet(rng, rng.choice([2, 4, 6, 10, 15]), wf=True, special_text=rng.random() < 0.5)
        if rows:
            ctx.count("fragment_sheets")
            before = ctx.stats.get("refinement: sheets in the fragment of the theorem", 0)
            judge(ctx, strip_names(rows), rng, nontrivial, samples, wf=True)
            if ctx.stats.get("refinement: sheets in the fragment of the theorem", 0) > before:
                ctx.count("fragment_sheets inside the fragment")
    # words that are also names the tool invents or reserves, in every position a sheet can hold them (sheetgen.Gen
    # collide mode): a small vocabulary per sheet, so that values meet the invented names and one another, in every
    # order of the edges of a decision; these sheets also go through the compiler model (all category names compared)
    tags = {}
    for i in range(n // 2):
        rng = ctx.rng
        wf = rng.random() > 0.1
        rows, g = sheetgen.gen_core_sheet(rng, rng.choice([3, 4, 6, 10, 15]), wf=wf, special_text=rng.random() < 0.3,
                                          has_group=rng.random() < 0.5, clash_names=rng.random() < 0.15, collide=True)
        if not rows:
            continue
        ctx.count("reserved_name_sheets")
        for t, k in g.tags.items():
            tags[t] = tags.get(t, 0) + k
        judge(ctx, strip_names(rows) if rng.random() < 0.5 else rows, rng, nontrivial, samples, wf=wf, model_too=True)
    # histories on ONE node group: a decision and 3..9 edges leaving it, all words from a vocabulary of one or two
    # reserved words (sheetgen.gen_star_sheet).  FlowParser applies the edges one after the other to the same
    # RowNodeGroup / NoOpNodeGroup and router: every edge meets the categories - and the invented names - the earlier
    # ones left behind.  EVERY PREFIX of the sheet (the state after each edge) is judged: the compiled flow against
    # the meaning of the rows by the verified checker, and against the compiler model with all category names.
    hist = {}
    for i in range(n // 5):
        rng = ctx.rng
        rows, base, g = sheetgen.gen_star_sheet(rng, rng.choice([3, 4, 5, 7, 9]), clash_names=rng.random() < 0.1)
        ctx.count("star_sheets")
        for t, k in g.tags.items():
            tags[t] = tags.get(t, 0) + k
        hist[len(rows) - base] = hist.get(len(rows) - base, 0) + 1
        before = sum(ctx.v.viol_by_key.values()) + sum(ctx.v.known_hits.values())
        for k in range(base + 1, len(rows) + 1):
            ctx.count("star_sheet prefixes judged")
            judge(ctx, rows[:k], rng, nontrivial, samples, wf=True, model_too=True)
            if sum(ctx.v.viol_by_key.values()) + sum(ctx.v.known_hits.values()) > before:
                break       # the first edge after which the flow is wrong: longer prefixes repeat it
    ctx.stats["star sheets by number of edges leaving the decision"] = dict(sorted(hist.items()))
    ctx.stats["reserved names written (collide mode), by kind"] = dict(sorted(tags.items()))
    # node merging through the node name (rows sharing a _nodeId), written deliberately
    for i in range(n // 10):
        rng = ctx.rng
        rows, g = sheetgen.gen_merge_sheet(rng, rng.choice([2, 4, 7]))
        ctx.count("merge_sheets")
        judge(ctx, rows, rng, nontrivial, samples, wf=True)
    ctx.v.coverage["programs"] = ctx.stats.get("equivalent", 0)
    ctx.v.coverage["disagreements_checked"] = len(ctx.disagreements) + sum(ctx.v.viol_by_key.values())
    ctx.v.coverage["distinct_nontrivial"] = len(nontrivial)
    ctx.v.coverage["samples"] = samples
    ctx.v.coverage["rule"] = (
        "generated core-vocabulary sheets (88% inside wf_core by construction, 12% ill-formed: repeated defaults, duplicate tests, "
        "several operands), 2..15 rows, all row types of the core vocabulary, joins, go_to cycles, no_op forwarding and no_op "
        "decisions, anonymous rows, short and long edge headers, texts with separators/newlines/non-ASCII; each compiled by "
        "rpft.converters.create_flows from CSV files and compared with RowSem by the Coq-verified checker. "
        "Plus (strengthening after wave 3): sheets whose words come from a small per-sheet vocabulary of names the tool invents or reserves "
        "(Other, No Response, Bucket <n>, Success/Failure, Complete/Expired, start, None, ... in every capitalisation; as condition values, explicit "
        "category names, bucket / group names, row ids, result names) and star sheets (one decision, 3-9 edges, one or two such words), every "
        "prefix of a star sheet judged; these also compared with the compiler model, category names included. "
        "non-trivial = distinct (row type, edge count) profile with >= 3 rows and at least one conditional edge")
    ctx.v.assumptions += [
        "expected action payloads and initial decisions per row type (harness/rowref.py) are written from the RapidPro flow spec",
        "canonical payload = rendered action minus its own uuid and the uuids of referenced groups/flows (C06's subject)",
        "tests are uninterpreted: a decision resolves to any case, the default, or the timeout branch",
    ]


def replay(rep):
    import common
    r = rep["replay"]
    m = common.Model()
    out = flowutil.compile_workbook(flowutil.single_flow_workbook("f1", r["headers"], [dict(zip(r["headers"], c)) for c in r["cells"]]))
    if out[0] != "ok":
        return False      # the reference gives the sheet a meaning (that is why it was reported): it must compile
    res = m.ask("(7 2 %s %s)" % (rowref.rows_sexp(r["rows"]), flowutil.flow_sexp(out[1]["flows"][0])))
    m.close()
    return res == "1"
