"""C12 — a template instantiated in bulk equals the same template instantiated row by row.

(a)  correspondence E5 Args/Bulk <-> ContentIndexParser.map_template_arguments_to_context and
     parse_all_flows/_parse_flow/get_node_group (FlowParser replaced by a recorder, so what is
     compared is exactly what the model covers: instances, order, names, contexts, dict
     overwrite, threading, stops);
(b)  the property's own oracle on the real implementation: generated workbooks (CSV folders)
     compiled by rpft.converters.create_flows as index A (bulk rows), index B (one row per ID),
     index P (B with the instances permuted) and one index per instance compiled ALONE;
     full flow JSON compared up to a bijective renaming of invented UUIDs; flow names and
     message texts compared with a small reference written from the property text.
"""
import copy
import csv
import io
import json
import os
import re
import shutil
import tempfile

from common import enc_str, parse_sexp, dec_str, run_cli_mode

LEVEL = "proof"

UUID_RE = re.compile(r"^[0-9a-f]{8}-[0-9a-f]{4}-[0-9a-f]{4}-[0-9a-f]{4}-[0-9a-f]{12}$")


# =====================================================================================
# encodings for the model
# =====================================================================================
def enc_nv(v):
    if isinstance(v, str):
        return "(0 " + enc_str(v) + ")"
    return "(1 (" + " ".join(enc_nv(x) for x in v) + "))"


def dec_nv(x):
    if x[0] == 0:
        return dec_str(x[1])
    return [dec_nv(y) for y in x[1]]


def enc_drow(r):      # list of (field, nv)
    return "(" + " ".join(f"({enc_str(k)} {enc_nv(v)})" for k, v in r) + ")"


def enc_dsheet(s):    # list of (id, drow)
    return "(" + " ".join(f"({enc_str(i)} {enc_drow(r)})" for i, r in s) + ")"


def enc_sheets(ss):   # list of (name, dsheet)
    return "(" + " ".join(f"({enc_str(n)} {enc_dsheet(s)})" for n, s in ss) + ")"


def enc_defs(defs):
    return "(" + " ".join(f"({enc_str(n)} {enc_str(t)} {enc_str(d)})" for n, t, d in defs) + ")"


def enc_args(args):
    return "(" + " ".join(enc_nv(a) for a in args) + ")"


def enc_ctx_data(c):  # list of (key, nv) all VData
    return "(" + " ".join(f"({enc_str(k)} (0 {enc_nv(v)}))" for k, v in c) + ")"


def dec_cval(x):
    if x[0] in (0, 1):
        return dec_nv(x[1])
    return [(dec_str(i), [(dec_str(k), dec_nv(v)) for k, v in r]) for i, r in x[1]]


def dec_ctx(x):
    return [(dec_str(k), dec_cval(v)) for k, v in x]


def is_err(x):
    return isinstance(x, list) and len(x) == 2 and x[0] == 999999


# =====================================================================================
# python values -> comparable form
# =====================================================================================
def py_val(v):
    """context value of the implementation -> the model's vocabulary"""
    from collections import OrderedDict
    if isinstance(v, str):
        return v
    if isinstance(v, (list, tuple)):
        return [py_val(x) for x in v]
    if isinstance(v, (dict, OrderedDict)):
        return [(k, [(f, py_val(x)) for f, x in dict(r).items()]) for k, r in v.items()]
    return ("?", repr(v))


def py_ctx(c):
    return [(k, py_val(v)) for k, v in c.items()]


# =====================================================================================
# writing workbooks
# =====================================================================================
def csv_text(rows):
    buf = io.StringIO()
    w = csv.writer(buf, lineterminator="\n")
    for r in rows:
        w.writerow(r)
    return buf.getvalue()


def write_book(d, sheets):
    os.makedirs(d, exist_ok=True)
    for name, rows in sheets.items():
        with open(os.path.join(d, name + ".csv"), "w", newline="", encoding="utf8") as f:
            f.write(csv_text(rows))


def compile_book(sheets):
    """('ok', output dict) or ('err', kind, msg) — CLI semantics, fresh scratch folder"""
    from rpft.converters import create_flows

    d = tempfile.mkdtemp(prefix="c12run")
    try:
        write_book(d, sheets)
        return run_cli_mode(create_flows, [d], None, "csv")
    finally:
        shutil.rmtree(d, ignore_errors=True)


# =====================================================================================
# comparison up to a bijective renaming of invented UUIDs
# =====================================================================================
class Bij:
    def __init__(self, given=()):
        self.f = {}
        self.g = {}
        self.given = set(given)

    def pair(self, a, b):
        if a in self.given or b in self.given:
            return a == b
        if self.f.get(a, b) != b or self.g.get(b, a) != a:
            return False
        self.f[a] = b
        self.g[b] = a
        return True


def same_upto(a, b, bij, path=""):
    """None when equal up to bij, else the path of the first difference"""
    if isinstance(a, dict) and isinstance(b, dict):
        ka, kb = list(a.keys()), list(b.keys())
        ua = [k for k in ka if UUID_RE.match(k)]
        ub = [k for k in kb if UUID_RE.match(k)]
        if sorted(k for k in ka if k not in ua) != sorted(k for k in kb if k not in ub) or len(ua) != len(ub):
            return f"{path}: keys {ka!r} vs {kb!r}"
        for k in ka:
            if k in ua:
                continue
            r = same_upto(a[k], b[k], bij, f"{path}.{k}")
            if r:
                return r
        for x, y in zip(ua, ub):       # uuid-keyed members pair up in insertion order
            if not bij.pair(x, y):
                return f"{path}: uuid key {x} vs {y}"
            r = same_upto(a[x], b[y], bij, f"{path}.<{x}>")
            if r:
                return r
        return None
    if isinstance(a, list) and isinstance(b, list):
        if len(a) != len(b):
            return f"{path}: length {len(a)} vs {len(b)}"
        for i, (x, y) in enumerate(zip(a, b)):
            r = same_upto(x, y, bij, f"{path}[{i}]")
            if r:
                return r
        return None
    if isinstance(a, str) and isinstance(b, str) and UUID_RE.match(a) and UUID_RE.match(b):
        return None if bij.pair(a, b) else f"{path}: uuid {a} vs {b} (not a bijection)"
    if type(a) is not type(b) or a != b:
        return f"{path}: {a!r} vs {b!r}"
    return None


def texts_of(flow):
    out = []
    for n in flow["nodes"]:
        for a in n.get("actions", []):
            if a.get("type") == "send_msg":
                out.append(a.get("text"))
    return out


# =====================================================================================
# abstract workbooks: generator, rendering to CSV, reference expectation
# =====================================================================================
WORDS = ["V1", "V2", "Wx", "k9", "al fa", "Zed", "q", "mm", "é1", "N0", "ok", "Lo"]
IDS = ["r1", "r2", "r3", "x", "y", "row 5", "R", "a-b", "10", "é"]
LK_IDS = ["x", "y", "z", "w"]
TPL_HEAD = ["row_id", "type", "from", "condition", "loop_variable", "include_if", "message_text",
            "data_sheet", "data_row_id", "template_arguments"]


def tpl_row(**kw):
    return [kw.get(h, "") for h in TPL_HEAD]


def defined_probe(names):
    return "".join("{{ 'D' if %s is defined else 'U' }}" % n for n in names)


# ---- every kind of template markup, over a value that differs between instances -----------------
# form -> (cell text from (reference X, constant C), value from (x, C), markup kind)
MK_FORMS = {
    "expr": (lambda X, C: "T{{%s}}." % X, lambda x, C: f"T{x}.", "expr"),
    "expr-spaced": (lambda X, C: "T{{ %s }}." % X, lambda x, C: f"T{x}.", "expr"),
    "filter-upper": (lambda X, C: "T{{%s|upper}}." % X, lambda x, C: f"T{x.upper()}.", "expr"),
    "filter-length": (lambda X, C: "T{{%s|length}}." % X, lambda x, C: f"T{len(x)}.", "expr"),
    "filter-default": (lambda X, C: "T{{%s|default('d')}}." % X, lambda x, C: f"T{x}.", "expr"),
    "filter-replace": (lambda X, C: "T{{%s|replace('a', 'A')}}." % X, lambda x, C: "T" + x.replace("a", "A") + ".", "expr"),
    "concat": (lambda X, C: "{{ 'T' ~ %s ~ '.' }}" % X, lambda x, C: f"T{x}.", "expr"),
    "ternary": (lambda X, C: "{{ 'eq' if %s == '%s' else 'ne' }}." % (X, C), lambda x, C: ("eq" if x == C else "ne") + ".", "expr"),
    "stmt-if": (lambda X, C: "{%% if %s == '%s' %%}yes-%s{%% else %%}no{%% endif %%}." % (X, C, C), lambda x, C: (f"yes-{C}" if x == C else "no") + ".", "stmt"),
    "stmt-if-noelse": (lambda X, C: "S{%% if %s == '%s' %%}+{%% endif %%}." % (X, C), lambda x, C: "S" + ("+" if x == C else "") + ".", "stmt"),
    "stmt-if-ws": (lambda X, C: "{%%- if %s == '%s' -%%} a {%%- else -%%} b {%%- endif -%%}." % (X, C), lambda x, C: ("a" if x == C else "b") + ".", "stmt"),
    "stmt-if-ne": (lambda X, C: "{%% if %s != '%s' %%}other{%% else %%}same{%% endif %%}." % (X, C), lambda x, C: ("other" if x != C else "same") + ".", "stmt"),
    "stmt-set": (lambda X, C: "{%% set z = %s %%}{%% if z == '%s' %%}eq{%% else %%}ne{%% endif %%}." % (X, C), lambda x, C: ("eq" if x == C else "ne") + ".", "stmt"),
    "stmt-for": (lambda X, C: "F{%% for q in %s %%}*{%% endfor %%}." % X, lambda x, C: "F" + "*" * len(x) + ".", "stmt"),
    "stmt-for-loopvar": (lambda X, C: "F{%% for q in %s %%}{%% if loop.first %%}<{%% endif %%}-{%% endfor %%}." % X,
                         lambda x, C: "F" + ("<" if x else "") + "-" * len(x) + ".", "stmt"),
    "stmt-in": (lambda X, C: "{%% if '%s' in %s %%}in{%% else %%}out{%% endif %%}." % (C[:1], X), lambda x, C: ("in" if C[:1] in x else "out") + ".", "stmt"),
    "stmt-elif": (lambda X, C: "{%% if %s == '%s' %%}one{%% elif %s == 'yes' %%}two{%% else %%}three{%% endif %%}." % (X, C, X),
                  lambda x, C: ("one" if x == C else "two" if x == "yes" else "three") + ".", "stmt"),
    "mixed": (lambda X, C: "{%% if %s == '%s' %%}{{%s}}!{%% else %%}-{%% endif %%}." % (X, C, X), lambda x, C: (f"{x}!" if x == C else "-") + ".", "expr"),
    "native": (lambda X, C: "{@ %s @}" % X, lambda x, C: x, "native"),
    "native-cond": (lambda X, C: "{@ 'p.' if %s == '%s' else 'q.' @}" % (X, C), lambda x, C: "p." if x == C else "q.", "native"),
    "native-filter": (lambda X, C: "{@ %s|upper @}" % X, lambda x, C: x.upper(), "native"),
    "comment": (lambda X, C: "{# %s #}fixed." % X, lambda x, C: "fixed.", "static"),
    "raw": (lambda X, C: "{%% raw %%}{{%s}}{%% endraw %%}." % X, lambda x, C: "{{%s}}." % "@X@", "static"),
    "static": (lambda X, C: "fixed text.", lambda x, C: "fixed text.", "static"),
}
# truth-valued cells for include_if, list-valued cells for begin_for, per markup kind
MK_TRUTH = {
    "stmt": lambda X, C: "{%% if %s == '%s' %%}true{%% else %%}false{%% endif %%}" % (X, C),
    "expr": lambda X, C: "{{ %s == '%s' }}" % (X, C),
    "native": lambda X, C: "{@ %s == '%s' @}" % (X, C),
}
MK_LIST = {
    "stmt": lambda X, C: "{%% if %s == '%s' %%}p;q{%% else %%}r;{%% endif %%}" % (X, C),
    "expr": lambda X, C: "{{ 'p;q' if %s == '%s' else 'r;' }}" % (X, C),
    "native": lambda X, C: "{@ ['p', 'q'] if %s == '%s' else ['r'] @}" % (X, C),
}
MK_PICK = {       # a value out of two, per markup kind (block arguments / data row ids)
    "stmt": lambda X, C, a, b: "{%% if %s == '%s' %%}%s{%% else %%}%s{%% endif %%}" % (X, C, a, b),
    "expr": lambda X, C, a, b: "{{ '%s' if %s == '%s' else '%s' }}" % (a, X, C, b),
    "native": lambda X, C, a, b: "{@ '%s' if %s == '%s' else '%s' @}" % (a, X, C, b),
}
MK_COLUMNS = ["message_text", "message_text", "message_text", "choices", "condition", "include_if", "loop-list", "group"]


# ---- templates that MUTATE what they are given (wave 4) --------------------------------------------------------------------------
# "nothing evaluated for one instance (data row, arguments, loop variables) is visible to another" also when the template changes
# the value in place.  op -> (cell text over @X, the same step on the reference's own python list -> what the cell renders,
# safe on an empty list)
def _al(fn):
    def run(l):
        r = fn(l)
        return "" if r is None else r
    return run


AL_OPS = {
    "pop": ("{{ @X.pop() }}", _al(lambda l: l.pop()), False),
    "pop0": ("{{ @X.pop(0) }}", _al(lambda l: l.pop(0)), False),
    "pop-guarded": ("{{ @X.pop() if @X else '-' }}", _al(lambda l: l.pop() if l else "-"), True),
    "pop0-guarded": ("{{ @X.pop(0) if @X else '-' }}", _al(lambda l: l.pop(0) if l else "-"), True),
    "append": ("{{ @X.append('Z') or '' }}", _al(lambda l: l.append("Z")), True),
    "insert": ("{{ @X.insert(0, 'Y') or '' }}", _al(lambda l: l.insert(0, "Y")), True),
    "reverse": ("{{ @X.reverse() or '' }}", _al(lambda l: l.reverse()), True),
    "sort": ("{{ @X.sort() or '' }}", _al(lambda l: l.sort()), True),
    "extend": ("{{ @X.extend(['Z', 'Y']) or '' }}", _al(lambda l: l.extend(["Z", "Y"])), True),
    "set-append": ("{% set _ = @X.append('S') %}", _al(lambda l: l.append("S")), True),
    "set-sortrev": ("{% set _ = @X.sort(reverse=True) %}", _al(lambda l: l.sort(reverse=True)), True),
    "set-clear": ("{% set _ = @X.clear() %}", _al(lambda l: l.clear()), True),
    "set-remove": ("{% if @X %}{% set _ = @X.remove(@X[0]) %}{% endif %}", _al(lambda l: l.remove(l[0]) if l else None), True),
    "set-item": ("{% if @X %}{% set _ = @X.__setitem__(0, 'W') %}{% endif %}", _al(lambda l: l.__setitem__(0, "W") if l else None), True),
    "for-pop": ("{% for e_ in @X[1:] %}{{ @X.pop() }}{% endfor %}", _al(lambda l: "".join(l.pop() for _ in l[1:])), True),
}
AL_SHOW = ":{{ @X|join('+') }}:{{ @X|length }}."
# the rows of a data sheet bound to a `sheet` argument (an ordered dict ID -> row model); reference: a list of row dicts
AL_SHEET_OPS = {
    "s-popfirst": ("{{ @X.pop((@X.keys()|list)[0]).ID if @X else '-' }}", lambda sh: sh.pop(0)["ID"] if sh else "-"),
    "s-clear": ("{% set _ = @X.clear() %}", lambda sh: sh.clear() or ""),
    "s-setcol": ("{% for r in @X.values() %}{% if r.col is defined %}{% set _ = r.__setattr__('col', 'CH') %}{% endif %}{% endfor %}",
                 lambda sh: [r.__setitem__("col", "CH") for r in sh if "col" in r] and "" or ""),
    "s-rowlist": ("{% for r in @X.values() %}{% if r.pairs is defined %}{% set _ = r.pairs[0].append('Q') %}{% endif %}{% endfor %}",
                  lambda sh: [r["pairs"][0].append("Q") for r in sh if "pairs" in r] and "" or ""),
    "s-popitem": ("{{ @X.popitem()[0] if @X else '-' }}", lambda sh: sh.pop()["ID"] if sh else "-"),
}
AL_SHEET_SHOW = (":{{ @X|length }}:{{ @X.values()|map(attribute='ID')|join('+') }}:"
                 "{% for r in @X.values() %}{{ r.pairs[0]|join('+') if r.pairs is defined else r.col }},{% endfor %}.")


def al_cell(tag, ops, X, table=AL_OPS, show=AL_SHOW):
    return tag + ":" + "".join(table[o][0] for o in ops).replace("@X", X) + show.replace("@X", X)


def al_msg(tag, ops, l):
    """what al_cell renders when @X is the python list l (changed in place, as the template changes its own)"""
    done = "".join(AL_OPS[o][1](l) for o in ops)
    return f"{tag}:{done}:{'+'.join(l)}:{len(l)}."


def al_sheet_msg(tag, ops, sh):
    done = "".join(AL_SHEET_OPS[o][1](sh) for o in ops)
    return f"{tag}:{done}:{len(sh)}:{'+'.join(r['ID'] for r in sh)}:" + "".join(("+".join(r["pairs"][0]) if "pairs" in r else r["col"]) + "," for r in sh) + "."


def nested_cell(v):
    """cell text of a list of lists of words (each inner list keeps its list shape: trailing separators for singletons)"""
    s = "|".join(";".join(x) + (";" if len(x) == 1 else "") for x in v)
    return s + "|" if len(v) == 1 else s


def gen_al(rng, routes, lits, lst_args, sheet_args):
    route = rng.choice(routes)
    n_ops = rng.choice([1, 1, 2, 2, 3])
    p = dict(route=route)
    if route == "sheet":
        p.update(which=rng.choice(sheet_args), ops=[rng.choice(list(AL_SHEET_OPS)) for _ in range(n_ops)])
        return p
    ops = [rng.choice(list(AL_OPS)) for _ in range(n_ops)]
    if route == "lit2":
        p.update(lit=rng.randrange(len(lits)), twice=rng.random() < 0.35, index=rng.random() < 0.3)
        # every parse of the cell yields the lists anew: a pop per element is safe without a guard, as long as nothing else shortens them
        room = min(len(x) for x in lits[p["lit"]])
        if not (all(o in ("pop", "pop0") for o in ops) and len(ops) <= room):
            ops = [o + "-guarded" if o in ("pop", "pop0") else o for o in ops]
    else:
        ops = [o + "-guarded" if o in ("pop", "pop0") else o for o in ops]
    p["ops"] = ops
    if route == "rowdirect":
        p["at"] = rng.choice(["0", "-1"])
    if route == "arg":
        p["which"] = rng.choice(lst_args)
    if route == "block":
        p.update(src=rng.choice(["lit", "lit", "items"]), elems=rng.sample(["p", "q", "s", "t"], rng.choice([1, 2, 3])), withrow=rng.random() < 0.5)
    return p


def mk_value(p, x):
    v = MK_FORMS[p["form"]][1](x, p["C"])
    return v.replace("@X@", p["src"]) if p["form"] == "raw" else v


def mk_rows(p, rid):
    """rows of one markup feature (p: form, kind, src, C, col)"""
    X, C, col = p["src"], p["C"], p["col"]
    if col == "message_text":
        return [tpl_row(type="send_message", message_text=MK_FORMS[p["form"]][0](X, C))]
    if col == "choices":
        return [tpl_row(type="send_message", message_text="Q.", choices=MK_FORMS[p["form"]][0](X, C) if MK_FORMS[p["form"]][2] != "native" else "{{%s}}" % X)]
    if col == "group":
        return [tpl_row(type="add_to_group", message_text=MK_FORMS[p["form"]][0](X, C))]
    if col == "condition":
        r = rid()
        return [tpl_row(row_id=r, type="split_by_value", message_text="@fields.y"),
                tpl_row(type="send_message", **{"from": r}, condition=MK_FORMS[p["form"]][0](X, C) if MK_FORMS[p["form"]][2] != "native" else "{{%s}}" % X,
                        message_text="MC:yes."),
                tpl_row(type="send_message", **{"from": r}, message_text="MC:no.")]
    if col == "include_if":
        return [tpl_row(type="send_message", include_if=MK_TRUTH[p["kind"]](X, C), message_text="MI.")]
    if col == "loop-list":
        return [tpl_row(type="begin_for", loop_variable="m", message_text=MK_LIST[p["kind"]](X, C)),
                tpl_row(type="send_message", message_text="ML:{{m}}."),
                tpl_row(type="end_for")]
    raise ValueError(col)


def mk_texts(p, env):
    """message texts the feature contributes in an instance whose sources have the values env"""
    x, C, col = env[p["src"]], p["C"], p["col"]
    if col == "message_text":
        return [mk_value(p, x)]
    if col == "choices":
        return ["Q."]
    if col == "group":
        return []
    if col == "condition":
        return ["MC:yes.", "MC:no."]
    if col == "include_if":
        return ["MI."] if x == C else []
    if col == "loop-list":
        return ["ML:p.", "ML:q."] if x == C else ["ML:r."]
    raise ValueError(col)


def gen_mk(rng, sources, consts):
    """sources: reference texts usable here; consts: source -> values it takes in this workbook"""
    src = rng.choice(sources)
    col = rng.choice(MK_COLUMNS)
    k = rng.random()
    # 45% of the cells carry NO {{ }} / {@ @}: statements only; 12% are literal controls (comment, raw, plain text)
    want = ("stmt",) if k < 0.45 else ("expr", "native") if k < 0.88 else ("static",)
    form = rng.choice([f for f, (_, _, kind) in MK_FORMS.items() if kind in want])
    kind = MK_FORMS[form][2]
    if col in ("include_if", "loop-list") and kind == "static":
        kind = "stmt"
    return dict(form=form, kind=kind, src=src, col=col, C=rng.choice(consts[src]))


# ---- nested data-row fields (wave 5): dotted columns `menu.items`, `menu.keys`, `menu.title`, `extra.note` -------------------------------
# A data sheet with dotted headers gives every row NESTED objects (`menu`, `extra`); two of the field names are names of dict methods.
# The property: the instance of a bulk row equals the instance of the row naming the data row, whatever the template does with the nested
# object: read a field (also one named like a dict method), walk over it, print it, reach into it through the `eval` filter.
# form -> (rows of the template from a row-id maker, reference texts from the data row | ANY where the property text gives no value:
# those are compared bulk vs row-by-row vs alone vs permuted only)
class _Any:
    """a text the reference does not speak about (e.g. how a nested object prints)"""
    def __eq__(self, other):
        return isinstance(other, str)

    def __ne__(self, other):
        return not isinstance(other, str)

    def __repr__(self):
        return "<any text>"

    __hash__ = None


ANY = _Any()
NEST_COLS = ["menu.items", "menu.keys", "menu.title", "extra.note"]


def _msg(text):
    return [tpl_row(type="send_message", message_text=text)]


NEST_FORMS = {
    "fields": (lambda: _msg("NF:{{ menu.title }}/{{ menu.items }}/{{ menu.keys }}/{{ extra.note }}."),
               lambda r: ["NF:%s/%s/%s/%s." % (r["menu"]["title"], r["menu"]["items"], r["menu"]["keys"], r["extra"]["note"])]),
    "pairs": (lambda: _msg("NP:{% for name, value in menu %}[{{name}}={{value}}]{% endfor %}."),
              lambda r: ["NP:" + "".join("[%s=%s]" % kv for kv in r["menu"].items()) + "."]),
    "print": (lambda: _msg("NR:{{ menu }}|{{ extra }}."), lambda r: [ANY]),
    "print-native": (lambda: _msg("{@ 'NRN:' ~ extra @}"), lambda r: [ANY]),
    "eval": (lambda: _msg("NE:{{ 'menu.title'|eval }}/{{ 'extra.note'|eval }}."), lambda r: ["NE:%s/%s." % (r["menu"]["title"], r["extra"]["note"])]),
    "eval-method-name": (lambda: _msg("NEM:{{ 'menu.items'|eval }}/{{ 'menu.keys'|eval }}."), lambda r: ["NEM:%s/%s." % (r["menu"]["items"], r["menu"]["keys"])]),
    "subscript": (lambda: _msg("NS:{{ menu['title'] }}."), lambda r: ["NS:%s." % r["menu"]["title"]]),
    "attr-filter": (lambda: _msg("NA:{{ menu|attr('keys') }}/{{ extra|attr('note') }}."), lambda r: ["NA:%s/%s." % (r["menu"]["keys"], r["extra"]["note"])]),
    "is-mapping": (lambda: _msg("NM:{{ 'M' if menu is mapping else 'O' }}."), lambda r: [ANY]),
    "walk": (lambda: _msg("NW:{% for k in menu %}{{ k|length }},{% endfor %}."), lambda r: [ANY]),
    "set": (lambda: _msg("NT:{% set m = menu %}{{ m.title }}-{{ m.keys }}."), lambda r: ["NT:%s-%s." % (r["menu"]["title"], r["menu"]["keys"])]),
    "native-list": (lambda: [tpl_row(type="begin_for", loop_variable="nv", message_text="{@ [menu.items, menu.keys, extra.note] @}"),
                             tpl_row(type="send_message", message_text="NL:{{nv}}."),
                             tpl_row(type="end_for")],
                    lambda r: ["NL:%s." % x for x in (r["menu"]["items"], r["menu"]["keys"], r["extra"]["note"])]),
    "native-cond": (lambda: [tpl_row(type="send_message", include_if="{@ menu.items != extra.note @}", message_text="NC:{{ menu.keys|upper }}.")],
                    lambda r: ["NC:%s." % r["menu"]["keys"].upper()] if r["menu"]["items"] != r["extra"]["note"] else []),
}


def gen_nested(rng):
    w = lambda: rng.choice(WORDS) + str(rng.randrange(10))
    return dict(menu=dict(items=w(), keys=w(), title=w()), extra=dict(note=w()))


def nested_env(row):
    return {c: row[c.split(".")[0]][c.split(".")[1]] for c in NEST_COLS}


def render_blkn(case):
    """a block that reads the nested fields of its OWN data row (insert_as_block with data_sheet / data_row_id)"""
    rows = [TPL_HEAD, tpl_row(type="send_message", message_text="BN:{{ menu.title }}:" + defined_probe(["val", "bid"]) + ".")]
    for f in case["blkn"]:
        rows += NEST_FORMS[f][0]()
    return rows


def blkn_texts(case, brow):
    out = ["BN:%s:UU." % brow["menu"]["title"]]
    for f in case["blkn"]:
        out += NEST_FORMS[f][1](brow)
    return out


def gen_case(rng, malformed=False):
    """An abstract workbook.  Everything random is drawn here; rendering is deterministic."""
    n_rows = rng.choice([1, 2, 2, 3, 3, 4, 5])
    ids = rng.sample(IDS, n_rows)
    lk_ids = rng.sample(LK_IDS, rng.choice([2, 3, 4]))
    data = []
    for i in ids:
        n_items = rng.choice([1, 1, 2, 3])
        data.append(dict(ID=i, val=rng.choice(WORDS) + str(rng.randrange(10)),
                         items=[rng.choice(lk_ids) for _ in range(n_items)],
                         flag=rng.choice(["yes", "no"]), bid=rng.choice(["b1", "b2"]),
                         key=rng.choice(lk_ids),
                         pairs=[[rng.choice(WORDS) for _ in range(rng.choice([1, 2, 2, 3]))] for _ in range(rng.choice([1, 2, 2, 3]))]))
    bdata = [dict(ID="b1", bval="BV1", bl=[rng.choice(WORDS) for _ in range(rng.choice([1, 2, 3]))]),
             dict(ID="b2", bval="BV2", bl=[rng.choice(WORDS) for _ in range(rng.choice([1, 2, 3]))])]
    for d in data + bdata:
        d.update(gen_nested(rng))
    if n_rows > 1 and rng.random() < 0.5:       # two rows with the same nested field: the constant the markup compares with is hit more than once
        data[-1]["menu"]["title"] = data[0]["menu"]["title"]
    # literal two-level lists for begin_for cells: a small pool per workbook, so the same cell text turns up in several loops / templates
    lits = [[[rng.choice(WORDS) for _ in range(rng.choice([1, 2, 2, 3]))] for _ in range(rng.choice([1, 2, 3, 3]))] for _ in range(2)]
    lookup = [dict(ID=k, col="C" + k + str(rng.randrange(10))) for k in lk_ids]

    consts = {"val": sorted({d["val"] for d in data}), "flag": ["yes", "no"], "key": list(lk_ids), "ID": list(ids), "it": list(lk_ids),
              "b1": ["A1", "A2", "yes", "B1", "no", "bd"] + sorted({d["val"] for d in data}), "bval": ["BV1", "BV2"], "d1": ["A1", "B1", "yes", "no", "bd"]}
    for c in NEST_COLS:
        consts[c] = sorted({nested_env(d)[c] for d in data})

    # ---- templates -------------------------------------------------------------
    def gen_defs(prefix):
        defs = []
        for j in range(rng.choice([0, 1, 2, 2, 3])):
            kind = rng.choice(["req", "req", "dflt", "dflt", "sheet", "sheetd", "lst", "lst"])
            name = f"{prefix}{j + 1}"
            if kind == "lst":
                defs.append((name, "", ""))     # a required argument that is GIVEN a list (untyped template_arguments cell)
                lst_names.add(name)
            elif kind == "req":
                defs.append((name, "", ""))
            elif kind == "dflt":
                defs.append((name, "", "df" + name))
            elif kind == "sheet":
                defs.append((name, "sheet", ""))
            else:
                defs.append((name, "sheet", rng.choice(["lookup", "data"])))
        return defs

    def gen_args(defs):
        args = []
        for (n, t, d) in defs:
            if t == "sheet":
                args.append("" if d and rng.random() < 0.6 else rng.choice(["lookup", "lookup", "data"]))
            elif n in lst_names:
                args.append([rng.choice(WORDS).replace(" ", "_") for _ in range(rng.choice([1, 2, 3]))])
            else:
                args.append("" if d and rng.random() < 0.5 else rng.choice(WORDS).replace(" ", "_") + n.upper())
        while args and args[-1] == "" and rng.random() < 0.7:
            args.pop()          # trailing blanks may be left out altogether
        return args

    def gen_features(defs, has_data, allow_block=True):
        feats = []
        pool = ["args", "probe", "group", "router", "litloop", "al", "al", "al"]
        plain_args = [n for n, t, _ in defs if t != "sheet" and n not in lst_names]
        lst_args = [n for n, t, _ in defs if n in lst_names]
        sheet_args = [n for n, t, _ in defs if t == "sheet"]
        al_routes = ["lit2", "lit2", "lit2"] + (["rowpairs", "rowpairs", "rowitems", "rowdirect"] if has_data else []) + ["arg"] * (2 if lst_args else 0) \
            + ["sheet"] * (2 if sheet_args else 0) + (["block", "block"] if has_data and allow_block else [])
        if lst_args or sheet_args or has_data:
            pool += ["al", "al"]
        sources = (["val", "flag", "key", "ID"] + NEST_COLS if has_data else []) + plain_args
        if sources:
            pool += ["mk"] * 5
        if has_data:
            pool += ["field", "field", "loop", "loop", "cond", "cond", "mut", "read", "startflow", "mkloop", "mkloop"]
            pool += ["nest"] * 5
            if allow_block:
                pool += ["block", "block", "blocknodata", "mkblock", "mkblock", "mkblock", "nestblock", "nestblock"]
        if any(t == "sheet" for _, t, _ in defs):
            pool += ["sheet", "sheet", "readlk"]
        for _ in range(rng.choice([2, 3, 4, 5, 6])):
            f = rng.choice(pool)
            p = {}
            if f == "loop":
                p = dict(index=rng.random() < 0.5, inner_cond=rng.random() < 0.3, lk=rng.random() < 0.5)
            if f == "litloop":
                p = dict(elems=rng.sample(["p", "q", "s", "t"], rng.choice([1, 2, 3])))
            if f == "block":
                p = dict(arg=rng.choice(["val", "lit", "blank"]))
            if f in ("sheet", "readlk"):
                p = dict(which=rng.choice([n for n, t, _ in defs if t == "sheet"]), k=rng.choice(lk_ids), rid=rng.choice(ids))
            if f == "startflow":
                p = dict(target=rng.randrange(1000))
            if f == "nest":
                p = dict(form=rng.choice(sorted(NEST_FORMS)), inloop=rng.random() < 0.25)
            if f == "mk":
                p = gen_mk(rng, sources, consts)
            if f == "al":
                p = gen_al(rng, al_routes, lits, lst_args, sheet_args)
            if f == "mkloop":
                p = gen_mk(rng, sources + ["it", "it"], consts)
                p["col"] = rng.choice(["message_text", "message_text", "include_if", "choices"])
                if p["kind"] == "static":
                    p["kind"] = "stmt"      # the truth-valued cell of include_if has no literal form
            if f == "mkblock":
                # how the inserted block gets its argument and its data row: each by some kind of markup over a source
                p = dict(arg=gen_mk(rng, sources, consts), row=gen_mk(rng, sources, consts) if rng.random() < 0.6 else None,
                         a=rng.choice(["A1", "A2", "yes"]), b=rng.choice(["B1", "no"]), direct=rng.random() < 0.4)
            feats.append((f, p))
        # an enter-flow node has no default exit: at most one, as the last row
        sf = [x for x in feats if x[0] == "startflow"]
        feats = [x for x in feats if x[0] != "startflow"] + sf[:1]
        return feats

    lst_names = set()
    templates = {}
    n_tpl = rng.choice([1, 1, 2])
    for t in range(n_tpl):
        name = ["tpl", "other"][t]
        defs = gen_defs("a" if t == 0 else "c")
        templates[name] = dict(defs=defs, feats=None)
    creates = []
    for t, (name, tp) in enumerate(templates.items()):
        has_data = True if t == 0 else rng.random() < 0.7
        tp["has_data"] = has_data
        n_create = 1 if t == 0 else rng.choice([1, 1, 2])
        for k in range(n_create):
            if has_data:
                mode = "bulk" if (t == 0 and k == 0) or rng.random() < 0.6 else "single"
            else:
                mode = "plain"
            creates.append(dict(template=name, mode=mode,
                                row_id=rng.choice(ids) if mode == "single" else "",
                                args=gen_args(tp["defs"]),
                                new_name=rng.choice(["", f"ren{len(creates)}", f"N {len(creates)}"])))
        # the values each plain argument takes in this workbook (given or default): constants the markup compares with
        for j, (n, ty, d) in enumerate(tp["defs"]):
            if ty != "sheet" and n not in lst_names:
                consts[n] = sorted({(c["args"][j] if j < len(c["args"]) and c["args"][j] != "" else d) for c in creates if c["template"] == name})
        tp["feats"] = gen_features(tp["defs"], has_data)
    # distinct flow names per create row: blank new_name only once per template
    seen = set()
    for c in creates:
        base = c["new_name"] or c["template"]
        if base in seen:
            c["new_name"] = f"u{len(seen)}"
            base = c["new_name"]
        seen.add(base)
    rng.shuffle(creates)
    blk2 = dict(feats=[gen_mk(rng, ["b1", "b1", "bval"], consts) for _ in range(rng.choice([1, 2, 3]))],
                nested=rng.choice([None, None, "expr", "stmt", "native"]), nested_C=rng.choice(consts["b1"]),
                blk3=[gen_mk(rng, ["d1"], consts) for _ in range(rng.choice([1, 2]))])
    for q in blk2["feats"] + blk2["blk3"]:
        if q["col"] == "loop-list" and rng.random() < 0.5:
            q["col"] = "message_text"
    blkm = dict(ops_g=[o for o in (rng.choice(list(AL_OPS)) for _ in range(rng.choice([1, 2]))) if AL_OPS[o][2]] or ["append"],
                ops_b=[o for o in (rng.choice(list(AL_OPS)) for _ in range(rng.choice([1, 2]))) if AL_OPS[o][2]] or ["set-append"])
    blkn = rng.sample(sorted(NEST_FORMS), rng.choice([1, 2, 3]))
    case = dict(ids=ids, data=data, bdata=bdata, lookup=lookup, templates=templates, creates=creates, blkn=blkn,
                blk_defs=[("b1", "", "bd")], malformed=None, blk2=blk2, lits=lits, lst_names=sorted(lst_names), blkm=blkm,
                index_order=rng.choice(["defs-first", "creates-first"]))
    if malformed:
        case["malformed"] = rng.choice(["missing-required", "clash", "unknown-sheet", "too-many", "empty-loop",
                                        "shadow", "dup-names", "undefined-attr", "unknown-row", "blank-arg-cell"])
        apply_malformation(case, rng)
    return case


def apply_malformation(case, rng):
    m = case["malformed"]
    c0 = next(c for c in case["creates"] if c["template"] == "tpl")
    tp = case["templates"]["tpl"]
    if m == "missing-required":
        tp["defs"].append(("req9", "", ""))
    elif m == "clash":
        tp["defs"].append((rng.choice(["val", "ID", "items"]), "", "d"))
    elif m == "unknown-sheet":
        tp["defs"].append(("s9", "sheet", ""))
        c0["args"] = (c0["args"] + [""] * 9)[:len(tp["defs"]) - 1] + ["nosuchsheet"]
    elif m == "too-many":
        c0["args"] = (c0["args"] + [""] * 9)[:len(tp["defs"])] + ["EXTRA", ""]
    elif m == "empty-loop":
        rng.choice(case["data"])["items"] = []
        tp["feats"].append(("loop", dict(index=False, inner_cond=False, lk=False)))
    elif m == "shadow":
        tp["feats"].insert(0, ("shadowloop", {}))
    elif m == "dup-names":
        for c in case["creates"]:
            c["new_name"] = "same"
    elif m == "undefined-attr":
        tp["feats"].append(("badattr", {}))
    elif m == "unknown-row":
        c0["mode"], c0["row_id"] = "single", "nosuchrow"
    elif m == "blank-arg-cell":
        c0["args"] = []


def render_template(case, name):
    tp = case["templates"][name]
    defs = tp["defs"]
    plain = [n for n, t, _ in defs if t != "sheet"]
    others = [n for tn, t2 in case["templates"].items() if tn != name for n, _, _ in t2["defs"]]
    rows = [TPL_HEAD]
    nid = [0]

    def rid():
        nid[0] += 1
        return f"n{nid[0]}"

    for f, p in tp["feats"]:
        if f == "field":
            rows.append(tpl_row(type="send_message", message_text="F:{{val}}:{{ID}}."))
        elif f == "args":
            rows.append(tpl_row(type="send_message", message_text="A:" + "".join("{{%s}}/" % n for n in plain) + "."))
        elif f == "sheet":
            rows.append(tpl_row(type="send_message", message_text="S:{{ 'M' if %s is mapping else 'N' }}{{%s|length}}." % (p["which"], p["which"])))
        elif f == "readlk":
            rows.append(tpl_row(type="send_message",
                                message_text="RL:{%% for k in %s %%}{{k}}={{%s[k]['items']|join('+') if %s[k]['items'] is defined else %s[k].col}},{%% endfor %%}." % ((p["which"],) * 4)))
        elif f == "loop":
            lv = "it;i" if p["index"] else "it"
            rows.append(tpl_row(type="begin_for", loop_variable=lv, message_text="{@items@}"))
            body = "L:{{it}}:" + ("{{i}}:" if p["index"] else "") + "{{val}}."
            rows.append(tpl_row(type="send_message", message_text=body))
            if p["inner_cond"]:
                rows.append(tpl_row(type="send_message", include_if='{@flag == "yes"@}', message_text="LC:{{it}}."))
            rows.append(tpl_row(type="end_for"))
        elif f == "litloop":
            rows.append(tpl_row(type="begin_for", loop_variable="e", message_text=";".join(p["elems"]) + (";" if len(p["elems"]) == 1 else "")))
            rows.append(tpl_row(type="send_message", message_text="E:{{e}}."))
            rows.append(tpl_row(type="end_for"))
        elif f == "shadowloop":
            rows.append(tpl_row(type="begin_for", loop_variable="val", message_text="{@items@}"))
            rows.append(tpl_row(type="send_message", message_text="SH:{{val}}."))
            rows.append(tpl_row(type="end_for"))
        elif f == "cond":
            rows.append(tpl_row(type="send_message", include_if='{@flag == "yes"@}', message_text="C:{{val}}."))
        elif f == "block":
            arg = {"val": "{{val}}", "lit": "LITERAL", "blank": ""}[p["arg"]]
            rows.append(tpl_row(type="insert_as_block", message_text="blk", data_sheet="bdata",
                                data_row_id="{{bid}}", template_arguments=arg))
        elif f == "blocknodata":
            rows.append(tpl_row(type="insert_as_block", message_text="blk", template_arguments="{{ID}}"))
        elif f == "probe":
            rows.append(tpl_row(type="send_message",
                                message_text="P:" + defined_probe(["it", "i", "e", "bval", "b1", "zz"] + others) + "."))
        elif f == "mut":
            rows.append(tpl_row(type="send_message", message_text="M:{{ items.append('Q') or '' }}{{items|join('+')}}."))
        elif f == "read":
            rows.append(tpl_row(type="send_message", message_text="R:{{items|join('+')}}."))
        elif f == "group":
            rows.append(tpl_row(type="add_to_group", message_text="G{{flag}}" if tp["has_data"] else "Gconst"))
        elif f == "router":
            r = rid()
            rows.append(tpl_row(row_id=r, type="split_by_value", message_text="@fields.x"))
            rows.append(tpl_row(type="send_message", **{"from": r}, condition="{{val}}" if tp["has_data"] else "w",
                                message_text="RT:yes."))
            rows.append(tpl_row(type="send_message", **{"from": r}, message_text="RT:no."))
        elif f == "startflow":
            rows.append(tpl_row(type="start_new_flow", message_text=p["target_name"]))
        elif f == "badattr":
            rows.append(tpl_row(type="send_message", message_text="{{val.nosuch.deeper}}"))
        elif f == "mk":
            rows += mk_rows(p, rid)
        elif f == "mkloop":
            rows.append(tpl_row(type="begin_for", loop_variable="it", message_text="{@items@}"))
            rows += mk_rows(p, rid)
            rows.append(tpl_row(type="end_for"))
        elif f == "mkblock":
            rows.append(mkblock_row(p))
        elif f == "nest":
            if p["inloop"]:
                rows.append(tpl_row(type="begin_for", loop_variable="it", message_text="{@items@}"))
            rows += NEST_FORMS[p["form"]][0]()
            if p["inloop"]:
                rows.append(tpl_row(type="end_for"))
        elif f == "nestblock":
            rows.append(tpl_row(type="insert_as_block", message_text="blkn", data_sheet="bdata", data_row_id="{{bid}}"))
        elif f == "al":
            rows += al_rows(case, p)
    if len(rows) == 1:
        rows.append(tpl_row(type="send_message", message_text="empty."))
    return rows


def al_rows(case, p):
    """rows of one mutating feature: the template changes, in place, a value it was given"""
    r, ops = p["route"], p["ops"]
    if r == "lit2":
        text = nested_cell(case["lits"][p["lit"]])
        rows = [tpl_row(type="begin_for", loop_variable="pr;k" if p["index"] else "pr", message_text=text),
                tpl_row(type="send_message", message_text=al_cell("AL{{k}}" if p["index"] else "AL", ops, "pr")),
                tpl_row(type="end_for")]
        if p["twice"]:      # the same cell text once more, later in the same instance: read only
            rows += [tpl_row(type="begin_for", loop_variable="pr", message_text=text),
                     tpl_row(type="send_message", message_text="AL2:{{ pr|join('+') }}."),
                     tpl_row(type="end_for")]
        return rows
    if r == "rowpairs":
        return [tpl_row(type="begin_for", loop_variable="pr", message_text="{@ pairs @}"),
                tpl_row(type="send_message", message_text=al_cell("ALP", ops, "pr")),
                tpl_row(type="end_for"),
                tpl_row(type="send_message", message_text="ALR:{{ pairs|map('join', '+')|join('/') }}.")]
    if r == "rowitems":
        return [tpl_row(type="send_message", message_text=al_cell("ALI", ops, "items"))]
    if r == "rowdirect":
        return [tpl_row(type="send_message", message_text=al_cell("ALD", ops, "pairs[%s]" % p["at"]))]
    if r == "arg":
        return [tpl_row(type="send_message", message_text=al_cell("ALA", ops, p["which"]))]
    if r == "sheet":
        return [tpl_row(type="send_message", message_text=al_cell("ALS", ops, p["which"], AL_SHEET_OPS, AL_SHEET_SHOW))]
    if r == "block":
        arg = nested_cell([p["elems"]]) if p["src"] == "lit" else "{@ [items] @}"
        if p["withrow"]:
            return [tpl_row(type="insert_as_block", message_text="blkm", data_sheet="bdata", data_row_id="{{bid}}", template_arguments=arg)]
        return [tpl_row(type="insert_as_block", message_text="blkm", template_arguments=arg)]
    raise ValueError(r)


def render_blkm(case):
    """a block that changes its argument (a list) and, when it has a data row, a list field of that row"""
    b = case["blkm"]
    return [TPL_HEAD,
            tpl_row(type="send_message", message_text=al_cell("BM", b["ops_g"], "g1")),
            tpl_row(type="begin_block", include_if="{@ bl is defined @}"),
            tpl_row(type="send_message", message_text=al_cell("BMR", b["ops_b"], "bl")),
            tpl_row(type="end_block")]


def al_texts(case, p, env, row, sheets):
    """reference: every instance works on values of its own (the environment `env`, `row`, `sheets` is private to the instance)"""
    r, ops = p["route"], p["ops"]
    if r == "lit2":
        out = []
        for k, pr in enumerate(copy.deepcopy(case["lits"][p["lit"]])):       # the cell is read anew by every loop of every instance
            out.append(al_msg(f"AL{k}" if p["index"] else "AL", ops, pr))
        if p["twice"]:
            out += ["AL2:" + "+".join(pr) + "." for pr in case["lits"][p["lit"]]]
        return out
    if r == "rowpairs":
        return [al_msg("ALP", ops, pr) for pr in list(row["pairs"])] + ["ALR:" + "/".join("+".join(q) for q in row["pairs"]) + "."]
    if r == "rowitems":
        return [al_msg("ALI", ops, row["items"])]
    if r == "rowdirect":
        return [al_msg("ALD", ops, row["pairs"][int(p["at"])])]
    if r == "arg":
        return [al_msg("ALA", ops, env[p["which"]])]
    if r == "sheet":
        return [al_sheet_msg("ALS", ops, env[p["which"]])]
    if r == "block":
        g = list(p["elems"]) if p["src"] == "lit" else copy.deepcopy(row["items"])     # the block's context is a copy of what it is given
        out = [al_msg("BM", case["blkm"]["ops_g"], g)]
        if p["withrow"]:
            out.append(al_msg("BMR", case["blkm"]["ops_b"], list(next(b["bl"] for b in case["bdata"] if b["ID"] == row["bid"]))))
        return out
    raise ValueError(r)


def mkblock_row(p):
    """insert_as_block of the generated block blk2: its argument and (optionally) its data row come out of markup cells"""
    a = p["arg"]
    if p["direct"]:
        arg = MK_FORMS["native" if a["kind"] == "native" else "expr"][0](a["src"], a["C"]).replace("T{{", "{{").replace("}}.", "}}")
    else:
        arg = MK_PICK[a["kind"] if a["kind"] in MK_PICK else "stmt"](a["src"], a["C"], p["a"], p["b"])
    r = p["row"]
    if r is None:
        return tpl_row(type="insert_as_block", message_text="blk2", template_arguments=arg)
    did = MK_PICK[r["kind"] if r["kind"] in MK_PICK else "stmt"](r["src"], r["C"], "b1", "b2")
    return tpl_row(type="insert_as_block", message_text="blk2", data_sheet="bdata", data_row_id=did, template_arguments=arg)


def mkblock_texts(case, p, env):
    a = p["arg"]
    x = env[a["src"]]
    b1 = x if p["direct"] else (p["a"] if x == a["C"] else p["b"])
    benv = {"b1": b1}
    r = p["row"]
    if r is not None:
        bid = "b1" if env[r["src"]] == r["C"] else "b2"
        benv["bval"] = next(b["bval"] for b in case["bdata"] if b["ID"] == bid)
    return blk2_texts(case, benv)


def render_blk2(case):
    b = case["blk2"]
    rows = [TPL_HEAD, tpl_row(type="send_message", message_text="B2.")]
    nid = [0]

    def rid():
        nid[0] += 1
        return f"k{nid[0]}"
    for q in b["feats"]:
        rr = mk_rows(q, rid)
        if q["src"] == "bval":
            # only meaningful when the block has its own data row: the rows sit in a block excluded otherwise
            rows.append(tpl_row(type="begin_block", include_if="{@ bval is defined @}"))
            rows += rr
            rows.append(tpl_row(type="end_block"))
        else:
            rows += rr
    if b["nested"]:
        arg = "{{b1}}" if b["nested"] == "expr" else "{@ b1 @}" if b["nested"] == "native" else \
            MK_PICK["stmt"]("b1", b["nested_C"], "A1", "B1")
        rows.append(tpl_row(type="insert_as_block", message_text="blk3", template_arguments=arg))
    rows.append(tpl_row(type="send_message", message_text="E2."))
    return rows


def render_blk3(case):
    rows = [TPL_HEAD, tpl_row(type="send_message", message_text="B3.")]
    nid = [0]

    def rid():
        nid[0] += 1
        return f"j{nid[0]}"
    for q in case["blk2"]["blk3"]:
        rows += mk_rows(q, rid)
    return rows


def blk2_texts(case, benv):
    b = case["blk2"]
    out = ["B2."]
    for q in b["feats"]:
        if q["src"] == "bval" and "bval" not in benv:
            continue
        out += mk_texts(q, benv)
    if b["nested"]:
        d1 = benv["b1"] if b["nested"] in ("expr", "native") else ("A1" if benv["b1"] == b["nested_C"] else "B1")
        out.append("B3.")
        for q in b["blk3"]:
            out += mk_texts(q, {"d1": d1})
    out.append("E2.")
    return out


def render_blk():
    return [TPL_HEAD,
            tpl_row(type="send_message",
                    message_text="B:{{bval if bval is defined else '-'}}:{{b1}}:" + defined_probe(["val", "ID", "it", "a1", "c1"]) + ".")]


def defs_cell(defs):
    if not defs:
        return ""
    s = "|".join(f"{n};{t};{d}" for n, t, d in defs)
    return s + "|" if len(defs) == 1 else s


def args_cell(args):
    if any(isinstance(a, list) for a in args):
        # a list-valued argument needs the outer separator: `p;q|w` = (['p','q'], 'w'); a singleton list keeps its shape by a trailing `;`
        s = "|".join((";".join(a) + (";" if len(a) == 1 else "")) if isinstance(a, list) else a for a in args)
        return s + "|" if len(args) == 1 or args[-1] == "" else s
    return ";".join(args)


def instances_of(case, create):
    if create["mode"] == "bulk":
        return [(create, i) for i in case["ids"]]
    if create["mode"] == "single":
        return [(create, create["row_id"])]
    return [(create, "")]


def flow_name(create, rid):
    base = create["new_name"] or create["template"]
    return base + " - " + rid if rid else base


def resolve_targets(case):
    """start_new_flow targets: the name of some instance of this workbook (fixed per case)"""
    names = [flow_name(c, i) for c in case["creates"] for (_, i) in instances_of(case, c)]
    names.append("no such flow")
    for tp in case["templates"].values():
        for f, p in tp["feats"]:
            if f == "startflow":
                p["target_name"] = names[p["target"] % len(names)]


INDEX_HEAD = ["type", "sheet_name", "data_sheet", "data_row_id", "template_arguments", "new_name", "status"]


def create_row(create, rid, with_sheet):
    return ["create_flow", create["template"], "data" if with_sheet else "", rid, args_cell(create["args"]), create["new_name"], ""]


def base_sheets(case):
    def cell(v):
        if isinstance(v, list) and any(isinstance(x, list) for x in v):
            return nested_cell(v)
        if isinstance(v, list):
            return ";".join(v) + (";" if len(v) == 1 else "")
        return v

    def field(r, c):
        for part in c.split(":")[0].split("."):
            r = r[part]
        return r

    def table(rows, cols):
        return [cols] + [[cell(field(r, c)) for c in cols] for r in rows]
    sheets = {
        "data": table(case["data"], ["ID", "val", "items:List[str]", "flag", "bid", "key", "pairs:list"] + NEST_COLS),
        "bdata": table(case["bdata"], ["ID", "bval", "bl:List[str]"] + NEST_COLS),
        "blkn": render_blkn(case),
        "blkm": render_blkm(case),
        "lookup": table(case["lookup"], ["ID", "col"]),
        "blk": render_blk(),
        "blk2": render_blk2(case),
        "blk3": render_blk3(case),
    }
    for name in case["templates"]:
        sheets[name] = render_template(case, name)
    return sheets


def index_rows(case, create_rows):
    defs = [["template_definition", n, "", "", defs_cell(t["defs"]), "", ""] for n, t in case["templates"].items()]
    defs.append(["template_definition", "blk", "", "", defs_cell(case["blk_defs"]), "", ""])
    defs.append(["template_definition", "blk2", "", "", defs_cell([("b1", "", "bd")]), "", ""])
    defs.append(["template_definition", "blk3", "", "", defs_cell([("d1", "", "bd")]), "", ""])
    defs.append(["template_definition", "blkm", "", "", defs_cell([("g1", "", "")]), "", ""])
    defs.append(["template_definition", "blkn", "", "", "", "", ""])
    ds = [["data_sheet", n, "", "", "", "", ""] for n in ("data", "bdata", "lookup")]
    if case["index_order"] == "defs-first":
        return [INDEX_HEAD] + defs + ds + create_rows
    return [INDEX_HEAD] + create_rows + ds + defs


def book(case, create_rows):
    s = base_sheets(case)
    s["content_index"] = index_rows(case, create_rows)
    return s


def rows_A(case):
    return [create_row(c, c["row_id"], c["mode"] != "plain") for c in case["creates"]]


def rows_B(case):
    return [create_row(c, i, c["mode"] != "plain") for c in case["creates"] for (_, i) in instances_of(case, c)]


# ---- reference: what the property text says each instance must contain -------------------
def expected_texts(case, create, rid):
    """message texts of the flow of (create row, data row), or None when the case carries a
    feature the reference does not speak about"""
    tp = case["templates"][create["template"]]
    defs = tp["defs"]
    if case["malformed"] in ("shadow", "undefined-attr", "empty-loop", "missing-required", "clash", "unknown-sheet", "unknown-row"):
        return None
    # one private copy of the registries per instance (what deepcopy(context) gives); inside it
    # the data row and the row reached through a sheet argument are the same object
    sheets = {"data": copy.deepcopy(case["data"]), "lookup": copy.deepcopy(case["lookup"])}
    row = next((r for r in sheets["data"] if r["ID"] == rid), None) if rid else None
    args = list(create["args"])[:len(defs)]
    args += [""] * (len(defs) - len(args))
    env = {}
    for (n, t, d), a in zip(defs, args):
        v = a if a != "" else d
        env[n] = sheets[v] if t == "sheet" else copy.deepcopy(v)
    others = [n for tn, t2 in case["templates"].items() if tn != create["template"] for n, _, _ in t2["defs"]]
    out = []
    for f, p in tp["feats"]:
        if f == "field":
            out.append(f"F:{row['val']}:{row['ID']}.")
        elif f == "args":
            out.append("A:" + "".join(str(env[n]) + "/" for n, t, _ in defs if t != "sheet") + ".")
        elif f == "sheet":
            out.append(f"S:M{len(env[p['which']])}.")
        elif f == "readlk":
            sh = env[p["which"]]
            out.append("RL:" + "".join(f"{r['ID']}=" + ("+".join(r["items"]) if "items" in r else r["col"]) + "," for r in sh) + ".")
        elif f == "loop":
            for k, it in enumerate(row["items"]):
                out.append(f"L:{it}:" + (f"{k}:" if p["index"] else "") + f"{row['val']}.")
                if p["inner_cond"] and row["flag"] == "yes":
                    out.append(f"LC:{it}.")
        elif f == "litloop":
            out += [f"E:{e}." for e in p["elems"]]
        elif f == "cond":
            if row["flag"] == "yes":
                out.append(f"C:{row['val']}.")
        elif f == "block":
            b1 = {"val": row["val"], "lit": "LITERAL", "blank": "bd"}[p["arg"]]
            bval = next(b["bval"] for b in case["bdata"] if b["ID"] == row["bid"])
            out.append(f"B:{bval}:{b1}:UDUUU.")     # the block sees its own row's ID, nothing of the outer flow
        elif f == "blocknodata":
            out.append(f"B:-:{row['ID']}:UUUUU.")
        elif f == "probe":
            out.append("P:" + "U" * (6 + len(others)) + ".")
        elif f == "mut":
            row["items"].append("Q")
            out.append("M:" + "+".join(row["items"]) + ".")
        elif f == "read":
            out.append("R:" + "+".join(row["items"]) + ".")
        elif f == "router":
            out += ["RT:yes.", "RT:no."]
        elif f == "al":
            out += al_texts(case, p, env, row, sheets)
        elif f == "nest":
            out += NEST_FORMS[p["form"]][1](row) * (len(row["items"]) if p["inloop"] else 1)
        elif f == "nestblock":
            out += blkn_texts(case, next(b for b in case["bdata"] if b["ID"] == row["bid"]))
        elif f in ("mk", "mkloop", "mkblock"):
            menv = {n: env[n] for n, t, _ in defs if t != "sheet" and not isinstance(env[n], list)}
            if row is not None:
                menv.update(val=row["val"], flag=row["flag"], key=row["key"], ID=row["ID"])
                menv.update(nested_env(row))
            if f == "mk":
                out += mk_texts(p, menv)
            elif f == "mkblock":
                out += mkblock_texts(case, p, menv)
            else:
                for it in row["items"]:
                    out += mk_texts(p, dict(menv, it=it))
    return out


# =====================================================================================
# correspondence (a): Args and Bulk models against the real methods
# =====================================================================================
class _RecFlow:
    def __init__(self, name, seq):
        self.name, self.seq, self.uuid = name, seq, "u-" + name


def make_recorder(log, fail, hidden=None):
    class RecordingFlowParser:
        """stands in for FlowParser inside contentindexparser: records what it is built with.  Anything it is handed beyond
        the arguments the model knows (container, name, table, context, the parser itself) is a channel between instances
        that the theorems' compiler does not have: recorded in `hidden`."""

        def __init__(self, rapidpro_container, flow_name, table=None, flow_uuid=None, context=None,
                     sheet_parser=None, content_index_parser=None, *more, **extra):
            self.c, self.name, self.table, self.context = rapidpro_container, flow_name, table, context
            if hidden is not None:
                for k, val in list(extra.items()) + [(f"positional {i}", x) for i, x in enumerate(more)]:
                    hidden.setdefault(k, []).append(val)
                if flow_uuid is not None:
                    hidden.setdefault("flow_uuid", []).append(flow_uuid)
                if sheet_parser is not None:
                    hidden.setdefault("sheet_parser", []).append(sheet_parser)

        def _go(self):
            seq = getattr(self.c, "_c12_seq", 0)
            log.append((self.name, self.table, py_ctx(self.context), seq, id(self.c), self.context))
            if self.name in fail:
                raise ValueError("recorder: compile fails")
            self.c._c12_seq = seq + 1
            return _RecFlow(self.name, seq)

        def parse(self, add_to_container=True):
            return self._go()

        def parse_as_block(self):
            return self._go()

    return RecordingFlowParser


def gen_args_case(rng, malformed):
    fields = ["val", "ID", "items", "flag"]
    sheets = [("lookup", [("x", [("ID", "x"), ("col", "Cx")]), ("y", [("ID", "y"), ("col", "Cy")])]),
              ("data", [("r1", [("ID", "r1"), ("val", "V")])])]
    names = ["a1", "a2", "a3", "lk", "b"]
    n = rng.choice([0, 1, 2, 2, 3, 3, 4])
    pick = rng.sample(names, n)
    defs = []
    for nm in pick:
        t = rng.choice(["", "", "", "sheet", "sheet", "str"])
        d = rng.choice(["", "", "dflt", "lookup"]) if t != "sheet" else rng.choice(["", "lookup", "data"])
        defs.append((nm, t, d))
    args = []
    for (nm, t, d) in defs:
        if t == "sheet":
            args.append(rng.choice(["lookup", "data", "", ""]) if d else rng.choice(["lookup", "data"]))
        else:
            args.append(rng.choice(["X" + nm, "", "y z"]) if d else rng.choice(["X" + nm, "w"]))
    k = rng.random()
    if k < 0.3 and args:
        args = args[:rng.randrange(len(args) + 1)] if all(d for _, _, d in defs[len(args) - 1:]) else args
    ctx = [(f, rng.choice(["v", ["p", "q"], ""])) for f in rng.sample(fields, rng.choice([0, 2, 3]))]
    kind = "valid"
    if malformed:
        kind = rng.choice(["clash", "dup-decl", "missing", "unknown-sheet", "list-arg", "list-sheet-arg", "too-many",
                           "too-many-blank", "short", "empty-list-arg", "truncate"])
        if kind == "clash" and ctx:
            defs.insert(rng.randrange(len(defs) + 1), (ctx[0][0], "", "d"))
            args = args + [""] * 5
        elif kind == "dup-decl" and defs:
            defs.append((defs[0][0], "", "z"))
        elif kind == "missing":
            defs.append(("req", rng.choice(["", "sheet"]), ""))
            args = args[:len(defs) - 1]
        elif kind == "unknown-sheet":
            defs.append(("us", "sheet", rng.choice(["", "nosuch"])))
            args = (args + [""] * 9)[:len(defs) - 1] + [rng.choice(["nope", ""])]
        elif kind == "list-arg":
            defs.append(("la", "", ""))
            args = (args + [""] * 9)[:len(defs) - 1] + [["p", "q"]]
        elif kind == "list-sheet-arg":
            defs.append(("ls", "sheet", ""))
            args = (args + [""] * 9)[:len(defs) - 1] + [["lookup"]]
        elif kind == "too-many":
            args = (args + [""] * 9)[:len(defs)] + [rng.choice(["E", ["e"], ""]), "F"]
        elif kind == "too-many-blank":
            args = (args + [""] * 9)[:len(defs)] + ["", rng.choice(["", []])]
        elif kind == "short":
            args = args[:max(0, len(args) - 1)]
        elif kind == "empty-list-arg":
            defs.append(("el", "", "dd"))
            args = (args + [""] * 9)[:len(defs) - 1] + [[]]
        elif kind == "truncate":
            args = []
    return dict(sheets=sheets, defs=defs, args=args, ctx=ctx, kind=kind)


def run_args_correspondence(ctx, parser_factory, n):
    from rpft.parsers.creation.contentindexrowmodel import TemplateArgument

    rng, m = ctx.rng, ctx.model
    cases = [gen_args_case(rng, malformed=(i % 5 == 4)) for i in range(n)]
    outs = None
    if m:
        outs = m.ask_many([f"(112 1 {enc_sheets(c['sheets'])} {enc_defs(c['defs'])} {enc_args(c['args'])} {enc_ctx_data(c['ctx'])})"
                           for c in cases])
    dist = {}
    nontrivial = set()
    parser = parser_factory()
    for i, c in enumerate(cases):
        ctx.v.coverage["evaluations"] += 1
        defs = [TemplateArgument(name=n_, type=t, default_value=d) for n_, t, d in c["defs"]]
        r = run_cli_mode(parser.map_template_arguments_to_context, defs, copy.deepcopy(c["args"]), dict(c["ctx"]))
        impl = ("ok", py_ctx(r[1])) if r[0] == "ok" else ("err",)
        key = c["kind"] + ("/ok" if r[0] == "ok" else "/" + r[1])
        dist[key] = dist.get(key, 0) + 1
        if c["defs"]:
            nontrivial.add(repr((c["defs"], c["args"], [k for k, _ in c["ctx"]])))
        if outs is not None:
            mo = parse_sexp(outs[i])
            mod = ("err",) if is_err(mo) else ("ok", dec_ctx(mo[1]))
            if mod != impl:
                ctx.disagree("map_template_arguments_to_context", repr((c["defs"], c["args"], c["ctx"])), repr(mod), repr(impl))
        # the clauses of the property, evaluated on the implementation's own result
        args_oracle(ctx, c, r)
    ctx.stats["args_cases"] = dist
    return nontrivial


def args_oracle(ctx, c, r):
    """positional / default / sheet / missing / doubly-defined, straight from the property text"""
    defs, args, c0 = c["defs"], c["args"], c["ctx"]
    sheets = dict((n, s) for n, s in c["sheets"])
    names = [n for n, _, _ in defs]
    padded = (list(args) + [""] * len(defs))[:len(defs)]
    must_fail = None
    if len(set(names)) != len(names):
        must_fail = "duplicate declaration"
    elif any(n in dict(c0) for n in names):
        must_fail = "doubly defined"
    else:
        for (n, t, d), a in zip(defs, padded):
            v = a if a != "" else d
            if v == "":
                must_fail = "missing required"
            elif t == "sheet" and (not isinstance(v, str) or v not in sheets):
                must_fail = "unknown sheet"
    rep = dict(fn="args", defs=defs, args=args, ctx=c0, sheets=c["sheets"])
    if must_fail:
        if r[0] == "ok":
            ctx.v.failing_input("args-" + must_fail.replace(" ", "-"), f"{must_fail}: accepted, defs={defs} args={args} ctx={c0}", rep)
        return
    if r[0] != "ok":
        ctx.v.failing_input("args-valid-rejected", f"valid arguments rejected: defs={defs} args={args} -> {r}", rep)
        return
    got = r[1]
    for (n, t, d), a in zip(defs, padded):
        v = a if a != "" else d
        want = py_val(_rows_as_dict(sheets[v])) if t == "sheet" else v
        have = py_val(got.get(n))
        if have != want:
            k = "args-sheet" if t == "sheet" else ("args-default" if a == "" else "args-positional")
            ctx.v.failing_input(k, f"{n} bound to {have!r}, expected {want!r}; defs={defs} args={args}", rep)
            return
    for k0, v0 in c0:
        if py_val(got.get(k0)) != v0:
            ctx.v.failing_input("args-context-changed", f"context key {k0} changed", rep)
            return


def _rows_as_dict(s):
    from collections import OrderedDict
    return OrderedDict((i, OrderedDict(r)) for i, r in s)


class _Row(dict):
    """a data row standing in for a pydantic model: dict(row) gives its fields"""


def make_parser_factory():
    """a real ContentIndexParser built by the real reader from a scratch CSV folder"""
    from rpft.converters import get_content_index_parser

    def factory(extra_index_rows=(), sheets=None):
        d = tempfile.mkdtemp(prefix="c12corr")
        try:
            book_ = {
                "content_index": [INDEX_HEAD, ["data_sheet", "lookup", "", "", "", "", ""], ["data_sheet", "data", "", "", "", "", ""]] + list(extra_index_rows),
                "lookup": [["ID", "col"], ["x", "Cx"], ["y", "Cy"]],
                "data": [["ID", "val"], ["r1", "V"]],
            }
            if sheets:
                book_.update(sheets)
            write_book(d, book_)
            r = run_cli_mode(get_content_index_parser, [d], "csv", None, [])
            if r[0] != "ok":
                raise RuntimeError(f"cannot build a ContentIndexParser: {r}")
            return r[1]
        finally:
            shutil.rmtree(d, ignore_errors=True)
    return factory


# ---- Bulk correspondence ---------------------------------------------------------------
def gen_bulk_case(rng, malformed):
    ids_pool = ["r1", "r2", "x", "k 3", "é", "10"]
    n = rng.choice([0, 1, 2, 3, 3, 4])
    ids = rng.sample(ids_pool, n)
    data = [(i, [("ID", i), ("val", "V" + i), ("items", [i, "z"])]) for i in ids]
    lookup = [("x", [("ID", "x"), ("col", "Cx")])]
    tdefs = {"t1": [("a1", "", ""), ("a2", "", "d2")], "t2": [("lk", "sheet", "lookup")], "t3": []}
    rows = []
    for _ in range(rng.choice([1, 2, 3, 4])):
        t = rng.choice(list(tdefs))
        mode = rng.choice(["bulk", "bulk", "single", "plain"])
        ds = "data" if mode != "plain" else ""
        rid = rng.choice(ids) if (mode == "single" and ids) else ""
        args = {"t1": rng.choice([["A"], ["A", "B"], ["A", ""], ["A", "B", ""]]), "t2": rng.choice([[""], ["lookup"], ["data"]]),
                "t3": rng.choice([[""], []])}[t]
        rows.append([t, rng.choice(["", "", "nn", "t1"]), ds, rid, args])
    fail = []
    kind = "valid"
    if malformed:
        kind = rng.choice(["compile-fails", "rowid-without-sheet", "unknown-row", "unknown-data-sheet", "missing-arg",
                           "clash", "blank-id", "same-names"])
        if kind == "compile-fails" and ids:
            r0 = rows[0]
            fail = [(r0[1] or r0[0]) + " - " + rng.choice(ids)]
        elif kind == "rowid-without-sheet":
            rows.insert(rng.randrange(len(rows) + 1), ["t3", "", "", "r1", [""]])
        elif kind == "unknown-row":
            rows.append(["t3", "", "data", "nosuch", [""]])
        elif kind == "unknown-data-sheet":
            rows.append(["t3", "", "nosheet", rng.choice(["", "r1"]), [""]])
        elif kind == "missing-arg":
            rows.append(["t1", "", "data", "", [""]])
        elif kind == "clash":
            tdefs["t3"] = [("val", "", "d")]
        elif kind == "blank-id":
            data.insert(rng.randrange(len(data) + 1), ("", [("ID", ""), ("val", "Vblank"), ("items", [])]))
        elif kind == "same-names":
            for r in rows:
                r[1] = "same"
    return dict(data=data, lookup=lookup, tdefs=tdefs, rows=rows, fail=fail, kind=kind)


def gen_calls(rng, c):
    """the calls of a history on the parser of bulk case c: the index as given, then the same rows in another order, a
    sub-list with a row repeated, and get_node_group calls (valid, unknown row, half-given) in between"""
    rows = c["rows"]
    ids = [i for i, _ in c["data"]]
    calls = [("all", rows)]
    for _ in range(rng.choice([2, 3, 4])):
        k = rng.random()
        if k < 0.35:
            perm = list(rows)
            rng.shuffle(perm)
            calls.append(("all", perm))
        elif k < 0.6:
            sub = [rng.choice(rows) for _ in range(rng.choice([1, 2, 3]))]
            calls.append(("all", sub))
        else:
            t = rng.choice(list(c["tdefs"]))
            args = {"t1": rng.choice([["A"], ["A", "B"], []]), "t2": rng.choice([[""], ["lookup"], ["nosuch"]]), "t3": [[""], []][rng.randrange(2)]}[t]
            mode = rng.choice(["row", "row", "none", "half", "unknown"])
            ds, rid = {"row": ("data", rng.choice(ids) if ids else "zz"), "none": ("", ""), "half": rng.choice([("data", ""), ("", "r1")]),
                       "unknown": ("data", "nosuch")}[mode]
            calls.append(("block", t, ds, rid, args))
    if rng.random() < 0.5:
        calls.append(calls[rng.randrange(len(calls))])     # a call repeated verbatim
    return calls


def enc_cfrows(rows):
    return "(" + " ".join(f"({enc_str(r[0])} {enc_str(r[1])} {enc_str(r[2])} {enc_str(r[3])} {enc_args(r[4])})" for r in rows) + ")"


def run_bulk_correspondence(ctx, n):
    """Model (BulkHistory.run_calls, extracted) against ONE real ContentIndexParser per case: a history of parse_all_flows
    passes and get_node_group calls on the same object, FlowParser replaced by a recorder; every call compared."""
    import rpft.parsers.creation.contentindexparser as cip
    from rpft.parsers.creation.contentindexrowmodel import ContentIndexRowModel
    from rpft.rapidpro.models.containers import RapidProContainer

    rng, m = ctx.rng, ctx.model
    cases = [gen_bulk_case(rng, malformed=(i % 4 == 3)) for i in range(n)]
    tnum = {"t1": 1, "t2": 2, "t3": 3}
    reqs = []
    for c in cases:
        c["calls"] = gen_calls(rng, c)
        ts = "(" + " ".join(f"({enc_str(t)} {tnum[t]} {enc_defs(d)})" for t, d in c["tdefs"].items()) + ")"
        ss = enc_sheets([("data", c["data"]), ("lookup", c["lookup"])])
        calls = "(" + " ".join(f"(0 {enc_cfrows(cl[1])})" if cl[0] == "all" else
                               f"(1 {enc_str(cl[1])} {enc_str(cl[2])} {enc_str(cl[3])} {enc_args(cl[4])})" for cl in c["calls"]) + ")"
        fail = "(" + " ".join(enc_str(f) for f in c["fail"]) + ")"
        reqs.append(f"(112 5 {ts} {ss} {calls} {fail})")
    outs = m.ask_many(reqs) if m else None
    dist = {}
    hdist = {"calls": {}, "histories": 0, "calls_total": 0, "verbatim_repeats": 0}
    nontrivial = set()
    hidden = {}
    shared_ctx = 0
    orig = cip.FlowParser
    try:
        for i, c in enumerate(cases):
            log = []
            cip.FlowParser = make_recorder(log, set(c["fail"]), hidden)
            # the real parser object, its registries filled by the real index processing
            sheets = {
                "data": [["ID", "val", "items:List[str]"]] + [[i_, dict(r)["val"], ";".join(dict(r)["items"]) + (";" if len(dict(r)["items"]) == 1 else "")] for i_, r in c["data"]],
                "lookup": [["ID", "col"]] + [[i_, dict(r)["col"]] for i_, r in c["lookup"]],
                "t1": [["type"], ["send_message"]], "t2": [["type"], ["send_message"]], "t3": [["type"], ["send_message"]],
            }
            idx = [["template_definition", t, "", "", defs_cell(d), "", ""] for t, d in c["tdefs"].items()]
            r0 = run_cli_mode(_build_parser, sheets, idx)
            if r0[0] != "ok":
                ctx.disagree("building the parser for the Bulk correspondence", repr(c), "-", repr(r0))
                continue
            parser = r0[1]          # ONE object for the whole history
            tables = {id(parser.template_sheets[t].table): tnum[t] for t in tnum if t in parser.template_sheets}
            mouts = parse_sexp(outs[i]) if outs is not None else None
            hdist["histories"] += 1
            hdist["verbatim_repeats"] += len(c["calls"]) - len({repr(x) for x in c["calls"]})
            for j, cl in enumerate(c["calls"]):
                ctx.v.coverage["evaluations"] += 1
                hdist["calls_total"] += 1
                del log[:]
                if cl[0] == "all":
                    parser.flow_definition_rows = [
                        (f"row {k}", ContentIndexRowModel(type="create_flow", sheet_name=[r[0]], new_name=r[1], data_sheet=r[2],
                                                          data_row_id=r[3], template_arguments=copy.deepcopy(r[4])))
                        for k, r in enumerate(cl[1])]
                    cont = RapidProContainer()
                    r = run_cli_mode(parser.parse_all_flows, cont)
                    impl = ("ok", [(f.name, f.seq) for f in cont.flows], getattr(cont, "_c12_seq", 0)) if r[0] == "ok" else ("err",)
                else:
                    r = run_cli_mode(parser.get_node_group, cl[1], cl[2], cl[3], copy.deepcopy(cl[4]))
                    impl = ("ok", None, r[1].seq) if r[0] == "ok" else ("err",)     # a block is compiled in a container of its own
                hk = cl[0] + "/" + ("ok" if r[0] == "ok" else r[1])
                hdist["calls"][hk] = hdist["calls"].get(hk, 0) + 1
                if j == 0:
                    key = c["kind"] + "/" + ("ok" if r[0] == "ok" else r[1])
                    dist[key] = dist.get(key, 0) + 1
                trace = [(nm, tables.get(id(tb), 0), cx) for (nm, tb, cx, seq, cid, cobj) in log]
                if len({id(x[5]) for x in log}) != len(log):
                    shared_ctx += 1
                if len(trace) >= 2:
                    nontrivial.add(repr((cl, [i_ for i_, _ in c["data"]])))
                if mouts is None:
                    continue
                mo = mouts[j]
                what = f"call {j} of the history {c['calls']!r} on one ContentIndexParser"
                if cl[0] == "all":
                    res, plan = mo
                    mod = ("err",) if is_err(res) else ("ok", [(dec_str(f[0]), f[3]) for f in res[1]], res[2])
                    if mod != impl:
                        ctx.disagree("parse_all_flows (flows, order, threading): " + what, repr((cl[1], c["data"], c["fail"])), repr(mod), repr(impl))
                    # the plan: every FlowParser construction, in order, up to the first stop
                    mtrace = []
                    for it in plan:
                        if is_err(it):
                            break
                        nm, tb, cx = it[1]
                        mtrace.append((dec_str(nm), tb, dec_ctx(cx)))
                        if dec_str(nm) in c["fail"]:
                            break
                    if mtrace != trace:
                        ctx.disagree("instances handed to FlowParser (name, table, context): " + what, repr((cl[1], c["data"])), repr(mtrace), repr(trace))
                else:
                    if is_err(mo):
                        mod, mtrace = ("err",), None
                    else:
                        mod, mtrace = ("ok", None, mo[3]), [(tb_, dec_ctx(cx_)) for tb_, cx_ in [(mo[1], mo[2])]]
                    if mod != impl:
                        ctx.disagree("get_node_group: " + what, repr(cl), repr(mod), repr(impl))
                    elif mtrace is not None and [(t_, c_) for (_, t_, c_) in trace] != mtrace:
                        ctx.disagree("get_node_group hands FlowParser (table, context): " + what, repr(cl), repr(mtrace), repr(trace))
    finally:
        cip.FlowParser = orig
    if hidden:
        # an argument beyond (container, name, table, context, the parser) is a channel between instances only when the SAME
        # mutable object reaches two constructions; fresh or immutable extras are recorded, not judged
        immut = (str, int, float, bool, type(None), tuple, frozenset, bytes)
        shared = {}
        for k, vals in hidden.items():
            seen = {}
            for x in vals:
                if not isinstance(x, immut):
                    seen[id(x)] = seen.get(id(x), 0) + 1
            if any(n_ >= 2 for n_ in seen.values()):
                shared[k] = type(vals[0]).__name__
        ctx.stats["flowparser_extra_arguments"] = {k: len(v) for k, v in hidden.items()}
        if shared:
            ctx.disagree("FlowParser instances are constructed with a shared mutable object the model's compiler does not have (a channel "
                         "between instances other than the container state)", sorted(shared), "container, name, table, context, content_index_parser",
                         shared)
    if shared_ctx:
        ctx.disagree("two FlowParsers of one call are handed the SAME context object", shared_ctx, "a fresh dict per instance", "shared")
    ctx.stats["bulk_model_cases"] = dist
    ctx.stats["bulk_model_histories"] = hdist
    return nontrivial


def _build_parser(sheets, idx_rows):
    from rpft.converters import get_content_index_parser

    d = tempfile.mkdtemp(prefix="c12corr")
    try:
        b = dict(sheets)
        b["content_index"] = [INDEX_HEAD, ["data_sheet", "lookup", "", "", "", "", ""], ["data_sheet", "data", "", "", "", "", ""]] + idx_rows
        write_book(d, b)
        return get_content_index_parser([d], "csv", None, [])
    finally:
        shutil.rmtree(d, ignore_errors=True)


# =====================================================================================
# (a) Index/Alias.v: instances that change their values in place — the extracted run_all against create_flows
# =====================================================================================
# op name -> wire form (Wire/C12Wire.dec_mop)
def enc_mop(o):
    fixed = {"pop": "(0)", "pop0": "(1)", "pop-guarded": "(2)", "pop0-guarded": "(3)", "reverse": "(6)", "sort": "(7)", "set-sortrev": "(8)",
             "set-clear": "(10)", "set-remove": "(11)", "for-pop": "(13)"}
    if o in fixed:
        return fixed[o]
    if o == "append":
        return f"(4 {enc_str('Z')})"
    if o == "set-append":
        return f"(4 {enc_str('S')})"
    if o == "insert":
        return f"(5 {enc_str('Y')})"
    if o == "extend":
        return f"(9 ({enc_str('Z')} {enc_str('Y')}))"
    if o == "set-item":
        return f"(12 {enc_str('W')})"
    raise ValueError(o)


AM_SEL = {"self": ("@V", 0), "first": ("@V[0]", 1), "last": ("@V[-1]", 2)}


def gen_alias_case(rng):
    """templates whose rows change lists in place, a data sheet with a flat and a two-level list field, create_flow rows (bulk,
    single, the same data row again, a list-valued template argument): one run = one sequence of instances"""
    ids = rng.sample(["r1", "r2", "r3", "x"], rng.choice([1, 2, 2, 3]))
    word = lambda: rng.choice(["a", "b", "c", "Lo", "k9", "é1", "Zed", "mm"])
    data = {i: dict(p=[word() for _ in range(rng.choice([1, 2, 3]))],
                    q=[[word() for _ in range(rng.choice([1, 2, 3]))] for _ in range(rng.choice([1, 2, 3]))]) for i in ids}
    lits = [[[word() for _ in range(rng.choice([1, 2, 2, 3]))] for _ in range(rng.choice([1, 2, 3]))] for _ in range(2)]
    risky = rng.random() < 0.25          # unguarded pops beyond what is there: some instance stops

    def ops():
        names = [o for o in AL_OPS if risky or AL_OPS[o][2]] + ["pop"]
        return [rng.choice(names) for _ in range(rng.choice([0, 1, 1, 2, 2, 3]))]

    templates = {}
    for t in ["ta", "tb"][:rng.choice([1, 2, 2])]:
        has_arg = rng.random() < 0.5
        items = []
        for _ in range(rng.choice([1, 2, 3, 4])):
            k = rng.random()
            if k < 0.3:
                items.append(("loop", ("lit", rng.randrange(2)), ops()))
            elif k < 0.5:
                items.append(("loop", ("var", "q"), ops()))
            else:
                v, sel = rng.choice([("p", "self"), ("p", "self"), ("q", "first"), ("q", "last")] + ([("g", "self")] * 2 if has_arg else []))
                items.append(("msg", v, sel, ops()))
        templates[t] = dict(has_arg=has_arg, items=items)
    creates = []
    for k in range(rng.choice([1, 2, 3, 4])):
        t = rng.choice(list(templates))
        creates.append(dict(template=t, row_id=rng.choice(["", "", rng.choice(ids)]), new_name=f"n{k}",
                            arg=[word() for _ in range(rng.choice([1, 2, 3]))] if templates[t]["has_arg"] else None))
    return dict(ids=ids, data=data, lits=lits, templates=templates, creates=creates, risky=risky)


def alias_case_sheets(c):
    sheets = {"data": [["ID", "p:list", "q:list"]] + [[i, ";".join(c["data"][i]["p"]) + (";" if len(c["data"][i]["p"]) == 1 else ""), nested_cell(c["data"][i]["q"])]
                                                        for i in c["ids"]]}
    head = ["row_id", "type", "from", "loop_variable", "message_text"]
    for t, tp in c["templates"].items():
        rows = [head]
        for it in tp["items"]:
            if it[0] == "msg":
                _, v, sel, ops = it
                rows.append(["", "send_message", "", "", al_cell("M", ops, AM_SEL[sel][0].replace("@V", v))])
            else:
                _, (kind, what), ops = it
                rows.append(["", "begin_for", "", "pr", nested_cell(c["lits"][what]) if kind == "lit" else "{@ %s @}" % what])
                rows.append(["", "send_message", "", "", al_cell("M", ops, "pr")])
                rows.append(["", "end_for", "", "", ""])
        sheets[t] = rows
    idx = [INDEX_HEAD, ["data_sheet", "data", "", "", "", "", ""]]
    for t, tp in c["templates"].items():
        idx.append(["template_definition", t, "", "", "g;;|" if tp["has_arg"] else "", "", ""])
    for cr in c["creates"]:
        idx.append(["create_flow", cr["template"], "data", cr["row_id"], args_cell([cr["arg"]]) if cr["arg"] is not None else "", cr["new_name"], ""])
    sheets["content_index"] = idx
    return sheets


def alias_case_instances(c):
    """the instances of the run in the order create_flows generates them: (flow name, create row number, data row)"""
    out = []
    for k, cr in enumerate(c["creates"]):
        for i in ([cr["row_id"]] if cr["row_id"] else c["ids"]):
            out.append((f"{cr['new_name']} - {i}", k, i))
    return out


def enc_alias_case(c):
    def item(it):
        if it[0] == "msg":
            _, v, sel, ops = it
            return f"(0 {enc_str(v)} {AM_SEL[sel][1]} ({' '.join(enc_mop(o) for o in ops)}))"
        _, (kind, what), ops = it
        src = f"(0 {enc_str(nested_cell(c['lits'][what]))})" if kind == "lit" else f"(1 {enc_str(what)})"
        return f"(1 {src} ({' '.join(enc_mop(o) for o in ops)}))"
    insts = []
    for name, k, i in alias_case_instances(c):
        cr = c["creates"][k]
        tp = c["templates"][cr["template"]]
        # (variable, the registry object it comes from, value): a field of a data row belongs to the row, an argument to the index row
        binds = [f"({enc_str('p')} {enc_str('data/' + i + '/p')} {enc_nv(c['data'][i]['p'])})",
                 f"({enc_str('q')} {enc_str('data/' + i + '/q')} {enc_nv(c['data'][i]['q'])})"]
        if cr["arg"] is not None:
            binds.append(f"({enc_str('g')} {enc_str('index row %d/arg' % k)} {enc_nv(cr['arg'])})")
        insts.append(f"(({' '.join(binds)}) ({' '.join(item(it) for it in tp['items'])}))")
    return f"(112 6 ({' '.join(insts)}))"


def alias_text(o):
    """what al_cell renders, from the model's observation (printed values, the list afterwards)"""
    printed, shown = [dec_nv(x) for x in o[0]], dec_nv(o[1])
    return "M:" + "".join(str(x) for x in printed) + ":" + "+".join(str(x) for x in shown) + f":{len(shown)}."


def run_alias_correspondence(ctx, n):
    """Index/Alias.run_all (extracted, under the policy measured on the code) against create_flows: the same sequences of instances
    — bulk rows, the same data row again, the same literal cell in several loops, a list-valued argument shared by the instances of
    an index row — whose rows pop / append / sort / clear ... the lists they are given; every instance compared (message texts),
    and the instance at which the run stops"""
    rng, m = ctx.rng, ctx.model
    cases = [gen_alias_case(rng) for _ in range(n)]
    outs = m.ask_many([enc_alias_case(c) for c in cases]) if m else None
    st = {"runs": 0, "instances": 0, "instances_per_run": {}, "runs_with_a_data_row_instantiated_twice": 0, "runs_with_a_literal_cell_in_two_loops": 0,
          "runs_with_a_shared_argument": 0, "ops": {}, "items": {}, "model": {"ok": 0, "stops": 0, "unsupported": 0}, "policy_as_coded": None}
    nontrivial = set()
    for k, c in enumerate(cases):
        ctx.v.coverage["evaluations"] += 1
        insts = alias_case_instances(c)
        st["runs"] += 1
        st["instances"] += len(insts)
        st["instances_per_run"][len(insts)] = st["instances_per_run"].get(len(insts), 0) + 1
        rows_used = [i for _, _, i in insts]
        st["runs_with_a_data_row_instantiated_twice"] += 1 if len(set(rows_used)) < len(rows_used) else 0
        lit_loops = [it[1][1] for _, kk, _ in insts for it in c["templates"][c["creates"][kk]["template"]]["items"] if it[0] == "loop" and it[1][0] == "lit"]
        st["runs_with_a_literal_cell_in_two_loops"] += 1 if len(set(lit_loops)) < len(lit_loops) else 0
        st["runs_with_a_shared_argument"] += 1 if any(cr["arg"] is not None and not cr["row_id"] and len(c["ids"]) > 1 for cr in c["creates"]) else 0
        for tp in c["templates"].values():
            for it in tp["items"]:
                kind = it[0] + "/" + (it[2] if it[0] == "msg" else it[1][0])
                st["items"][kind] = st["items"].get(kind, 0) + 1
                for o in it[-1]:
                    st["ops"][o] = st["ops"].get(o, 0) + 1
        r = compile_book(alias_case_sheets(c))
        if r[0] == "ok":
            flows = {f["name"]: texts_of(f) for f in r[1]["flows"]}
            impl = ("ok", [flows.get(nm) for nm, _, _ in insts])
        else:
            impl = ("err",)
        if len(insts) >= 2:
            nontrivial.add(repr((c["creates"], c["templates"])))
        if outs is None:
            continue
        mo = parse_sexp(outs[k])
        if not (isinstance(mo, list) and len(mo) == 2):
            ctx.disagree("Alias.run_all: the model refuses the input", repr(c)[:500], repr(mo)[:200], repr(impl)[:200])
            continue
        st["policy_as_coded"] = {"instance_context_private": bool(mo[0][0]), "literal_lists_fresh": bool(mo[0][1])}
        res = mo[1]
        if any(is_err(x) and x[1] != 1 for x in res):
            st["model"]["unsupported"] += 1         # outside the model: nothing claimed
            continue
        if res and is_err(res[-1]):
            st["model"]["stops"] += 1
            mod = ("err",)
        else:
            st["model"]["ok"] += 1
            mod = ("ok", [[alias_text(o) for o in x[1]] for x in res])
        if mod != impl:
            what = "instances that change their values in place: create_flows vs Alias.run_all"
            if mod[0] == impl[0] == "ok":
                j = next(j for j, (a, b) in enumerate(zip(mod[1], impl[1])) if a != b)
                what += f" (instance {j} of {len(insts)}, flow {insts[j][0]!r})"
                ctx.disagree(what, repr(dict(creates=c["creates"], templates=c["templates"], data=c["data"], lits=c["lits"]))[:900], repr(mod[1][j]), repr(impl[1][j]))
            else:
                ctx.disagree(what, repr(dict(creates=c["creates"], templates=c["templates"], data=c["data"], lits=c["lits"]))[:900], repr(mod)[:300],
                             repr(impl if impl[0] == "ok" else r)[:300])
    ctx.stats["mutation_model_runs"] = st
    return nontrivial


# =====================================================================================
# identity of the mutable values an instance can reach (wave 4)
# =====================================================================================
_IMMUTABLE = (str, int, float, bool, type(None), bytes, frozenset, complex, range)


def reachable_mutables(root, keep, limit=20000):
    """ids of the mutable objects reachable from root (lists, dicts, sets, objects with attributes), following containers, tuples
    and attributes; every object visited is appended to `keep`, so that it stays alive and its id is not reused"""
    import types
    out, todo, seen = {}, [root], set()
    while todo and len(seen) < limit:
        x = todo.pop()
        if isinstance(x, _IMMUTABLE) or id(x) in seen:
            continue
        if isinstance(x, (type, types.ModuleType, types.FunctionType, types.BuiltinFunctionType, types.MethodType)):
            continue
        seen.add(id(x))
        keep.append(x)
        if isinstance(x, dict):
            out[id(x)] = type(x).__name__
            todo.extend(x.keys())
            todo.extend(x.values())
        elif isinstance(x, (list, set, bytearray)):
            out[id(x)] = type(x).__name__
            if not isinstance(x, bytearray):
                todo.extend(x)
        elif isinstance(x, tuple):
            todo.extend(x)
        else:
            d = getattr(x, "__dict__", None)
            if isinstance(d, dict):
                out[id(x)] = type(x).__name__
                todo.extend(d.values())
    return out


class AliasWatch:
    """While active, records for every FlowParser (= one template instance, blocks included) the identity of every mutable
    object reachable from (i) the context its SheetParser works in, (ii) every value added to that context afterwards (loop
    variables), (iii) every parsed row it is handed.  `shared()` = the objects reachable from two different instances: a channel
    between instances whatever the templates do with it."""

    def __init__(self):
        self.instances = []     # (flow name, {route: {id: type name}})
        self.by_sheetparser = {}
        self.keep = []

    def __enter__(self):
        import rpft.parsers.creation.flowparser as fp
        import rpft.parsers.common.sheetparser as sp
        self.FP, self.SP = fp.FlowParser, sp.SheetParser
        self.orig = (self.FP.__init__, self.SP.add_to_context, self.SP.parse_next_row)
        w = self

        def fp_init(self_, *a, **k):
            w.orig[0](self_, *a, **k)
            shp = getattr(self_, "sheet_parser", None)
            if shp is not None and id(shp) not in w.by_sheetparser:
                rec = {"context": reachable_mutables(getattr(shp, "context", None), w.keep), "loop variable": {}, "parsed row": {}}
                w.keep.append(shp)
                w.by_sheetparser[id(shp)] = rec
                w.instances.append((getattr(self_, "flow_name", "?"), rec))

        def add_to_context(self_, key, value, *a, **k):
            rec = w.by_sheetparser.get(id(self_))
            if rec is not None:
                rec["loop variable"].update(reachable_mutables(value, w.keep))
            return w.orig[1](self_, key, value, *a, **k)

        def parse_next_row(self_, *a, **k):
            r = w.orig[2](self_, *a, **k)
            rec = w.by_sheetparser.get(id(self_))
            if rec is not None and r is not None:
                rec["parsed row"].update(reachable_mutables(r, w.keep))
            return r

        self.FP.__init__, self.SP.add_to_context, self.SP.parse_next_row = fp_init, add_to_context, parse_next_row
        return self

    def __exit__(self, *exc):
        self.FP.__init__, self.SP.add_to_context, self.SP.parse_next_row = self.orig
        return False

    def shared(self):
        """[(type name, [(instance index, flow name, route), ...])] for every mutable object two instances can reach"""
        owners = {}
        for k, (name, rec) in enumerate(self.instances):
            for route, ids in rec.items():
                for i, tn in ids.items():
                    owners.setdefault(i, (tn, []))[1].append((k, name, route))
        out = []
        for i, (tn, who) in owners.items():
            if len({k for k, _, _ in who}) >= 2:
                out.append((tn, sorted(set(who))))
        return out


# =====================================================================================
# (b) the differential oracle on the real implementation
# =====================================================================================
def check_case(ctx, case, alone_budget=3, record=None, history=True):
    """runs A, B, P, some instances alone and a history of calls on one long-lived parser; returns the number of failing
    inputs reported"""
    v = ctx.v
    rng_perm = case["perm_seed"]
    import random as _r
    resolve_targets(case)
    insts = [(c, i) for c in case["creates"] for (_, i) in instances_of(case, c)]
    names = [flow_name(c, i) for c, i in insts]
    unique = len(set(names)) == len(names)
    with AliasWatch() as watch:
        A = compile_book(book(case, rows_A(case)))
    B = compile_book(book(case, rows_B(case)))
    rep = dict(fn="case", case=case)
    nfail = 0
    sh = watch.shared()
    if record is not None:
        record["watched_instances"] = len(watch.instances)
        record["shared"] = sh
    elif sh:
        print("   instances of index A reach the same mutable object:", sh[:3])
    del watch

    def fail(key, msg):
        nonlocal nfail
        nfail += 1
        v.failing_input(key, msg, rep)

    if record is not None:
        record["A"] = A[0]
        record["instances"] = len(insts)
    if A[0] != B[0]:
        fail("bulk-vs-single-status", f"index A (bulk) -> {A[0]} {A[1:] if A[0] != 'ok' else ''}; index B (row by row) -> {B[0]} {B[1:] if B[0] != 'ok' else ''}")
        return nfail
    # instances alone
    sample = list(range(len(insts)))
    if len(sample) > alone_budget:
        rr = _r.Random(rng_perm)
        sample = sorted(rr.sample(sample, alone_budget))
    alone = {}
    for k in sample:
        c, i = insts[k]
        alone[k] = compile_book(book(case, [create_row(c, i, c["mode"] != "plain")]))
    if A[0] != "ok":
        if unique and len(sample) == len(insts) and all(a[0] == "ok" for a in alone.values()):
            fail("bulk-error-not-in-any-single", f"index A stops ({A[1:]}) but every instance compiles alone")
        elif case["malformed"] is None and re.search(r'Error while parsing cell "(AL|BM)', str(A[2:])) \
                and all(expected_texts(case, c, i) is not None for c, i in insts):
            # a cell of a mutating feature: the generator writes it so that it is defined on the values the property gives the instance
            # (every unguarded pop has an element to pop when the instance works on lists of its own).  Other stops of a well-formed
            # workbook are not judged: a loop all of whose rows are excluded leaves nothing to connect to; {@ x @} of the text "10" is
            # the number 10, on which |length fails.
            fail("mutating-cell-fails", f"a cell that changes a list in place fails ({A[1:]}): it is defined when the instance works on its own values")
        return nfail
    fa = A[1]["flows"]
    got_names = [f["name"] for f in fa]
    want_names = list(dict.fromkeys(names))
    if got_names != want_names:
        fail("bulk-names", f"flow names {got_names!r}, expected {want_names!r}")
        return nfail
    d = same_upto(A[1], B[1], Bij())
    if d:
        fail("bulk-vs-single", f"index A and index B differ (up to invented uuids) at {d}")
        return nfail
    if unique:
        # permuted instance order
        rr = _r.Random(rng_perm)
        rb = rows_B(case)
        rr.shuffle(rb)
        P = compile_book(book(case, rb))
        if P[0] != "ok":
            fail("permuted-status", f"permuted index stops: {P[1:]}")
            return nfail
        fp = {f["name"]: f for f in P[1]["flows"]}
        if sorted(fp) != sorted(got_names):
            fail("permuted-names", f"permuted index gives flows {sorted(fp)!r}")
            return nfail
        for f in fa:
            d = same_upto(f, fp[f["name"]], Bij())
            if d:
                fail("permuted-instance", f"flow {f['name']!r} differs when the instances are generated in another order: {d}")
                return nfail
        if sorted(g["name"] for g in A[1]["groups"]) != sorted(g["name"] for g in P[1]["groups"]):
            fail("permuted-groups", "group set differs under permutation")
            return nfail
        for k, a in alone.items():
            c, i = insts[k]
            if a[0] != "ok":
                fail("alone-status", f"instance {names[k]!r} compiles inside index A but stops when compiled alone: {a[1:]}")
                return nfail
            fl = a[1]["flows"]
            if [f["name"] for f in fl] != [names[k]]:
                fail("alone-names", f"alone run gives {[f['name'] for f in fl]!r}, expected {[names[k]]!r}")
                return nfail
            d = same_upto(fa[got_names.index(names[k])], fl[0], Bij())
            if d:
                fail("instance-leak", f"flow {names[k]!r} inside index A differs from the same instance compiled alone: {d}")
                return nfail
        # reference texts
        for k, (c, i) in enumerate(insts):
            want = expected_texts(case, c, i)
            if want is None:
                continue
            have = texts_of(fa[got_names.index(names[k])])
            if have != want:
                fail("instance-text", f"flow {names[k]!r}: texts {have!r}, expected {want!r}")
                return nfail
        if history:
            h = run_history(case, insts, names, alone, B[1], rng_perm, record)
            if h:
                fail(h[0], h[1])
    return nfail


def history_ops(n_insts, sample, seed):
    """calls on ONE ContentIndexParser: the sampled instances in a drawn order, one of them again after the others
    (same template, same data row), a whole parse_all_flows pass somewhere in between, the first one once more at the end"""
    import random as _r
    rr = _r.Random(seed ^ 0x5A5A)
    order = list(sample)
    rr.shuffle(order)
    ops = [("flow", k) for k in order]
    if order:
        ops.insert(rr.randrange(len(ops) + 1), ("flow", rr.choice(order)))
    if rr.random() < 0.5:
        ops.insert(rr.randrange(len(ops) + 1), ("all",))
    if order and rr.random() < 0.6:
        ops.append(("flow", order[0]))
    return ops


def run_history(case, insts, names, alone, whole, seed, record=None):
    """The instances of index B generated by _parse_flow calls on ONE long-lived ContentIndexParser, in another order
    and repeatedly; each call must give the flow the instance gives when compiled ALONE by a fresh parser (full JSON up
    to invented uuids), a parse_all_flows pass in between what index B gives.  -> None | (key, summary)"""
    from rpft.rapidpro.models.containers import RapidProContainer

    sheets = book(case, rows_B(case))
    r0 = run_cli_mode(_build_from_sheets, sheets)
    if r0[0] != "ok":
        return ("history-status", f"index B compiles through create_flows but its parser cannot be built: {r0[1:]}")
    parser = r0[1]
    rows = [row for _, row in parser.flow_definition_rows]
    if len(rows) != len(insts):
        return None     # duplicate names / malformed: instances and index rows do not pair up
    ops = history_ops(len(insts), sorted(alone), seed)
    if record is not None:
        record["history_ops"] = [o[0] for o in ops]
        record["history_repeats"] = len(ops) - len(set(ops))
    snap = registry_snapshot(parser)
    for j, op in enumerate(ops):
        if op[0] == "flow":
            k = op[1]
            row = rows[k]
            def one(row=row):
                # what parse_all_flows does for one index row, in a container of its own
                cont = RapidProContainer()
                cont.add_flow(parser._parse_flow(row.sheet_name[0], row.data_sheet, row.data_row_id, row.template_arguments, cont, row.new_name))
                return cont.render()["flows"][0]
            r = run_cli_mode(one)
            if r[0] != "ok":
                return ("history-status", f"call {j} of {ops}: instance {names[k]!r} compiles alone but stops on the long-lived parser: {r[1:]}")
            d = same_upto(r[1], alone[k][1]["flows"][0], Bij())
            if d:
                return ("history-instance", f"call {j} of {ops} on one ContentIndexParser: flow {names[k]!r} differs from the same instance "
                                            f"compiled alone by a fresh parser: {d}")
        else:
            def go():
                cont = RapidProContainer()
                parser.parse_all_flows(cont)
                return cont.render()
            r = run_cli_mode(go)
            if r[0] != "ok":
                return ("history-status", f"call {j} of {ops}: parse_all_flows stops on the long-lived parser: {r[1:]}")
            d = same_upto(r[1]["flows"], whole["flows"], Bij())
            if d:
                return ("history-instance", f"call {j} of {ops} on one ContentIndexParser: parse_all_flows differs from index B compiled afresh: {d}")
    if record is not None:
        record["registry_changed"] = registry_snapshot(parser) != snap
    return None


def registry_snapshot(parser):
    """what survives on the parser object from one call to the next: template sheets (rows + every other attribute) and data sheets"""
    t = {n: ([tuple(r) for r in ts.table], {k: repr(x) for k, x in vars(ts).items() if k != "table"}) for n, ts in parser.template_sheets.items()}
    d = {n: repr(ds.rows) for n, ds in parser.data_sheets.items()}
    return t, d


def _build_from_sheets(sheets):
    from rpft.converters import get_content_index_parser

    d = tempfile.mkdtemp(prefix="c12hist")
    try:
        write_book(d, sheets)
        return get_content_index_parser([d], "csv", None, [])
    finally:
        shutil.rmtree(d, ignore_errors=True)


def run(ctx):
    v = ctx.v
    rng = ctx.rng
    thorough = ctx.tier == "thorough"
    nontrivial = set()

    # ---------------- (a) correspondence
    factory = make_parser_factory()
    n_args = (20000 if thorough else 2500) * ctx.scale
    nontrivial |= run_args_correspondence(ctx, factory, n_args)
    n_bulk = (1500 if thorough else 150) * ctx.scale
    nontrivial |= run_bulk_correspondence(ctx, n_bulk)
    n_alias = (3000 if thorough else 150) * ctx.scale
    nontrivial |= run_alias_correspondence(ctx, n_alias)

    # ---------------- (b) differential
    # a case costs ~0.85 s since wave 3 (markup features, nested blocks, the history on one parser), ~1.1 s since wave 4 (mutating features:
    # more loops per template), ~1.2 s since wave 5 (nested data-row fields: more rows per template; 15 workbooks traded for them): 1400 keeps the thorough
    # tier under 30 min, 80 the quick tier where it was
    n_cases = (1400 if thorough else 80) * ctx.scale
    dist = {"valid": 0, "malformed": {}, "A_ok": 0, "A_err": 0, "instances": 0, "features": {}, "data_rows": {},
            "markup_kind": {}, "markup_column": {}, "markup_form": {},
            "histories_on_one_parser": {"run": 0, "calls": {}, "lengths": {}, "with_a_repeated_call": 0, "registry_changed_by_calls": 0},
            "nested_fields": {"form": {}, "form_inside_a_loop": 0, "block_with_nested_data_row": 0, "block_form": {}, "markup_over_nested_field": {},
                              "by_create_mode": {}, "workbooks": 0},
            "mutating_route": {}, "mutating_op": {}, "mutating_unguarded_pop": 0, "same_literal_cell_in_two_loops": 0,
            "identity_watch": {"workbooks": 0, "instances_watched": 0, "workbooks_with_a_shared_mutable_object": 0, "shared_by_route": {}}}
    samples = []
    first_shared = None
    for k in range(n_cases):
        malformed = (k % 7 == 6)
        case = gen_case(rng, malformed)
        case["perm_seed"] = rng.randrange(1 << 30)
        rec = {}
        v.coverage["evaluations"] += 1
        check_case(ctx, case, alone_budget=(5 if thorough else 3), record=rec)
        if case["malformed"]:
            dist["malformed"][case["malformed"]] = dist["malformed"].get(case["malformed"], 0) + 1
        else:
            dist["valid"] += 1
        dist["A_ok" if rec.get("A") == "ok" else "A_err"] += 1
        dist["instances"] += rec.get("instances", 0)
        dist["data_rows"][len(case["ids"])] = dist["data_rows"].get(len(case["ids"]), 0) + 1
        mks = list(case["blk2"]["feats"]) + list(case["blk2"]["blk3"])
        nf = dist["nested_fields"]
        for tn_, tp in case["templates"].items():
            uses_nested = False
            for f, p_ in tp["feats"] + [("end", None)]:
                if f == "end":
                    if uses_nested:
                        for c_ in case["creates"]:
                            if c_["template"] == tn_:
                                nf["by_create_mode"][c_["mode"]] = nf["by_create_mode"].get(c_["mode"], 0) + 1
                    continue
                dist["features"][f] = dist["features"].get(f, 0) + 1
                if f == "al":
                    dist["mutating_route"][p_["route"]] = dist["mutating_route"].get(p_["route"], 0) + 1
                    for o in p_["ops"]:
                        dist["mutating_op"][o] = dist["mutating_op"].get(o, 0) + 1
                    dist["mutating_unguarded_pop"] += 1 if any(o in ("pop", "pop0") for o in p_["ops"]) else 0
                if f == "nest":
                    nf["form"][p_["form"]] = nf["form"].get(p_["form"], 0) + 1
                    nf["form_inside_a_loop"] += 1 if p_["inloop"] else 0
                    uses_nested = True
                if f == "nestblock":
                    nf["block_with_nested_data_row"] += 1
                    for b_ in case["blkn"]:
                        nf["block_form"][b_] = nf["block_form"].get(b_, 0) + 1
                    uses_nested = True
                if f in ("mk", "mkloop", "mkblock"):
                    for q_ in ([p_] if f != "mkblock" else [p_["arg"]] + ([p_["row"]] if p_["row"] else [])):
                        if q_["src"] in NEST_COLS:
                            nf["markup_over_nested_field"][q_["src"]] = nf["markup_over_nested_field"].get(q_["src"], 0) + 1
                            uses_nested = True
                if f in ("mk", "mkloop"):
                    mks.append(p_)
                elif f == "mkblock":
                    mks += [p_["arg"]] + ([p_["row"]] if p_["row"] else [])
        for q in mks:
            for kk, vv in (("markup_kind", q["kind"]), ("markup_column", q["col"]), ("markup_form", q["form"])):
                dist[kk][vv] = dist[kk].get(vv, 0) + 1
        nf["workbooks"] += 1 if any(f in ("nest", "nestblock") or (f in ("mk", "mkloop") and p_["src"] in NEST_COLS)
                                    for tp in case["templates"].values() for f, p_ in tp["feats"]) else 0
        lit_uses = [p_["lit"] for tp in case["templates"].values() for f, p_ in tp["feats"] if f == "al" and p_["route"] == "lit2" for _ in range(2 if p_["twice"] else 1)]
        dist["same_literal_cell_in_two_loops"] += 1 if len(lit_uses) != len(set(lit_uses)) else 0
        iw = dist["identity_watch"]
        iw["workbooks"] += 1
        iw["instances_watched"] += rec.get("watched_instances", 0)
        if rec.get("shared"):
            iw["workbooks_with_a_shared_mutable_object"] += 1
            for tn, who in rec["shared"]:
                for rt in sorted({r_ for _, _, r_ in who}):
                    iw["shared_by_route"][rt] = iw["shared_by_route"].get(rt, 0) + 1
            if first_shared is None:
                first_shared = (rec["shared"][0], dict(ids=case["ids"], creates=case["creates"]))
        if "history_ops" in rec:
            h = dist["histories_on_one_parser"]
            h["run"] += 1
            h["lengths"][len(rec["history_ops"])] = h["lengths"].get(len(rec["history_ops"]), 0) + 1
            for o in rec["history_ops"]:
                h["calls"][o] = h["calls"].get(o, 0) + 1
            h["with_a_repeated_call"] += 1 if rec.get("history_repeats") else 0
            h["registry_changed_by_calls"] += 1 if rec.get("registry_changed") else 0
        if rec.get("A") == "ok" and rec.get("instances", 0) >= 2:
            nontrivial.add(json.dumps(case, sort_keys=True, default=str))
        if k < 2:
            samples.append(dict(ids=case["ids"], creates=case["creates"],
                                templates={n: dict(defs=t["defs"], feats=[f for f, _ in t["feats"]]) for n, t in case["templates"].items()}))
    ctx.stats["differential"] = dist
    if first_shared is not None:
        (tn, who), where = first_shared
        ctx.disagree("two template instances of one run reach the SAME mutable object (through the context their SheetParser works in, a loop variable or "
                     "a parsed row): the instances of the theorems share values, never objects (Index/Alias.v: every instance allocates its own)",
                     repr(where)[:600], "no mutable object reachable from two instances",
                     f"a {tn} reachable from {who[:4]!r}; {dist['identity_watch']['workbooks_with_a_shared_mutable_object']} workbooks, by route "
                     f"{dist['identity_watch']['shared_by_route']!r}")

    v.coverage["distinct_nontrivial"] = len(nontrivial)
    v.coverage["rule"] = (
        "(a) generated (declarations, arguments, context) triples, 80% valid / 20% malformed (clash, duplicate declaration, "
        "missing, unknown sheet, list arguments, too many, short), through the extracted map_template_arguments_to_context and "
        "the real method; generated (registries, create_flow rows) through the extracted parse_all_flows/plan and the real "
        "parse_all_flows with FlowParser replaced by a recorder; (b) generated workbooks (templates with loops over a data field, "
        "literal loops, include_if, inserted blocks with own data row and arguments, sheet arguments, a template expression that "
        "mutates a data-row list, groups, routers, start_new_flow; 1..5 data rows; 6/7 valid, 1/7 malformed) compiled by "
        "create_flows as bulk index, row-by-row index, permuted index and single instances alone; since wave 3 every template also "
        "draws markup features: a cell of one of 24 forms (45% statements only - if / elif / set / for / in, whitespace control -, 43% "
        "expressions, filters, ternaries, natives, 12% comment / raw / literal controls) over a value that differs between instances "
        "(data field, argument, loop variable) in message_text, choices, condition, include_if, the list of a begin_for, a group name, "
        "the argument and the data row id of an inserted block (generated blocks blk2 -> blk3 with markup of their own), top level and "
        "inside loops; since wave 5 the data sheets have dotted columns (menu.items, menu.keys, menu.title, extra.note: nested objects, two fields named "
        "like dict methods): the markup features also draw the nested fields as sources, and 13 further forms handle the nested object itself (fields, "
        "walk name/value pairs, print, eval filter, attr filter, subscript, set, native list / condition), top level, inside loops and in a block with "
        "a nested data row of its own; and every compiled case ends with a history on ONE ContentIndexParser: the sampled instances through "
        "_parse_flow in a drawn order, one of them repeated, a parse_all_flows pass in between, each compared with the instance "
        "compiled alone by a fresh parser; (a) the Bulk correspondence runs histories of parse_all_flows / get_node_group calls "
        "(permuted rows, sub-lists with repeats, failing calls) through the extracted run_calls and one real parser. non-trivial = distinct "
        "argument case with at least one declaration, distinct Bulk-model case with >= 2 instances, distinct workbook whose bulk "
        "index compiles and has >= 2 instances")
    v.coverage["samples"] = samples
    v.assumptions += [
        "the compilation of one flow (FlowParser) is a section variable of the theorems: its only channel between instances is the container state "
        "(the recorder of the correspondence reports any further argument FlowParser is constructed with, and a context object shared by two instances)",
        "flow.name of the compiled flow is the flow_name FlowParser was given (checked on the real output: names compared)",
        "invented identifiers are strings of UUID shape; two outputs are equal when a bijection on them makes the JSON trees equal",
        "data-row IDs are non-blank (hypothesis of C12_bulk_is_map; the blank-ID case is C12_blank_id_is_not_an_instance_refuted)",
    ]


def replay(rep):
    import types
    import random as _r
    from common import Verdict

    r = rep["replay"]
    if r["fn"] == "case":
        class V:
            coverage = {"evaluations": 0}
            n = 0

            def failing_input(self, key, summary, replay):
                print("  ", key, ":", summary[:400])
                V.n += 1
        c = types.SimpleNamespace(v=V(), rng=_r.Random(0))
        return check_case(c, r["case"], alone_budget=99) == 0
    if r["fn"] == "args":
        from rpft.parsers.creation.contentindexrowmodel import TemplateArgument

        class V:
            n = 0

            def failing_input(self, key, summary, replay):
                print("  ", key, ":", summary[:400])
                V.n += 1
        c = types.SimpleNamespace(v=V())
        parser = make_parser_factory()()
        case = dict(defs=[tuple(d) for d in r["defs"]], args=r["args"], ctx=[tuple(x) for x in r["ctx"]],
                    sheets=[(n, [(i, [tuple(kv) for kv in row]) for i, row in s]) for n, s in r["sheets"]])
        defs = [TemplateArgument(name=n_, type=t, default_value=d) for n_, t, d in case["defs"]]
        res = run_cli_mode(parser.map_template_arguments_to_context, defs, copy.deepcopy(case["args"]), dict(case["ctx"]))
        args_oracle(c, case, res)
        return V.n == 0
    return True
