"""C03 — `insert_as_block` is sugar: "an inserted template [is] replaced by a block containing that template's rows
instantiated with its own data row and arguments".

Generated WORKBOOKS: a main flow (instantiated with a typed data row of its own) whose rows, loops (over `a;b` cells, native
lists of ints / bools / None / lists / dicts / strings, ranges, typed data fields) and blocks contain insert_as_block rows;
block templates with 0-3 declared arguments (required / with a default / sheet-typed), used with and without a data row
(typed columns: str, int, bool, List[str]), which loop over their arguments, switch rows on and off with them, hand them on
to templates they insert themselves (nesting depth 2) and contain routers (several loose exits).  The arguments of an insert
row are written in every way the sheet language has:
   blank cell | plain text `a;b` (strings, among them "0", "False", "None") | `{{ }}` renderings (strings) |
   a native list `{@ [k, 0, False, none, [], {'a': k}] @}` (the OBJECTS reach the template) | a native scalar `{@ k @}`,
with blank positions (declared default), missing trailing positions, surplus positions.

ORACLE (the property, on the implementation alone).  The REFERENCE DESUGARING below is written from the property text and the
sheet documentation; it never calls the toolkit and never renders a template: expressions are small ASTs that are printed
into the cells of the sugared workbook and EVALUATED here with Python's own semantics.  It yields the plain form of the main
sheet: every loop unrolled, every excluded row/block removed, every insert row replaced by begin_block / the template's rows
instantiated in the context {fields of its data row} + {declared name -> the argument given at that position, the declared
default where the argument is the empty string or missing} (and nothing of the inserting flow) / end_block.  Then
   (1) the message texts of the sugared workbook's flow, in node order, are the texts of the desugared rows;
   (2) the sugared workbook's flow and the flow the implementation compiles from the DESUGARED sheet are equivalent for all
       contact input sequences (Coq-verified bisimulation checker, Flow/*);
   (3) the reference meaning of the desugared rows (RowSem: an edge from a block leaves every loose exit) is the sugared flow's;
   (4) a required argument that is not given (blank, no default) is reported.
CORRESPONDENCE (model Comp/InsertArgs.v, wire 203 fn 1): for every insertion the implementation performs, the context it
builds for the inserted template (spy on ContentIndexParser._parse_flow -> FlowParser) equals the model's
`insert_context` of (declarations, data row, the insert row's argument cell evaluated by Tmpl/MiniJinja in the inserting
context the implementation had at that moment)."""
import ast
import copy
import json

import flowutil
import rowref
import sheetgen
from common import parse_sexp, run_cli_mode

E = sheetgen.edge


class Outside(Exception):
    """the reference has no reading for this input (generator sloppiness, Python TypeError, a native str that is a Python literal)"""


class Rejected(Exception):
    """the reference reading says: this workbook must be rejected"""


# =====================================================================================================================
# expressions: AST (harness/c16.py's forms + a few more), printer (= MiniJinja.show_expr on the common forms), evaluator
# =====================================================================================================================
MODEL_FORMS = {"var", "attr", "idx", "str", "int", "bool", "none", "eq", "ne", "not", "and", "or", "range", "list", "tuple", "dict"}


def lit(v):
    """the expression that denotes the Python value v"""
    if v is None:
        return ("none",)
    if v is True or v is False:
        return ("bool", v)
    if isinstance(v, int):
        return ("int", v)
    if isinstance(v, float):
        return ("float", v)
    if isinstance(v, str):
        return ("str", v)
    if isinstance(v, list):
        return ("list", [lit(x) for x in v])
    if isinstance(v, dict):
        return ("dict", [(k, lit(x)) for k, x in v.items()])
    raise ValueError(v)


def show(e):
    k = e[0]
    if k == "var":
        return e[1]
    if k == "attr":
        return "(" + show(e[1]) + ")." + e[2]
    if k == "idx":
        return "(" + show(e[1]) + ")[" + show(e[2]) + "]"
    if k == "str":
        assert "'" not in e[1] and "\\" not in e[1]
        return "'" + e[1] + "'"
    if k == "int":
        return "(" + str(e[1]) + ")"
    if k == "float":
        return "(" + repr(e[1]) + ")"
    if k == "bool":
        return "true" if e[1] else "false"
    if k == "none":
        return "none"
    if k in ("eq", "ne", "and", "or", "add", "cat"):
        op = {"eq": "==", "ne": "!=", "and": "and", "or": "or", "add": "+", "cat": "~"}[k]
        return "(" + show(e[1]) + " " + op + " " + show(e[2]) + ")"
    if k == "not":
        return "(not " + show(e[1]) + ")"
    if k == "range":
        return "range(" + show(e[1]) + ")"
    if k == "list":
        return "[" + ", ".join(show(x) for x in e[1]) + "]"
    if k == "tuple":
        return "(" + show(e[1][0]) + ",)" if len(e[1]) == 1 else "(" + ", ".join(show(x) for x in e[1]) + ")"
    if k == "dict":
        return "{" + ", ".join("'" + kk + "': " + show(x) for kk, x in e[1]) + "}"
    if k == "isstr":
        return "(" + show(e[1]) + " is string)"
    if k == "isnone":
        return "(" + show(e[1]) + " is none)"
    if k in ("len", "toint", "upper", "keys"):
        return "(" + show(e[1]) + " | " + {"len": "length", "toint": "int", "upper": "upper", "keys": "list"}[k] + ")"
    if k == "cond":
        return "(" + show(e[2]) + " if " + show(e[1]) + " else " + show(e[3]) + ")"
    raise ValueError(e)


def in_model_language(e):
    if e[0] not in MODEL_FORMS:
        return False
    if e[0] in ("list", "tuple"):
        return all(in_model_language(x) for x in e[1])
    if e[0] == "dict":
        return all(in_model_language(x) for _, x in e[1])
    return all(in_model_language(x) for x in e[1:] if isinstance(x, tuple))


class Rows(dict):
    """the rows of a data sheet bound to a sheet-typed argument: ID -> {field: value}"""


def jstr(v):
    """what `{{ v }}` writes: Python's str()"""
    if isinstance(v, Rows):
        raise Outside("a data sheet printed as text")
    return v if isinstance(v, str) else str(v)


def jint(v):
    """the `int` filter as documented: int(v), else int(float(v)), else 0"""
    try:
        return int(v, 10) if isinstance(v, str) else int(v)
    except (TypeError, ValueError):
        try:
            return int(float(v))
        except (TypeError, ValueError, OverflowError):
            return 0


def ev(e, env):
    k = e[0]
    try:
        if k == "var":
            if e[1] not in env:
                raise Outside("undefined name " + e[1])
            return env[e[1]]
        if k in ("str", "int", "bool", "float"):
            return e[1]
        if k == "none":
            return None
        if k == "eq":
            return ev(e[1], env) == ev(e[2], env)
        if k == "ne":
            return ev(e[1], env) != ev(e[2], env)
        if k == "not":
            return not ev(e[1], env)
        if k == "and":
            return ev(e[1], env) and ev(e[2], env)
        if k == "or":
            return ev(e[1], env) or ev(e[2], env)
        if k == "range":
            n = ev(e[1], env)
            if isinstance(n, bool) or not isinstance(n, int):
                raise Outside("range of a non-int")
            return list(range(n))
        if k == "list":
            return [ev(x, env) for x in e[1]]
        if k == "tuple":
            return tuple(ev(x, env) for x in e[1])
        if k == "dict":
            return {kk: ev(x, env) for kk, x in e[1]}
        if k == "idx":
            return ev(e[1], env)[ev(e[2], env)]
        if k == "attr":
            return ev(e[1], env)[e[2]]
        if k == "add":
            a, b = ev(e[1], env), ev(e[2], env)
            if any(isinstance(x, bool) or not isinstance(x, int) for x in (a, b)):
                raise Outside("+ on non-ints")
            return a + b
        if k == "cat":
            return jstr(ev(e[1], env)) + jstr(ev(e[2], env))
        if k == "isstr":
            return isinstance(ev(e[1], env), str)
        if k == "isnone":
            return ev(e[1], env) is None
        if k == "len":
            v = ev(e[1], env)
            if not isinstance(v, (str, list, dict, tuple)):
                raise Outside("length of a scalar")
            return len(v)
        if k == "toint":
            return jint(ev(e[1], env))
        if k == "upper":
            return jstr(ev(e[1], env)).upper()
        if k == "keys":
            v = ev(e[1], env)
            if not isinstance(v, dict):
                raise Outside("keys of a non-mapping")
            return list(v.keys())
        if k == "cond":
            return ev(e[2], env) if ev(e[1], env) else ev(e[3], env)
    except (TypeError, KeyError, IndexError) as x:
        raise Outside(f"{type(x).__name__} in the reference evaluation of {show(e)}")
    raise ValueError(e)


# ---- cells: ("tmpl", [("text", s) | ("out", e)]) | ("native", e) | ("raw", text)
def cell_text(c):
    if c is None:
        return ""
    if c[0] == "raw":
        return c[1]
    if c[0] == "native":
        return "{@ " + show(c[1]) + " @}"
    return "".join(n[1] if n[0] == "text" else "{{ " + show(n[1]) + " }}" for n in c[1])


def cell_str(c, env):
    """a cell of a str column, instantiated"""
    if c is None:
        return ""
    if c[0] == "raw":
        return c[1].strip()
    if c[0] == "native":
        return jstr(native_value(c[1], env))
    return "".join(n[1] if n[0] == "text" else jstr(ev(n[1], env)) for n in c[1])


def plain_native_str(s):
    """a str a whole-cell native template may yield without being read as a Python literal"""
    try:
        ast.literal_eval(s)
    except (ValueError, SyntaxError, MemoryError, TypeError, RecursionError):
        return True
    return False


def native_value(e, env):
    v = ev(e, env)
    if isinstance(v, str) and not plain_native_str(v):
        raise Outside("a whole-cell native template yielding the text of a Python literal")
    return v


def T(*parts):
    """text cell from strings and expressions"""
    return ("tmpl", [("text", p) if isinstance(p, str) else ("out", p) for p in parts])


def V(x):
    return ("var", x)


# =====================================================================================================================
# the abstract workbook
# =====================================================================================================================
# item := ("row", R) | ("for", R, [vars], listcell, body) | ("block", R, body) | ("insert", R, template, data_sheet, rowid_cell, argspec)
# R    := dict(type, id=cell|None, frm=cell|None|"start", cond=str, inc=cell|None, main=cell|None, save_name=str)
# argspec := dict(form, cell, pos=[expr|None ...])        (pos: what the author means to hand over, position by position)
BDATA_COLS = [("ID", "str"), ("bw", "str"), ("bn", "int"), ("bb", "bool"), ("bl", "list")]
MDATA_COLS = [("ID", "str"), ("cw", "str"), ("cn", "int"), ("cb", "bool"), ("cl", "list")]
LOOKUP_COLS = [("ID", "str"), ("col", "str")]

POOL = {
    "int": [0, 0, 0, 1, 2, 3, 7, -1],
    "bool": [False, False, True],
    "str": ["w", "0", "False", "None", "yes", "al fa", "Zed", "no", "[]", "0.0"],
    "list": [[], [], [0], ["a", "b"], [0, 1, 2], [[]], [False], ["", "x"], [None]],
    "dict": [{}, {"k": 0}, {"a": "x", "b": False}],
    "float": [0.0, 1.5],
    "none": [None],
}
ANY_KINDS = ["int", "int", "bool", "bool", "str", "list", "dict", "float", "none", "none"]


def header_of(cols):
    ann = {"str": "", "int": ":int", "bool": ":bool", "list": ":List[str]"}
    return [n + ann[t] for n, t in cols]


def data_cell(v):
    if isinstance(v, bool):
        return "TRUE" if v else "FALSE"
    if isinstance(v, int):
        return str(v)
    if isinstance(v, list):
        return sheetgen.join_list(v)
    return v


class WbGen:
    def __init__(self, rng):
        self.rng = rng
        self.n = 0
        self.templates = {}
        self.data = {}

    def fresh(self, p):
        self.n += 1
        return f"{p}{self.n}"

    # ------------------------------------------------------------------ data sheets
    def gen_data(self):
        r = self.rng
        bd = []
        for i in ("b1", "b2", "b3")[: r.choice([2, 3])]:
            bd.append(dict(ID=i, bw=r.choice(["BW" + i, "0", "False", "w " + i]), bn=r.choice([0, 0, 1, 2, 5]), bb=r.choice([False, False, True]),
                           bl=r.choice([[], ["p"], ["p", "q"], ["0", "x"]])))
        md = [dict(ID="m1", cw=r.choice(["CW", "0", "False"]), cn=r.choice([0, 0, 1, 3]), cb=r.choice([False, True]),
                   cl=r.choice([[], ["u"], ["u", "v"]]))]
        lk = [dict(ID=k, col="C" + k + str(r.randrange(10))) for k in ("x", "y", "z")[: r.choice([2, 3])]]
        self.data = {"bdata": (BDATA_COLS, bd), "mdata": (MDATA_COLS, md), "lookup": (LOOKUP_COLS, lk)}

    # ------------------------------------------------------------------ expressions over what is in scope
    def value_for(self, dom):
        r = self.rng
        kind = r.choice(ANY_KINDS) if dom == "any" else "str" if dom == "rowid" else dom
        return copy.deepcopy(r.choice(POOL[kind]))

    def expr_for(self, dom, scope, exact_only=False):
        """an expression whose value lies in the domain: a literal, a variable in scope, or a computation on one"""
        r = self.rng
        cands = [(n, t, ex) for n, t, ex in scope if (dom == "any" and t != "sheet") or t == dom or (dom == "str" and t == "rowid")]
        if exact_only:
            cands = [c for c in cands if c[2]]
        if cands and r.random() < 0.6:
            n, t, ex = r.choice(cands)
            x = r.random()
            if t == "int" and ex and x < 0.25:
                return r.choice([("add", V(n), ("int", 1)), ("eq", V(n), ("int", 0)) if dom == "any" else ("add", V(n), ("int", 0))])
            if t == "int" and ex and dom == "any" and x < 0.4:
                return r.choice([("list", [V(n), ("int", 7)]), ("dict", [("a", V(n))]), ("cat", ("str", "S"), V(n))])
            return V(n)
        if dom == "bool":
            ints = [n for n, t, ex in scope if t == "int" and ex]
            if ints and r.random() < 0.5:
                return ("eq", V(r.choice(ints)), ("int", 0))
        if dom == "str":
            ints = [n for n, t, ex in scope if t == "int" and ex]
            if ints and r.random() < 0.4:
                return ("cat", ("str", "S"), V(r.choice(ints)))
        return lit(self.value_for(dom))

    # ------------------------------------------------------------------ rows that show a value
    def show_forms(self, name, dom, exact):
        """text parts that display the variable `name` of the given domain; total on the domain and on strings"""
        r = self.rng
        v = V(name)
        forms = [[v], [v], [("isstr", v)], [("eq", v, ("int", 0))], [("eq", v, ("str", "0"))], [("isnone", v)],
                 [("cond", v, ("str", "y"), ("str", "n"))], [("eq", v, ("bool", False))], [("upper", v)]]
        if dom == "int":
            forms += [[("add", ("toint", v), ("int", 1))], [("eq", ("toint", v), ("int", 0))]]
            if exact:
                forms += [[("add", v, ("int", 1))]]
        if dom in ("list", "str"):
            forms += [[("len", v)]]
        if dom == "sheet":
            forms = [[("len", v)], [("keys", v)], [("attr", ("idx", v, ("idx", ("keys", v), ("int", 0))), "ID")]]
        return r.choice(forms)

    def text_row(self, scope, tag, frm=None):
        r = self.rng
        parts = [tag + ":"]
        shown = [s for s in scope if r.random() < 0.6][:3] or ([r.choice(scope)] if scope else [])
        for n, t, ex in shown:
            parts += self.show_forms(n, t, ex) + ["/"]
        t = r.choice(["send_message"] * 5 + ["save_value", "set_contact_name"])
        R = dict(type=t, id=None, frm=frm, cond="", inc=None, main=T(*parts), save_name="")
        if t == "save_value":
            R["save_name"] = "field " + tag
        return ("row", R)

    def inc_cell(self, scope):
        """an include_if cell over something in scope (None: no suitable variable)"""
        r = self.rng
        cands = [s for s in scope if s[1] != "sheet"]
        if not cands:
            return None
        n, t, ex = r.choice(cands)
        v = V(n)
        x = r.random()
        if t == "bool" and x < 0.5:
            return r.choice([T(v), ("native", v), ("native", ("not", v))])
        if t == "int" and x < 0.5:
            return r.choice([("native", ("eq", ("toint", v), ("int", 0))), T(("ne", ("toint", v), ("int", 0)))] + ([("native", v)] if ex else []))
        if t == "list" and ex and x < 0.4:
            return ("native", v)
        c = lit(self.value_for(t if t != "any" else r.choice(["int", "bool", "str", "none"])))
        e = (r.choice(["eq", "ne"]), v, c)
        return r.choice([T(e), ("native", e)])

    # ------------------------------------------------------------------ templates
    def gen_template(self, name, level):
        r = self.rng
        defs = []
        for j in range(r.choice([0, 1, 1, 2, 2, 3])):
            dom = r.choice(["any", "any", "int", "int", "bool", "bool", "list", "str", "sheet"])
            an = f"{name}a{j + 1}"
            if dom == "sheet":
                defs.append(dict(name=an, type="sheet", default=r.choice(["", "", "lookup"]), dom=dom))
            elif dom == "list":
                defs.append(dict(name=an, type="", default="", dom=dom))
            else:
                dflt = r.choice(["", {"any": "dflt", "int": "1", "bool": "yes", "str": "dw"}[dom], {"any": "0", "int": "0", "bool": "False", "str": "0"}[dom]])
                defs.append(dict(name=an, type="", default=dflt, dom=dom))
        uses_row = r.random() < 0.4
        scope = [(d["name"], d["dom"], False) for d in defs]
        if uses_row:
            scope += [(n, t, True) for n, t in BDATA_COLS[1:]]
        tp = dict(name=name, defs=defs, uses_row=uses_row, level=level, body=None)
        self.templates[name] = tp
        body = [self.text_row(scope, name, frm="start")]
        body += self.gen_items(scope, r.choice([1, 2, 2, 3]), level=level, depth=0, tag=name, in_loop=False)
        tp["body"] = body
        return tp

    # ------------------------------------------------------------------ bodies
    def loop_list(self, scope, in_template):
        """(cell, element domain, exact)"""
        r = self.rng
        x = r.random()
        lists = [s for s in scope if s[1] == "list"]
        ints = [s for s in scope if s[1] == "int"]
        if lists and x < 0.3:
            n, _, ex = r.choice(lists)
            return ("native", V(n)), "any", False
        if ints and x < 0.45:
            n, _, ex = r.choice(ints)
            return ("native", ("range", V(n) if ex else ("toint", V(n)))), "int", True
        if x < 0.6:
            return ("native", ("range", ("int", r.choice([0, 1, 2, 3, 3])))), "int", True
        if x < 0.7:
            vals = [r.choice([True, False, False]) for _ in range(r.choice([1, 2, 3]))]
            return ("native", lit(vals)), "bool", True
        if x < 0.8:
            vals = [self.value_for("any") for _ in range(r.choice([1, 2, 3]))]
            return ("native", lit(vals)), "any", True
        if x < 0.88:
            vals = [self.value_for("list") for _ in range(r.choice([1, 2]))]
            return ("native", lit(vals)), "list", True
        if x < 0.94:
            ids = [row["ID"] for row in self.data["bdata"][1]]
            vals = [r.choice(ids) for _ in range(r.choice([1, 2, 3]))]
            return r.choice([("raw", sheetgen.join_list(vals)), ("native", lit(vals))]), "rowid", True
        vals = [r.choice(["p", "q", "0", "False", "b1", "b2"]) for _ in range(r.choice([1, 2, 3]))]
        return ("raw", sheetgen.join_list(vals)), "str", True

    def gen_items(self, scope, n, level, depth, tag, in_loop):
        r = self.rng
        out = []
        while len(out) < n:
            x = r.random()
            sub = self.fresh(tag + "_")
            can_insert = level < 2
            if x < 0.22 or depth >= 2:
                out.append(self.text_row(scope, sub))
            elif x < 0.32:
                it = self.text_row(scope, sub)
                inc = self.inc_cell(scope) or ("raw", r.choice(["FALSE", "false", "TRUE", ""]))
                it[1]["inc"] = inc
                out.append(it)
            elif x < 0.47:
                cell, dom, exact = self.loop_list(scope, level > 0)
                var = self.fresh("v")
                idx = self.fresh("i") if r.random() < 0.5 else None
                sc2 = scope + [(var, dom, exact)] + ([(idx, "int", True)] if idx else [])
                body = self.gen_items(sc2, r.choice([1, 1, 2]), level, depth + 1, sub, True)
                head = dict(type="begin_for", id=None, frm=None, cond="", inc=self.inc_cell(scope) if r.random() < 0.15 else None, main=cell, save_name="")
                out.append(("for", head, [var] + ([idx] if idx else []), cell, body))
            elif x < 0.55:
                body = self.gen_items(scope, r.choice([1, 2]), level, depth + 1, sub, in_loop)
                head = dict(type="begin_block", id=None, frm=None, cond="", inc=self.inc_cell(scope) if r.random() < 0.3 else None, main=None, save_name="")
                out.append(("block", head, body))
            elif x < 0.62 and not in_loop and depth == 0:
                # a router: the rows after it continue from its default exit and from the branch, when they end a block together
                wid = sub + "w"
                out.append(("row", dict(type="wait_for_response", id=("raw", wid), frm=None, cond="", inc=None, main=None, save_name="")))
                br = self.text_row(scope, sub + "y", frm=("raw", wid))
                br[1]["cond"] = r.choice(["yes", "ok"])
                br[1]["type"] = "send_message"
                out.append(br)
                if r.random() < 0.3:
                    out.append(("row", dict(type="hard_exit", id=None, frm=None, cond="", inc=None, main=None, save_name="")))
                dflt = self.text_row(scope, sub + "d", frm=("raw", wid))
                dflt[1]["type"] = "send_message"
                out.append(dflt)
            elif can_insert and x > 0.97:
                # an insert row that is switched off: its cells (an undefined name among them) are never evaluated
                it = self.gen_insert(scope, level, sub)
                it[1]["inc"] = ("raw", r.choice(["FALSE", "false", "False"]))
                it[5]["cell"] = ("native", ("list", [V("undefined_variable_" + sub)]))
                it[5]["form"] = "never-evaluated"
                out.append(it)
            elif can_insert:
                out.append(self.gen_insert(scope, level, sub))
            else:
                out.append(self.text_row(scope, sub))
        return out

    # ------------------------------------------------------------------ insert rows
    def gen_insert(self, scope, level, tag):
        r = self.rng
        names = [n for n, t in self.templates.items() if t["level"] > level]
        tp = self.templates[r.choice(names)]
        defs = tp["defs"]
        pos = []
        for d in defs:
            x = r.random()
            if d["dom"] == "sheet":
                pos.append(None if (d["default"] and x < 0.5) else ("str", r.choice(["lookup", "lookup", "bdata"])))
            elif d["default"] and x < 0.3:
                pos.append(None)
            elif not d["default"] and x < 0.03:
                pos.append(None)                       # a required argument left blank: must be reported
            else:
                pos.append(self.expr_for(d["dom"], scope))
        while pos and pos[-1] is None and r.random() < 0.6:
            pos.pop()
        extra = []
        if r.random() < 0.06:
            extra = [lit(self.value_for("any")) for _ in range(r.choice([1, 2]))]
        form = r.choice(["native_list"] * 5 + ["text"] * 3 + ["native_scalar", "blank"])
        if form == "blank" and any(p is not None for p in pos):
            form = "native_list"
        if form == "native_scalar" and not (len(pos) == 1 and pos[0] is not None and not extra):
            form = "native_list"
        if form == "text" and any(d["dom"] == "list" for d in defs):
            form = "native_list"
        if not pos and not extra:
            cell = None
            form = "blank"
        elif form == "native_list":
            cell = ("native", ("list", [p if p is not None else ("str", "") for p in pos] + extra))
        elif form == "native_scalar":
            cell = ("native", pos[0])
        else:
            nodes = []
            for k, p in enumerate(pos + extra):
                if k:
                    nodes.append(("text", ";"))
                if p is None:
                    continue
                if p[0] == "str" and r.random() < 0.6 and p[1] and not set(p[1]) & set(";|\\{"):
                    nodes.append(("text", p[1]))
                else:
                    nodes.append(("out", p))
            if len(pos + extra) == 1 and r.random() < 0.5:
                nodes.append(("text", ";"))
            merged = []
            for nd in nodes:
                if merged and nd[0] == "text" and merged[-1][0] == "text":
                    merged[-1] = ("text", merged[-1][1] + nd[1])
                else:
                    merged.append(nd)
            cell = ("tmpl", merged)
        ds, rid = "", None
        if tp["uses_row"] or r.random() < 0.15:
            ds = "bdata"
            ids = [row["ID"] for row in self.data["bdata"][1]]
            rowids = [n for n, t, ex in scope if t == "rowid"]
            rid = ("raw", r.choice(ids))
            if rowids and r.random() < 0.7:
                v = V(r.choice(rowids))              # the data row changes with the iteration
                rid = r.choice([T(v), ("native", v)])
            elif r.random() < 0.3:
                rid = r.choice([T(("str", r.choice(ids))), ("native", ("str", r.choice(ids)))])
        head = dict(type="insert_as_block", id=("raw", tag) if r.random() < 0.3 and not any(s[0].startswith(("v", "i")) for s in scope) else None,
                    frm=None, cond="", inc=self.inc_cell(scope) if r.random() < 0.15 else None, main=("raw", tp["name"]), save_name="")
        return ("insert", head, tp["name"], ds, rid, dict(form=form, cell=cell, pos=pos, extra=extra))

    # ------------------------------------------------------------------ the workbook
    def gen(self):
        r = self.rng
        self.gen_data()
        for nm in ["t2a", "t2b"][: r.choice([1, 2, 2])]:
            self.gen_template(nm, 2)
        for nm in ["t1a", "t1b"][: r.choice([1, 1, 2])]:
            self.gen_template(nm, 1)
        scope = [(n, t, True) for n, t in MDATA_COLS[1:]]
        main = [("row", dict(type="send_message", id=None, frm="start", cond="", inc=None, main=T("Begin"), save_name=""))]
        main += self.gen_items(scope, r.choice([2, 3, 4]), level=0, depth=0, tag="m", in_loop=False)
        if not any(has_insert(it) for it in main):
            main.append(self.gen_insert(scope, 0, "mlast"))
        main.append(self.text_row(scope, "End"))
        return dict(templates=self.templates, data=self.data, main=main)


def has_insert(it):
    if it[0] == "insert":
        return True
    if it[0] in ("for", "block"):
        return any(has_insert(x) for x in it[-1])
    return False


# =====================================================================================================================
# rendering the SUGARED workbook (what the implementation is given)
# =====================================================================================================================
def sugared_rows(items):
    """abstract rows (sheetgen's format) holding the cell TEXTS"""
    out = []
    for it in items:
        R = it[1]
        row = {"type": R["type"], "row_id": cell_text(R["id"]),
               "edges": [E(frm="start" if R["frm"] == "start" else cell_text(R["frm"]), value=R["cond"])]}
        if R["inc"] is not None:
            row["include_if"] = cell_text(R["inc"])
        if R.get("save_name"):
            row["save_name"] = R["save_name"]
        if it[0] == "row":
            row["arg"] = cell_text(R["main"])
            out.append(row)
        elif it[0] == "for":
            row["arg"] = cell_text(it[3])
            row["loop_variable"] = list(it[2])
            out.append(row)
            out += sugared_rows(it[4])
            out.append({"type": "end_for", "row_id": "", "edges": [E()]})
        elif it[0] == "block":
            out.append(row)
            out += sugared_rows(it[2])
            out.append({"type": "end_block", "row_id": "", "edges": [E()]})
        else:
            _, _, tname, ds, rid, spec = it
            row["arg"] = tname
            if ds:
                row["data_sheet"] = ds
                row["data_row_id"] = cell_text(rid)
            if spec["cell"] is not None:
                row["template_arguments"] = cell_text(spec["cell"])
            out.append(row)
    return out


def defs_cell(defs):
    if not defs:
        return ""
    s = "|".join(f"{d['name']};{d['type']};{d['default']}" for d in defs)
    return s + "|" if len(defs) == 1 else s


def data_sheet_csv(cols, rows):
    hs = header_of(cols)
    return hs, [{h: data_cell(row[n]) for h, (n, _) in zip(hs, cols)} for row in rows]


def render_flow_sheet(rows):
    return sheetgen.render_sheet(rows, None, "short")


def sugared_workbook(wb):
    idx = [dict(type="data_sheet", sheet_name=n) for n in wb["data"]]
    idx += [dict(type="template_definition", sheet_name=n, template_arguments=defs_cell(t["defs"])) for n, t in wb["templates"].items()]
    idx.append(dict(type="create_flow", sheet_name="main", data_sheet="mdata", data_row_id="m1"))
    sheets = {"content_index": (flowutil.INDEX_HEADERS, idx)}
    for n, (cols, rows) in wb["data"].items():
        sheets[n] = data_sheet_csv(cols, rows)
    for n, t in wb["templates"].items():
        sheets[n] = render_flow_sheet(sugared_rows(t["body"]))
    sheets["main"] = render_flow_sheet(sugared_rows(wb["main"]))
    return sheets


def desugared_workbook(rows):
    return {"content_index": (flowutil.INDEX_HEADERS, [dict(type="create_flow", sheet_name="main", new_name="main - m1")]),
            "main": render_flow_sheet(rows)}


# =====================================================================================================================
# THE REFERENCE DESUGARING (from the property text; no toolkit code, no template engine)
# =====================================================================================================================
def included(cell, env):
    """an include_if cell: text that says `false` (any case) excludes; the object of a native cell excludes when it is falsy"""
    if cell is None:
        return True
    if cell[0] == "native":
        v = native_value(cell[1], env)
        return v.strip().lower() != "false" if isinstance(v, str) else bool(v)
    return cell_str(cell, env).strip().lower() != "false"


def as_list(v):
    """the value of a list-typed cell given as an object: a list (tuple) is the list; anything else is its only element"""
    if isinstance(v, (list, tuple)):
        return list(v)
    if isinstance(v, dict):
        raise Outside("a dict where a list is expected")
    return [v]


def split_plain(s):
    """a list-typed cell given as text without escapes: `;` separates; a trailing `;` closes a (one-element) list"""
    if any(c in s for c in "|\\"):
        raise Outside("separator/escape characters in a rendered list cell")
    if ";" not in s:
        return [s.strip()]
    parts = s.split(";")
    if s.endswith(";"):
        parts = parts[:-1]
    return [p.strip() for p in parts]


def list_cell(cell, env):
    if cell is None:
        return []
    if cell[0] == "native":
        return as_list(native_value(cell[1], env))
    s = cell_str(cell, env).strip()
    return [] if s == "" else split_plain(s)


def bind_arguments(tp, args, row, data):
    """the context an inserted template is instantiated in: its data row, then its declared arguments, positionally;
    the EMPTY STRING (a blank position) and a missing position take the declared default"""
    cenv = dict(row or {})
    for i, d in enumerate(tp["defs"]):
        a = args[i] if i < len(args) else ""
        if d["name"] in cenv:
            raise Outside("argument named like a data field")
        v = d["default"] if (isinstance(a, str) and a == "") else a
        if isinstance(v, str) and v == "":
            raise Rejected(f"required template argument {d['name']} not provided")
        if d["type"] == "sheet":
            if not isinstance(v, str) or v not in data:
                raise Outside("sheet argument that names no data sheet")
            v = Rows((r["ID"], dict(r)) for r in data[v][1])
        cenv[d["name"]] = v
    return cenv


class Desugarer:
    def __init__(self, wb):
        self.wb = wb
        self.n_inst = 0
        self.instances = []      # per insertion performed: dict(template, form, args, context, ...)
        self.texts = []
        self.depth = 0           # inserted templates being instantiated around the row at hand
        self.loops = 0           # loops being unrolled around the row at hand (through inserted templates too)

    def row_of(self, R, env, prefix, first_from=None):
        frm = R["frm"]
        if first_from is not None and frm == "start":
            f = first_from
        elif frm == "start":
            f = "start"
        elif frm is None:
            f = ""
        else:
            f = prefix + cell_str(frm, env)
        rid = cell_str(R["id"], env)
        row = {"type": R["type"], "row_id": (prefix + rid) if rid else "", "edges": [E(frm=f, value=R["cond"])]}
        return row

    def items(self, items, env, prefix, out, entry=False):
        """entry: the first row of an inserted template (from = start) continues from the block head"""
        for k, it in enumerate(items):
            R = it[1]
            ff = "" if (entry and k == 0) else None
            if not included(R["inc"], env):
                continue
            if it[0] == "row":
                row = self.row_of(R, env, prefix, ff)
                if R["type"] in ("send_message", "save_value", "set_contact_name"):
                    row["arg"] = cell_str(R["main"], env)
                    if row["arg"] == "":
                        raise Outside("empty text")
                if R["type"] == "save_value":
                    row["save_name"] = R["save_name"]
                if R["type"] == "send_message":
                    self.texts.append(row["arg"])
                out.append(row)
            elif it[0] == "for":
                _, _, vars_, cell, body = it
                elems = list_cell(cell, env)
                out.append(dict(self.row_of(R, env, prefix, ff), type="begin_block"))
                self.loops += 1
                for i, e in enumerate(elems):
                    env2 = dict(env)
                    env2[vars_[0]] = e
                    if len(vars_) > 1:
                        env2[vars_[1]] = i
                    self.items(body, env2, prefix, out)
                self.loops -= 1
                out.append({"type": "end_block", "row_id": "", "edges": [E()]})
            elif it[0] == "block":
                out.append(dict(self.row_of(R, env, prefix, ff), type="begin_block"))
                self.items(it[2], env, prefix, out)
                out.append({"type": "end_block", "row_id": "", "edges": [E()]})
            else:
                _, _, tname, ds, rid, spec = it
                tp = self.wb["templates"][tname]
                args = list_cell(spec["cell"], env)
                row = None
                if ds:
                    rowid = cell_str(rid, env)
                    cands = [r for r in self.wb["data"][ds][1] if r["ID"] == rowid]
                    if not cands:
                        raise Outside("no such data row")
                    row = {k: copy.deepcopy(v) for k, v in cands[0].items()}
                cenv = bind_arguments(tp, args, row, self.wb["data"])
                self.n_inst += 1
                self.instances.append(dict(template=tname, form=spec["form"], args=args, context=cenv, defs=tp["defs"], cell=spec["cell"],
                                           outer=env, row=row, loops=self.loops, depth=self.depth + 1))
                out.append(dict(self.row_of(R, env, prefix, ff), type="begin_block"))
                self.depth += 1
                self.items(tp["body"], cenv, f"I{self.n_inst}_", out, entry=True)
                self.depth -= 1
                out.append({"type": "end_block", "row_id": "", "edges": [E()]})

    def run(self):
        env = {k: copy.deepcopy(v) for k, v in self.wb["data"]["mdata"][1][0].items()}
        out = []
        self.items(self.wb["main"], env, "", out)
        return out


def value_class(a):
    if isinstance(a, str):
        return "blank" if a == "" else ("str-looking-falsy" if a in ("0", "False", "None", "[]", "0.0") else "str")
    if a is None:
        return "None"
    if isinstance(a, bool):
        return "True" if a else "False"
    if isinstance(a, int):
        return "int-0" if a == 0 else "int"
    if isinstance(a, float):
        return "float-0" if a == 0 else "float"
    if isinstance(a, (list, tuple)):
        return "list-empty" if not a else "list"
    if isinstance(a, dict):
        return "dict-empty" if not a else "dict"
    return type(a).__name__


def falsy_object(a):
    return not isinstance(a, str) and not a


# =====================================================================================================================
# the implementation
# =====================================================================================================================
def texts_of(flow):
    return [a.get("text") for n in flow["nodes"] for a in n.get("actions", []) if a.get("type") == "send_msg"]


def compile_sugared(sheets, spy=None):
    if spy is None:
        return flowutil.compile_workbook(sheets)
    with spy:
        return flowutil.compile_workbook(sheets)


class ContextSpy:
    """records, per insertion the implementation performs, the argument list get_node_group receives, the templating context of
    the INSERTING flow at that moment and the context the inserted template's FlowParser is built with"""

    def __init__(self):
        self.events = []

    def __enter__(self):
        from rpft.parsers.creation import contentindexparser as cip
        from rpft.parsers.creation import flowparser as fpm
        spy = self
        self.cip, self.fpm = cip, fpm
        self.orig_insert = fpm.FlowParser._parse_insert_as_block_row
        self.orig_init = fpm.FlowParser.__init__
        self.pending = []

        def parse_insert(fp, row):
            ev_ = dict(template=row.mainarg_flow_name, args=safe_copy(list(row.template_arguments)),
                       outer=safe_copy(dict(fp.sheet_parser.context)), child=None)
            spy.events.append(ev_)
            spy.pending.append(ev_)
            try:
                return spy.orig_insert(fp, row)
            finally:
                if spy.pending and spy.pending[-1] is ev_:
                    spy.pending.pop()

        def init(fp, *a, **k):
            spy.orig_init(fp, *a, **k)
            if spy.pending and spy.pending[-1]["child"] is None:
                spy.pending[-1]["child"] = safe_copy(dict(fp.context))
                spy.pending.pop()

        fpm.FlowParser._parse_insert_as_block_row = parse_insert
        fpm.FlowParser.__init__ = init
        return self

    def __exit__(self, *a):
        self.fpm.FlowParser._parse_insert_as_block_row = self.orig_insert
        self.fpm.FlowParser.__init__ = self.orig_init
        return False


def safe_copy(v):
    try:
        return copy.deepcopy(v)
    except Exception:
        return v


def plain_value(v):
    """an implementation context value in the reference's vocabulary"""
    from collections import OrderedDict
    if isinstance(v, (OrderedDict, dict)) and v and all(hasattr(x, "__fields__") or isinstance(x, dict) for x in v.values()):
        return Rows((k, {f: plain_value(y) for f, y in dict(x).items()}) for k, x in v.items())
    if isinstance(v, dict):
        return {k: plain_value(x) for k, x in v.items()}
    if isinstance(v, list):
        return [plain_value(x) for x in v]
    if isinstance(v, tuple):
        return tuple(plain_value(x) for x in v)
    return v


def typed_eq(a, b):
    """equality that tells 0 from False from 0.0 and '0'"""
    if type(a) is not type(b) and not (isinstance(a, dict) and isinstance(b, dict)):
        return False
    if isinstance(a, (list, tuple)):
        return len(a) == len(b) and all(typed_eq(x, y) for x, y in zip(a, b))
    if isinstance(a, dict):
        return list(a.keys()) == list(b.keys()) and all(typed_eq(a[k], b[k]) for k in a)
    return a == b


# =====================================================================================================================
# judging one workbook
# =====================================================================================================================
def replay_of(wb, sheets, des_rows, des_sheets, texts):
    pack = lambda ss: {n: dict(headers=h, cells=[[c.get(x, "") for x in h] for c in rows]) for n, (h, rows) in ss.items()}
    return dict(fn="insert", sugared=pack(sheets), desugared=(pack(des_sheets) if des_sheets else None), desugared_rows=des_rows,
                expected_texts=texts)


def unpack(p):
    return {n: (s["headers"], [dict(zip(s["headers"], c)) for c in s["cells"]]) for n, s in p.items()}


def describe(inst):
    return (f"insert_as_block of {inst['template']} with template_arguments `{cell_text(inst['cell'])}` "
            f"(arguments {inst['args']!r}, declared {[(d['name'], d['default']) for d in inst['defs']]}) must instantiate it in "
            f"{ {k: v for k, v in inst['context'].items() if not isinstance(v, Rows)}!r}")


def check_flows(model, f1, r2, des_rows, texts, insts):
    """-> None or (kind, summary)"""
    got = texts_of(f1)
    if got != texts:
        k = next((i for i, (a, b) in enumerate(zip(got, texts)) if a != b), min(len(got), len(texts)))
        hint = ""
        for inst in insts:
            if any(falsy_object(a) for a in inst["args"]):
                hint = "; e.g. " + describe(inst)
                break
        return ("texts", f"the flow sends {got[max(0, k - 1):k + 2]!r} where the desugared form (loops unrolled, inserted templates replaced by their "
                f"rows instantiated with their own data row and arguments) sends {texts[max(0, k - 1):k + 2]!r} (message {k})" + hint)
    if r2[0] != "ok":
        return ("desugared-rejected", f"the desugared sheet is rejected ({r2[1]}: {r2[2][:160]}) while the sugared workbook compiles")
    f2 = r2[1]["flows"][0]
    if model is None:
        tr = flowutil.distinguishing_trace(f1, f2)
        return ("behaviour", f"sequence {tr!r} separates the flow from its desugared twin's") if tr is not None else None
    if model.ask("(6 2 %s %s)" % (flowutil.flow_sexp(f1), flowutil.flow_sexp(f2))) != "1":
        tr = flowutil.distinguishing_trace(f1, f2)
        return ("behaviour", f"sequence {tr!r} separates the flow from its desugared twin's (the bisimulation checker rejects the pair)")
    rs = model.ask("(7 2 %s %s)" % (rowref.rows_sexp(des_rows), flowutil.flow_sexp(f1)))
    if rs not in ("0", "1"):
        return ("block-exit-semantics", "the reference meaning of the desugared rows (an edge from a block leaves every loose exit) is not the compiled flow's")
    return None


def judge(ctx, wb, dist, nontrivial, samples, spy_budget):
    v, m = ctx.v, ctx.model
    sheets = sugared_workbook(wb)
    d = Desugarer(wb)
    try:
        des = d.run()
        verdict = "ok"
    except Outside as x:
        dist["reference_has_no_reading"] += 1
        dist.setdefault("no_reading_reasons", {})
        key = str(x)[:60]
        dist["no_reading_reasons"][key] = dist["no_reading_reasons"].get(key, 0) + 1
        return
    except Rejected as x:
        verdict, des = "rejected", None
        reason = str(x)
    v.coverage["evaluations"] += 1
    use_spy = verdict == "ok" and m is not None and spy_budget[0] > 0
    spy = ContextSpy() if use_spy else None
    r1 = compile_sugared(sheets, spy)
    if verdict == "rejected":
        dist["expected_rejections"] += 1
        if r1[0] == "ok":
            v.failing_input("insert-as-block", f"the workbook compiles although a {reason}", replay_of(wb, sheets, None, None, None))
        return
    des_sheets = desugared_workbook(des)
    rep = replay_of(wb, sheets, des, des_sheets, d.texts)
    for inst in d.instances:
        dist["insertions"] += 1
        dist["by_form"][inst["form"]] = dist["by_form"].get(inst["form"], 0) + 1
        for i, dd in enumerate(inst["defs"]):
            a = inst["args"][i] if i < len(inst["args"]) else ""
            kk = value_class(a) + ("/default" if dd["default"] else "/required") + ("/sheet" if dd["type"] == "sheet" else "")
            dist["argument_classes"][kk] = dist["argument_classes"].get(kk, 0) + 1
            if falsy_object(a):
                dist["falsy_object_arguments"] += 1
        if inst["row"] is not None:
            dist["insertions_with_data_row"] += 1
        if inst["loops"]:
            dist["insertions_inside_a_loop"] += 1
        if inst["depth"] > 1:
            dist["insertions_by_an_inserted_template"] += 1
    if r1[0] != "ok":
        sus = [i for i in d.instances if any(falsy_object(a) for a in i["args"])] or d.instances
        v.failing_input("insert-as-block", f"the workbook is rejected ({r1[1]}: {r1[2][:200]}) while its desugared form has a reading; e.g. " +
                        (describe(sus[0]) if sus else ""), rep)
        return
    r2 = flowutil.compile_workbook(des_sheets)
    bad = check_flows(m, r1[1]["flows"][0], r2, des, d.texts, d.instances)
    if bad:
        v.failing_input("insert-as-block", bad[1], rep)
        return
    dist["twins_equivalent"] += 1
    if use_spy:
        spy_budget[0] -= 1
        correspond(ctx, wb, d, spy, rep, dist)
    prof = json.dumps(sorted((i["form"], tuple(value_class(a) for a in i["args"])) for i in d.instances))
    if any(falsy_object(a) for i in d.instances for a in i["args"]) or len(d.instances) >= 2:
        nontrivial.add(prof)
    if len(samples) < 2:
        samples.append({n: rep["sugared"][n] for n in rep["sugared"] if n not in ("bdata", "mdata", "lookup")})


# =====================================================================================================================
# correspondence with Comp/InsertArgs.v (wire 203 fn 1)
# =====================================================================================================================
def model_value_ok(v):
    if isinstance(v, float) or isinstance(v, Rows):
        return False
    if isinstance(v, (list, tuple)):
        return all(model_value_ok(x) for x in v)
    if isinstance(v, dict):
        return all(isinstance(k, str) and model_value_ok(x) for k, x in v.items())
    return v is None or isinstance(v, (bool, int, str))


def to_c16(v):
    if isinstance(v, tuple):
        return ("tuple", [to_c16(x) for x in v])
    if isinstance(v, list):
        return [to_c16(x) for x in v]
    if isinstance(v, dict):
        return {k: to_c16(x) for k, x in v.items()}
    return v


def from_c16(v):
    if isinstance(v, tuple) and v and v[0] == "tuple":
        return tuple(from_c16(x) for x in v[1])
    if isinstance(v, list):
        return [from_c16(x) for x in v]
    if isinstance(v, dict):
        return {k: from_c16(x) for k, x in v.items()}
    return v


def model_insert_context(m, defs, sheets, row, outer, cell):
    """-> ('ok', [(name, value)]) | ('err', code) | None (bad input)"""
    import c16
    from common import enc_str, dec_str
    e_defs = "(" + " ".join(f"({enc_str(d['name'])} {enc_str(d['type'])} {enc_str(d['default'])})" for d in defs) + ")"
    e_sheets = "(" + " ".join(f"({enc_str(n)} {c16.enc_value(to_c16(rows))})" for n, rows in sheets.items()) + ")"
    e_row = c16.enc_ctx({k: to_c16(x) for k, x in (row or {}).items()})
    e_outer = c16.enc_ctx({k: to_c16(x) for k, x in outer.items()})
    e_cell = "()" if cell is None else "(" + c16.enc_cell(cell) + ")"
    out = parse_sexp(m.ask(f"(203 1 {e_defs} {e_sheets} {e_row} {e_outer} {e_cell})"))
    if out == [999998] or not isinstance(out, list):
        return None
    if out[0] == 999999:
        return ("err", out[1])
    return ("ok", [(dec_str(k), from_c16(c16.dec_value(x))) for k, x in out[0]], dec_str(out[1]))


def model_cell(cell):
    """the cell in the model's syntax (None when it is outside Tmpl/MiniJinja's language)"""
    if cell is None:
        return None
    if cell[0] == "native":
        return cell if in_model_language(cell[1]) else False
    if cell[0] == "raw":
        return ("tmpl", [("text", cell[1])]) if cell[1] else None
    if all(n[0] == "text" or in_model_language(n[1]) for n in cell[1]):
        return cell
    return False


def correspond(ctx, wb, d, spy, rep, dist):
    m = ctx.model
    if len(spy.events) != len(d.instances):
        ctx.disagree("insert: the implementation performs another number of insertions than the reference desugaring", rep,
                     len(d.instances), len(spy.events))
        return
    sheets_all = {n: {r["ID"]: {k: x for k, x in r.items()} for r in rows} for n, (cols, rows) in wb["data"].items()}
    for inst, evn in zip(d.instances, spy.events):
        child = {k: plain_value(x) for k, x in (evn["child"] or {}).items()}
        # (a) the reference's own reading of the context against the implementation's (typed)
        want = inst["context"]
        if list(child.keys()) != list(want.keys()) or not all(typed_eq(child[k], want[k]) for k in want):
            ctx.disagree("insert: context of the inserted template (implementation) differs from the reference binding", rep,
                         repr(want)[:600], repr(child)[:600])
            continue
        # (b) the model
        mc = model_cell(inst["cell"])
        outer = {k: plain_value(x) for k, x in evn["outer"].items()}
        if mc is False or not model_value_ok(list(outer.values())) or not model_value_ok(list((inst["row"] or {}).values())):
            dist["model_outside_language"] += 1
            continue
        used = {dd["default"] for dd in inst["defs"] if dd["type"] == "sheet"} | {a for a in inst["args"] if isinstance(a, str)}
        sheets = {n: s for n, s in sheets_all.items() if n in used}
        mo = model_insert_context(m, inst["defs"], sheets, inst["row"], outer, mc)
        if mo is None:
            ctx.disagree("insert: the model rejects the request", rep, "BADINPUT", "")
            continue
        if mo[0] == "err":
            if mo[1] in (190, 191):
                dist["model_outside_language"] += 1
            else:
                ctx.disagree("insert: the model reports an error, the implementation builds a context", rep, repr(mo), repr(child)[:600])
            continue
        if mc is not None and mo[2] != cell_text(mc):
            ctx.disagree("insert: the harness prints the argument cell differently from MiniJinja.show_cell", rep, mo[2], cell_text(mc))
            continue
        got = [(k, sheets_all_rows(x)) for k, x in child.items()]
        if [k for k, _ in mo[1]] != [k for k, _ in got] or not all(typed_eq(a, b) for (_, a), (_, b) in zip(mo[1], got)):
            ctx.disagree("insert: context of the inserted template, model (Comp/InsertArgs.v) vs implementation", rep, repr(mo[1])[:600], repr(got)[:600])
            continue
        dist["model_contexts_equal"] += 1


def sheets_all_rows(x):
    return {k: dict(r) for k, r in x.items()} if isinstance(x, Rows) else x


# =====================================================================================================================
# directed workbooks: one per class of argument (not the scenario of any particular defect)
# =====================================================================================================================
def directed(rng):
    out = []
    for with_default in (True, False):
        for form in ("native_list", "native_scalar", "text"):
            g = WbGen(rng)
            g.gen_data()
            d1 = dict(name="n", type="", default="1" if with_default else "", dom="any")
            d2 = dict(name="flag", type="", default="yes" if with_default else "", dom="bool")
            g.templates["step"] = dict(name="step", defs=[d1], uses_row=False, level=2,
                                       body=[("row", dict(type="send_message", id=None, frm="start", cond="", inc=None, save_name="",
                                                          main=T("Step ", V("n"), " ", ("isstr", V("n"))))),
                                             ("row", dict(type="send_message", id=None, frm=None, cond="", inc=None, save_name="",
                                                          main=T(V("n"), " done")))])
            g.templates["section"] = dict(name="section", defs=[dict(name="title", type="", default="", dom="str"), d2], uses_row=False, level=2,
                                          body=[("row", dict(type="send_message", id=None, frm="start", cond="", inc=None, save_name="",
                                                             main=T("Content of ", V("title")))),
                                                ("row", dict(type="send_message", id=None, frm=None, cond="", inc=T(V("flag")), save_name="",
                                                             main=T("Extra of ", V("title"))))])

            def ins(t, cell, pos, f=form):
                return ("insert", dict(type="insert_as_block", id=None, frm=None, cond="", inc=None, main=("raw", t), save_name=""), t, "", None,
                        dict(form=f, cell=cell, pos=pos, extra=[]))

            def loop(var, idx, cell, body):
                return ("for", dict(type="begin_for", id=None, frm=None, cond="", inc=None, main=cell, save_name=""), [var] + ([idx] if idx else []), cell, body)

            vals = [0, 1, False, True, None, [], [0], {}, 0.0, "", "0", "False", "w"]
            main = [("row", dict(type="send_message", id=None, frm="start", cond="", inc=None, main=T("Begin"), save_name=""))]
            if form == "native_list":
                main.append(loop("k", None, ("native", ("range", ("int", 3))), [ins("step", ("native", ("list", [V("k")])), [V("k")])]))
                main.append(loop("e", "i", ("native", lit(vals)), [ins("step", ("native", ("list", [V("e")])), [V("e")]),
                                                                   ins("section", ("native", ("list", [("cat", ("str", "S"), V("i")), V("e")])),
                                                                       [("cat", ("str", "S"), V("i")), V("e")])]))
            elif form == "native_scalar":
                main.append(loop("k", None, ("native", ("range", ("int", 3))), [ins("step", ("native", V("k")), [V("k")])]))
                main.append(loop("e", None, ("native", lit([0, False, None, 0.0, 1, True])), [ins("step", ("native", V("e")), [V("e")])]))
            else:
                main.append(loop("k", None, ("native", ("range", ("int", 3))), [ins("step", T(V("k")), [V("k")]),
                                                                                   ins("section", T("S", V("k"), ";", ("eq", V("k"), ("int", 0))), [])]))
                main.append(loop("e", None, ("raw", "0;False;None;w"), [ins("step", T(V("e"), ";"), [V("e")]), ins("section", T("T;", V("e")), [])]))
                main.append(ins("step", None, [], "blank") if with_default else ins("step", ("raw", "0"), [], "text"))
            main.append(("row", dict(type="send_message", id=None, frm=None, cond="", inc=None, main=T("End"), save_name="")))
            out.append(dict(templates=g.templates, data=g.data, main=main))
    return out


# =====================================================================================================================
# the binding alone: histories of map_template_arguments_to_context calls on ONE long-lived ContentIndexParser, with
# argument lists of OBJECTS (what insert_as_block rows deliver), against the reference binding and the model
# =====================================================================================================================
def make_parser(data):
    """a real ContentIndexParser built by the real reader from a scratch CSV folder holding the data sheets"""
    import os
    import shutil
    import tempfile
    from rpft.converters import get_content_index_parser
    d = tempfile.mkdtemp(prefix="c03bind")
    try:
        flowutil.write_csv(os.path.join(d, "content_index.csv"), flowutil.INDEX_HEADERS, [dict(type="data_sheet", sheet_name=n) for n in data])
        for n, (cols, rows) in data.items():
            h, cells = data_sheet_csv(cols, rows)
            flowutil.write_csv(os.path.join(d, n + ".csv"), h, cells)
        r = run_cli_mode(get_content_index_parser, [d], "csv", None, [])
        if r[0] != "ok":
            raise RuntimeError(f"cannot build a ContentIndexParser: {r}")
        return r[1]
    finally:
        shutil.rmtree(d, ignore_errors=True)


def reference_binding(defs, args, row, data):
    """('ok', context) | ('err', why): written from the property text (positional, the empty string takes the default, a sheet
    argument is bound to the rows of the named data sheet) and the documented stops (doubly defined, required missing)"""
    cenv = dict(row)
    for i, d in enumerate(defs):
        a = args[i] if i < len(args) else ""
        if d["name"] in cenv:
            return ("err", "doubly")
        v = d["default"] if (isinstance(a, str) and a == "") else a
        if isinstance(v, str) and v == "":
            return ("err", "required")
        if d["type"] == "sheet":
            try:
                hash(v)
            except TypeError:
                return ("err", "unhashable")
            if not isinstance(v, str) or v not in data:
                return ("err", "unknown-sheet")
            v = Rows((r["ID"], dict(r)) for r in data[v][1])
        cenv[d["name"]] = v
    return ("ok", cenv)


def gen_binding_case(rng, g):
    names = rng.sample(["a1", "a2", "a3", "s1", "b"], rng.choice([0, 1, 1, 2, 2, 3, 4]))
    defs = []
    for nm in names:
        if rng.random() < 0.2:
            defs.append(dict(name=nm, type="sheet", default=rng.choice(["", "lookup", "bdata"])))
        else:
            defs.append(dict(name=nm, type="", default=rng.choice(["", "", "dflt", "1", "0", "False"])))
    args = []
    for d in defs:
        x = rng.random()
        if d["type"] == "sheet":
            args.append("" if (d["default"] and x < 0.5) else rng.choice(["lookup", "bdata"]) if x < 0.93 else rng.choice([0, None, ["lookup"], "nosuch", ("lookup",)]))
        elif x < 0.2 and d["default"]:
            args.append("")
        elif x < 0.23:
            args.append("")
        else:
            args.append(g.value_for("any"))
    if rng.random() < 0.25:
        args = args[:rng.randrange(len(args) + 1)]
    elif rng.random() < 0.2:
        args += [g.value_for("any") if rng.random() < 0.7 else "" for _ in range(rng.choice([1, 2]))]
    row = {}
    if rng.random() < 0.5:
        row = {k: copy.deepcopy(v) for k, v in rng.choice(g.data["bdata"][1]).items()}
    if defs and row and rng.random() < 0.05:
        defs[rng.randrange(len(defs))]["name"] = rng.choice(["bw", "bn"])
    if len(defs) >= 2 and rng.random() < 0.03:
        defs[-1]["name"] = defs[0]["name"]
    return defs, args, row


class WarnSpy:
    def __enter__(self):
        import logging
        self.msgs = []
        spy = self

        class H(logging.Handler):
            def emit(self, record):
                if record.levelno == logging.WARNING:
                    spy.msgs.append(record.getMessage())
        self.h = H()
        self.lg = logging.getLogger("main")
        self.lg.addHandler(self.h)
        return self

    def __exit__(self, *a):
        self.lg.removeHandler(self.h)
        return False


def impl_binding_result(r):
    if r[0] == "ok":
        return ("ok", {k: plain_value(x) for k, x in r[1].items()})
    if r[1] == "critical":
        return ("err", "doubly" if "doubly defined" in r[2] else "required" if "Required template argument" in r[2] else "critical:" + r[2][:60])
    return ("err", {"KeyError": "unknown-sheet", "TypeError": "unhashable"}.get(r[1], r[1]))


def same_binding(a, b):
    if a[0] != b[0]:
        return False
    if a[0] == "err":
        return a[1] == b[1]
    return list(a[1].keys()) == list(b[1].keys()) and all(typed_eq(a[1][k], b[1][k]) for k in a[1])


def binding_stream(ctx, n):
    import c16
    from common import enc_str, dec_str
    from rpft.parsers.creation.contentindexrowmodel import TemplateArgument
    rng, m, v = ctx.rng, ctx.model, ctx.v
    g = WbGen(rng)
    g.gen_data()
    parser = make_parser(g.data)              # ONE parser for the whole history
    sheets_all = {nm: {r["ID"]: dict(r) for r in rows} for nm, (cols, rows) in g.data.items()}
    dist = {"calls_on_one_parser": 0, "ok": 0, "errors": {}, "falsy_object_arguments": 0, "too_many_warning": 0, "model_equal": 0,
            "model_outside_language": 0, "argument_classes": {}}
    nontrivial = set()
    for _ in range(n):
        defs, args, row = gen_binding_case(rng, g)
        v.coverage["evaluations"] += 1
        dist["calls_on_one_parser"] += 1
        tdefs = [TemplateArgument(name=d["name"], type=d["type"], default_value=d["default"]) for d in defs]
        with WarnSpy() as ws:
            r = run_cli_mode(parser.map_template_arguments_to_context, tdefs, copy.deepcopy(args), dict(row))
        impl = impl_binding_result(r)
        warned = any("Too many arguments" in x for x in ws.msgs)
        ref = reference_binding(defs, args, row, g.data)
        for i, d in enumerate(defs):
            a = args[i] if i < len(args) else ""
            kk = value_class(a) + ("/default" if d["default"] else "/required") + ("/sheet" if d["type"] == "sheet" else "")
            dist["argument_classes"][kk] = dist["argument_classes"].get(kk, 0) + 1
            dist["falsy_object_arguments"] += falsy_object(a)
        if ref[0] == "ok":
            dist["ok"] += 1
        else:
            dist["errors"][ref[1]] = dist["errors"].get(ref[1], 0) + 1
        dist["too_many_warning"] += warned
        rep = dict(fn="binding", defs=defs, args=repr(args), row=repr(row), data={k: [dict(r) for r in rows] for k, (c, rows) in g.data.items()})
        shown = f"declared {[(d['name'], d['type'], d['default']) for d in defs]}, arguments {args!r}, data row {row!r}"
        if (ref[0] == "ok") != (impl[0] == "ok"):
            v.failing_input("insert-as-block-arguments", f"template arguments ({shown}): the reference binding gives {ref!r}, map_template_arguments_to_context {impl!r} "
                            f"(call {dist['calls_on_one_parser']} on one ContentIndexParser)", rep)
            continue
        if ref[0] == "ok" and not same_binding(ref, impl):
            bad = next((k for k in ref[1] if k not in impl[1] or not typed_eq(ref[1][k], impl[1][k])), None)
            v.failing_input("insert-as-block-arguments", f"template arguments ({shown}): `{bad}` must be bound to {ref[1].get(bad)!r} (the argument at its position; "
                            f"the declared default only for the empty string), map_template_arguments_to_context binds {impl[1].get(bad)!r} "
                            f"(call {dist['calls_on_one_parser']} on one ContentIndexParser)", rep)
            continue
        if defs and args:
            nontrivial.add(repr(([(d["type"], bool(d["default"])) for d in defs], [value_class(a) for a in args], bool(row))))
        if m is None:
            continue
        if not model_value_ok(args) or not model_value_ok(list(row.values())):
            dist["model_outside_language"] += 1
            continue
        e_defs = "(" + " ".join(f"({enc_str(d['name'])} {enc_str(d['type'])} {enc_str(d['default'])})" for d in defs) + ")"
        e_sheets = "(" + " ".join(f"({enc_str(nm)} {c16.enc_value(to_c16(rows))})" for nm, rows in sheets_all.items()) + ")"
        e_row = c16.enc_ctx({k: to_c16(x) for k, x in row.items()})
        e_args = "(" + " ".join(c16.enc_value(to_c16(a)) for a in args) + ")"
        out = parse_sexp(m.ask(f"(203 2 {e_defs} {e_sheets} {e_row} {e_args})"))
        if out == [999998]:
            ctx.disagree("binding: the model rejects the request", rep, "BADINPUT", "")
            continue
        if out[0] == 999999:
            mo = ("err", {1: "doubly", 2: "required", 3: "unknown-sheet", 4: "unhashable"}.get(out[1], f"code {out[1]}"))
            mw = None
        else:
            mo = ("ok", {dec_str(k): from_c16(c16.dec_value(x)) for k, x in out[0]})
            mw = bool(out[1])
        if not same_binding(mo, (impl[0], {k: sheets_all_rows(x) for k, x in impl[1].items()}) if impl[0] == "ok" else impl):
            ctx.disagree("binding: bind_args (Comp/InsertArgs.v) vs map_template_arguments_to_context", rep, repr(mo)[:600], repr(impl)[:600])
            continue
        if mw is not None and mw != warned:
            ctx.disagree("binding: 'Too many arguments' warning, model vs implementation", rep, repr(mw), repr(warned))
            continue
        dist["model_equal"] += 1
    dist["argument_classes"] = dict(sorted(dist["argument_classes"].items()))
    ctx.stats["insert_argument_binding_history"] = dist
    return nontrivial


def replay_binding(r):
    from rpft.parsers.creation.contentindexrowmodel import TemplateArgument
    data = {"bdata": (BDATA_COLS, r["data"]["bdata"]), "mdata": (MDATA_COLS, r["data"]["mdata"]), "lookup": (LOOKUP_COLS, r["data"]["lookup"])}
    parser = make_parser(data)
    args, row = ast.literal_eval(r["args"]), ast.literal_eval(r["row"])
    tdefs = [TemplateArgument(name=d["name"], type=d["type"], default_value=d["default"]) for d in r["defs"]]
    impl = impl_binding_result(run_cli_mode(parser.map_template_arguments_to_context, tdefs, copy.deepcopy(args), dict(row)))
    ref = reference_binding(r["defs"], args, row, data)
    return same_binding(ref, impl) if ref[0] == "ok" else impl[0] != "ok"


# =====================================================================================================================
def run(ctx, n):
    rng = ctx.rng
    dist = {"workbooks": 0, "reference_has_no_reading": 0, "expected_rejections": 0, "twins_equivalent": 0, "insertions": 0,
            "insertions_with_data_row": 0, "insertions_inside_a_loop": 0, "insertions_by_an_inserted_template": 0, "falsy_object_arguments": 0, "by_form": {}, "argument_classes": {},
            "model_contexts_equal": 0, "model_outside_language": 0}
    nontrivial, samples = set(), []
    spy_budget = [max(40, n // 2)]
    for wb in directed(rng):
        dist["workbooks"] += 1
        judge(ctx, wb, dist, nontrivial, samples, spy_budget)
    for _ in range(n):
        wb = WbGen(rng).gen()
        dist["workbooks"] += 1
        judge(ctx, wb, dist, nontrivial, samples, spy_budget)
    dist["argument_classes"] = dict(sorted(dist["argument_classes"].items()))
    ctx.stats["insert_as_block_twins"] = dist
    nontrivial |= {("binding", c) for c in binding_stream(ctx, n * 12)}
    return nontrivial, samples


def replay(r):
    """True when the property holds on this input"""
    import common
    if r.get("fn") == "binding":
        return replay_binding(r)
    r1 = flowutil.compile_workbook(unpack(r["sugared"]))
    if r.get("desugared") is None:
        return r1[0] != "ok"
    if r1[0] != "ok":
        return False
    r2 = flowutil.compile_workbook(unpack(r["desugared"]))
    m = common.Model() if __import__("os").path.exists(common.MODEL_BIN) else None
    try:
        return check_flows(m, r1[1]["flows"][0], r2, r["desugared_rows"], r["expected_texts"], []) is None
    finally:
        if m:
            m.close()
