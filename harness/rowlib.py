"""Shared by translator/tables_row.py and harness/c07.py, c09.py: abstract descriptions of row
models (the universe of coq/theories/Row/Ty.v), their pydantic realisation, and the
S-expression encodings.

ty     ::= ("str",) | ("int",) | ("float",) | ("bool",) | ("ulist",) | ("list", ty)
         | ("model", name, [(field, ty, default | REQUIRED)], h2f: dict, f2h: dict)
values ::= str | int | float | bool | list | dict(field -> value)   (dict = model instance)
"""
import typing

REQUIRED = ("<required>",)

STR, INT, FLOAT, BOOL, ULIST = ("str",), ("int",), ("float",), ("bool",), ("ulist",)


class Unsupported(Exception):
    pass


# ------------------------------------------------------------------ S-expressions
def e_str(s):
    return "(" + " ".join(str(ord(c)) for c in s) + ")"


def e_list(items):
    return "(" + " ".join(items) + ")"


def e_remap(d):
    return e_list(e_list([e_str(k), e_str(v)]) for k, v in d.items())


def e_int(z):
    return f"(1 {-z})" if z < 0 else f"(0 {z})"


def float_text(f):
    return repr(float(f))


def e_value(t, v):
    k = t[0]
    if k == "str":
        return "(0 " + e_str(v) + ")"
    if k == "int":
        return "(1 " + e_int(v) + ")"
    if k == "float":
        return "(2 " + e_str(float_text(v)) + ")"
    if k == "bool":
        return "(3 " + ("1" if v else "0") + ")"
    if k == "ulist":
        return "(4 " + e_list(e_value_u(x) for x in v) + ")"
    if k == "list":
        return "(4 " + e_list(e_value(t[1], x) for x in v) + ")"
    if k == "model":
        fields = t[2]
        if list(v.keys()) != [f[0] for f in fields]:
            raise Unsupported(f"instance fields {list(v.keys())} vs model {[f[0] for f in fields]}")
        return "(5 " + e_list(e_list([e_str(n), e_value(ft, v[n])]) for (n, ft, _) in fields) + ")"
    raise Unsupported(k)


def e_value_u(v):
    if isinstance(v, str):
        return "(0 " + e_str(v) + ")"
    if isinstance(v, list):
        return "(4 " + e_list(e_value_u(x) for x in v) + ")"
    raise Unsupported(f"bare-list content {v!r}")


def e_ty(t):
    k = t[0]
    if k == "list":
        return "(5 " + e_ty(t[1]) + ")"
    if k == "model":
        fs = []
        for (n, ft, d) in t[2]:
            fs.append(e_list([e_str(n), e_ty(ft), "()" if d is REQUIRED else "(" + e_value(ft, d) + ")"]))
        return "(6 " + e_list(fs) + " " + e_remap(t[3]) + " " + e_remap(t[4]) + ")"
    return {"str": "(0)", "int": "(1)", "float": "(2)", "bool": "(3)", "ulist": "(4)"}[k]


def e_ctx(ctx):
    """ctx = None | dict(basic=dict, sw_header=str, sw_column=str, sw_table=dict, sw_strip=bool)"""
    if ctx is None:
        return "()"
    return e_list([e_remap(ctx["basic"]), e_str(ctx["sw_header"]), e_str(ctx["sw_column"]), e_remap(ctx["sw_table"]),
                   "1" if ctx.get("sw_strip") else "0"])


def e_rowmodel(t, ctx=None):
    return e_list([e_ty(t), e_ctx(ctx)])


def e_cells(cells):
    """cells: dict or list of pairs header -> text"""
    items = cells.items() if isinstance(cells, dict) else cells
    return e_list(e_list([e_str(k), e_str(v)]) for k, v in items)


def e_strs(l):
    return e_list(e_str(s) for s in l)


def d_str(x):
    return "".join(chr(c) for c in x)


def d_value(x):
    """decoded wire value -> Python natives (floats as float)"""
    k = x[0]
    if k == 0:
        return d_str(x[1])
    if k == 1:
        return -x[1][1] if x[1][0] == 1 else x[1][1]
    if k == 2:
        return float(d_str(x[1]))
    if k == 3:
        return x[1] == 1
    if k == 4:
        return [d_value(y) for y in x[1]]
    if k == 5:
        return {d_str(kv[0]): d_value(kv[1]) for kv in x[1]}
    raise ValueError(x)


def d_cells(x):
    return [(d_str(kv[0]), d_str(kv[1])) for kv in x]


def d_res(x, dec):
    """(0 v) -> ('ok', dec(v)); (999999 code) -> ('err', code)"""
    if x and x[0] == 999999:
        return ("err", x[1])
    if x and x[0] == 0 and len(x) == 2:
        return ("ok", dec(x[1]))
    return ("bad", x)


ERR_UNSUPPORTED = 10
ERR_NAMES = {1: "AssertionError", 2: "IndexError", 3: "ValueError/TypeError", 4: "no such field", 5: "KeyError",
             6: "ValidationError", 7: "RowParserError(duplicate key)", 8: "join error", 9: "shape", 10: "unsupported"}


def sexp_to_coq(x):
    """parsed S-expression (nested lists of ints) -> Coq term of type sexp"""
    if isinstance(x, int):
        return f"A {x}"
    return "L [" + "; ".join(sexp_to_coq(y) for y in x) + "]"


# ------------------------------------------------------------------ pydantic <-> description
def from_pydantic(cls, _seen=()):
    """Description of a ParserModel subclass from its effective pydantic fields and by
    tabulating its two renaming functions.  Raises Unsupported outside the universe."""
    from rpft.parsers.common.rowparser import ParserModel

    if cls in _seen:
        raise Unsupported(f"recursive model {cls}")
    fields = []
    for name, mf in cls.__fields__.items():
        t = _ty_of(mf.outer_type_, _seen + (cls,))
        if mf.required:
            d = REQUIRED
        else:
            d = mf.get_default()
            if d is None:
                raise Unsupported(f"{cls.__name__}.{name}: Optional/None default is outside the universe")
            d = natives(d)
            _check_value(t, d, f"default of {cls.__name__}.{name}")
        fields.append((name, t, d))
    names = [f[0] for f in fields]
    # field_name_to_header_name is only ever applied to field names: exact table
    f2h = {}
    for n in names:
        h = cls.field_name_to_header_name(n)
        if not isinstance(h, str):
            raise Unsupported(f"{cls.__name__}.field_name_to_header_name({n!r}) = {h!r}")
        if h != n:
            f2h[n] = h
    # header_name_to_field_name is applied to arbitrary header components: tabulated over the
    # candidate domain (field names, their header names, and the names with '_' stripped)
    cands = []
    for n in names:
        for c in (n, f2h.get(n, n), n.strip("_"), n + "_", "_" + n):
            if c not in cands:
                cands.append(c)
    h2f = {}
    for c in cands:
        f = cls.header_name_to_field_name(c)
        if not isinstance(f, str):
            raise Unsupported(f"{cls.__name__}.header_name_to_field_name({c!r}) = {f!r}")
        if f != c:
            h2f[c] = f
    return ("model", cls.__name__, fields, h2f, f2h)


def _ty_of(t, seen):
    from rpft.parsers.common.rowparser import ParserModel

    if t is str:
        return STR
    if t is int:
        return INT
    if t is float:
        return FLOAT
    if t is bool:
        return BOOL
    if t is list:
        return ULIST
    origin = typing.get_origin(t)
    if origin in (list, typing.List):
        args = typing.get_args(t)
        if len(args) != 1:
            raise Unsupported(f"list type {t!r}")
        return ("list", _ty_of(args[0], seen))
    try:
        if issubclass(t, ParserModel):
            return from_pydantic(t, seen)
    except TypeError:
        pass
    raise Unsupported(f"type {t!r} is outside the universe")


def natives(v):
    """pydantic instance / nested value -> dict/list/basic"""
    from pydantic.v1 import BaseModel

    if isinstance(v, BaseModel):
        return {k: natives(x) for k, x in v}
    if isinstance(v, (list, tuple)):
        return [natives(x) for x in v]
    return v


def _check_value(t, v, what):
    k = t[0]
    ok = True
    if k == "str":
        ok = type(v) is str
    elif k == "int":
        ok = type(v) is int
    elif k == "float":
        ok = type(v) is float
    elif k == "bool":
        ok = type(v) is bool
    elif k == "ulist":
        ok = type(v) is list
    elif k == "list":
        ok = type(v) is list
        if ok:
            for x in v:
                _check_value(t[1], x, what)
    elif k == "model":
        ok = type(v) is dict and list(v.keys()) == [f[0] for f in t[2]]
        if ok:
            for (n, ft, _) in t[2]:
                _check_value(ft, v[n], what)
    if not ok:
        raise Unsupported(f"{what}: value {v!r} does not have type {t[0]}")


_counter = [0]


def to_pydantic(t):
    """Build the pydantic class of a model description (cached on the description's id)."""
    from pydantic.v1 import create_model
    from rpft.parsers.common.rowparser import ParserModel

    assert t[0] == "model"
    h2f, f2h = dict(t[3]), dict(t[4])
    ns = {}
    if h2f:
        ns["header_name_to_field_name"] = lambda header, _m=h2f: _m.get(header, header)
    if f2h:
        ns["field_name_to_header_name"] = lambda field, _m=f2h: _m.get(field, field)
    _counter[0] += 1
    base = type(f"Base{_counter[0]}", (ParserModel,), ns)
    fields = {}
    for (n, ft, d) in t[2]:
        pt = py_type(ft)
        if d is REQUIRED:
            fields[n] = (pt, ...)
        else:
            fields[n] = (pt, instance(ft, d))
    return create_model(f"{t[1]}_{_counter[0]}", __base__=base, **fields)


_cls_cache = {}


def py_type(t):
    k = t[0]
    if k == "model":
        key = id(t)
        if key not in _cls_cache:
            _cls_cache[key] = (t, to_pydantic(t))
        return _cls_cache[key][1]
    if k == "list":
        return typing.List[py_type(t[1])]
    return {"str": str, "int": int, "float": float, "bool": bool, "ulist": list}[k]


def instance(t, v):
    """natives -> what pydantic holds (sub-model instances)"""
    k = t[0]
    if k == "model":
        cls = py_type(t)
        return cls(**{n: instance(ft, v[n]) for (n, ft, _) in t[2]})
    if k == "list":
        return [instance(t[1], x) for x in v]
    if k == "ulist":
        return [x for x in v]
    return v


def clear_cache():
    _cls_cache.clear()
