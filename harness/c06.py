"""C06 — one name, one UUID.

(a) correspondence: generated containers + histories (record_*_uuid / add_flow / add_campaign /
    add_trigger / render, in any order, render 1..3 times) are run through the real classes
    (built through the constructors, or loaded with from_dict from an export-shaped dict) and
    through the extracted Gallina model (engine 106); compared: where and how the history
    stops (error class, never the message), and after every render the list of all
    (kind, name, uuid) occurrences of the rendered JSON in document order, up to a bijection
    between the model's Fresh n and the strings the implementation invented.
    A second stream drives UUIDDict alone (record sequences, generate_missing_uuids).
(b) the property's own oracle on the rendered JSON, independent of the model: consistency,
    top-level listing, explicit-wins, conflict rejected, unknown trigger flow rejected,
    repeated renders equal.
(c) sheet level (c06_wb.py; model Uuid/Sheet.v, engine 106 fn 3): generated WORKBOOKS in which the
    explicit uuids are obj_id cells of flow-sheet rows that reach a FlowParser by every route
    (flow sheet, begin_block, begin_for, template + data rows, insert_as_block — nested, with data
    rows, with template arguments), run through one long-lived ContentIndexParser (histories of
    parse_all / render) and, one flow sheet after the other, through FlowParser into one
    long-lived RapidProContainer mixed with record/add/render operations; same comparison with
    the model after every render, same oracle, the explicit sources being the cells of the sheets.
"""
import copy
import json

from common import enc_str, parse_sexp, dec_str, run_cli_mode

LEVEL = "proof"

NONE_NAME = [1114112]          # image of the key None: not a code point, so the map is injective
NAME_POOL = ["a", "b", "c", "d", "e", "Ünï cødé", "a "]
UPOOL = ["U1", "U2", "U3"]
FILLER_CASES = [("has_any_word", ["hello"]), ("has_number_between", ["U1", "a"]), ("has_text", []),
                ("has_ward", ["U2", "b"]), ("has_phrase", ["a"])]


# ------------------------------------------------------------------------------ encodings
def enc_name(n):
    if n is None:
        return "(" + " ".join(str(c) for c in NONE_NAME) + ")"
    return enc_str(n)


def dec_name(x):
    if x == NONE_NAME:
        return None
    return dec_str(x)


def enc_u(u):
    if u is None:
        return "()"
    return "(0 " + enc_str(u) + ")"


def enc_ref(r):
    return "(" + enc_name(r[0]) + " " + enc_u(r[1]) + ")"


def enc_l(items):
    return "(" + " ".join(items) + ")"


def enc_action(a):
    fl = "()" if a.get("flow") is None else "(" + enc_ref(a["flow"]) + ")"
    return "(" + enc_str(a["type"]) + " " + enc_l(enc_ref(g) for g in a.get("groups", [])) + " " + fl + ")"


def enc_case(k):
    # model: (type uuid name); for tests that are not group tests the two slots are never read
    args = k["args"]
    u = args[0] if len(args) > 0 else None
    n = args[1] if len(args) > 1 else ""
    return "(" + enc_str(k["type"]) + " " + enc_u(u) + " " + enc_name(n) + ")"


def enc_node(n):
    return "(" + enc_l(enc_action(a) for a in n["actions"]) + " " + enc_l(enc_case(k) for k in n["cases"]) + ")"


def enc_flow(f, actual_uuid):
    return "(" + enc_name(f["name"]) + " " + enc_u(actual_uuid) + " " + enc_l(enc_node(n) for n in f["nodes"]) + ")"


def enc_event(e):
    fl = e["flow"] if e["flow"] is not None else [None, None]   # FlowReference(None, None)
    return "(" + enc_str(e["type"]) + " " + enc_ref(fl) + ")"


def enc_campaign(c):
    return "(" + enc_l(enc_event(e) for e in c["events"]) + " " + enc_ref(c["group"]) + ")"


def enc_trigger(t):
    return "(" + enc_ref(t["flow"]) + " " + enc_l(enc_ref(g) for g in t["groups"]) + " " + enc_l(enc_ref(g) for g in t["exclude"]) + ")"


def norm_u_trigger_group(u):
    # Trigger._assign_groups stores `group_uuid or None`
    return u


def enc_request(case, flow_uuids):
    """flow_uuids: id(flow dict) -> uuid the FlowContainer object really has"""
    c = "(" + enc_l(enc_ref(g) for g in case["groups"]) + " " \
        + enc_l(enc_flow(f, flow_uuids[id(f)]) for f in case["flows"]) + " " \
        + enc_l(enc_campaign(x) for x in case["campaigns"]) + " " \
        + enc_l(enc_trigger(x) for x in case["triggers"]) + ")"
    ops = []
    for o in case["ops"]:
        if o[0] == "rg":
            ops.append("(0 " + enc_name(o[1]) + " " + enc_u(o[2]) + ")")
        elif o[0] == "rf":
            ops.append("(1 " + enc_name(o[1]) + " " + enc_u(o[2]) + ")")
        elif o[0] == "af":
            ops.append("(2 " + enc_flow(o[1], flow_uuids[id(o[1])]) + ")")
        elif o[0] == "ac":
            ops.append("(3 " + enc_campaign(o[1]) + ")")
        elif o[0] == "at":
            ops.append("(4 " + enc_trigger(o[1]) + ")")
        else:
            ops.append("(5)")
    return "(106 1 " + c + " " + enc_l(ops) + ")"


def dec_u(x):
    """-> None | ('given', s) | ('fresh', n)"""
    if x == []:
        return None
    if x[0] == 0:
        return ("given", dec_str(x[1]))
    return ("fresh", x[1])


ERRNAME = {1: "ValueError", 2: "RapidProTriggerError", 3: "KeyError"}


def dec_trace(s):
    x = parse_sexp(s)
    snaps = []
    for occ_l, vis_l in x[0]:
        occs = [("G" if o[0] == 0 else "F", dec_name(o[1]), dec_u(o[2])) for o in occ_l]
        snaps.append((occs, [v == 1 for v in vis_l]))
    stop = None
    if x[1]:
        stop = (x[1][0], ERRNAME.get(x[1][1], "?"))
    return snaps, stop


# ------------------------------------------------------------------------------ building the real objects
def _models():
    from rpft.rapidpro.models import actions, campaigns, common, containers, nodes, triggers
    return actions, campaigns, common, containers, nodes, triggers


def build_action(a):
    actions, _, common, _, _, _ = _models()
    ty = a["type"]
    if ty == "add_contact_groups":
        return actions.AddContactGroupAction([common.Group(n, u) for n, u in a["groups"]])
    if ty == "remove_contact_groups":
        return actions.RemoveContactGroupAction([common.Group(n, u) for n, u in a["groups"]])
    if ty == "enter_flow":
        return actions.EnterFlowAction(a["flow"][0], a["flow"][1])
    if ty == "send_msg":
        return actions.SendMessageAction("hello")
    if ty == "set_run_result":
        return actions.SetRunResultAction("res", "val")
    raise ValueError(ty)


def build_node(n):
    _, _, _, _, nodes, _ = _models()
    if n["kind"] == "basic":
        node = nodes.BasicNode()
        for a in n["actions"]:
            node.add_action(build_action(a))
        return node
    if n["kind"] == "enter":
        a0 = n["actions"][0]
        node = nodes.EnterFlowNode(a0["flow"][0], a0["flow"][1])
    else:
        # a has_group test may sit on ANY switch router (group split, wait for response, split by a field /
        # result / expression): the operand and the wait are part of the generated node
        node = nodes.SwitchRouterNode(n.get("operand") or "@contact.groups", wait_timeout=n.get("wait"))
        for a in n["actions"]:
            node.add_action(build_action(a))
    # comparison variable of add_choice: the node's operand; an enter-flow node keeps its "@child.run.status" when
    # the case names no variable (older replay files have no "operand": "@contact.groups" as before)
    var = n["operand"] if "operand" in n else "@contact.groups"
    for i, k in enumerate(n["cases"]):
        node.add_choice(var, k["type"], list(k["args"]), f"cat{i}", None)
    return node


# operands of switch routers: group split, wait_for_response, split_by_value on a field / result / expression, urn scheme
OPERANDS = ["@contact.groups", "@contact.groups", "@input.text", "@input.text", "@fields.age", "@results.answer",
            "@(urn_parts(contact.urn).scheme)", "@contact.name"]


def router_label(n):
    """coarse class of the router a case sits on (statistics)"""
    if n["kind"] == "enter":
        return "enter_flow:" + ("child_status" if n.get("operand", "@contact.groups") is None else "overwritten")
    op = n.get("operand") or "@contact.groups"
    if n.get("wait") is not None:
        return "wait"
    return {"@contact.groups": "group_split"}.get(op, "other_operand")


def build_flow(f):
    _, _, _, containers, _, _ = _models()
    fc = containers.FlowContainer(f["name"], uuid=f["uuid"])
    for n in f["nodes"]:
        fc.add_node(build_node(n))
    return fc


def build_event(e):
    _, campaigns, _, _, _, _ = _models()
    kw = dict(offset=1, unit="H", event_type=e["type"], delivery_hour=-1, start_mode="I",
              relative_to_label="Created On", relative_to_key="created_on")
    if e["type"] == "M":
        kw.update(message={"eng": "hi"}, base_language="eng")
    if e["flow"] is not None:
        kw.update(flow_name=e["flow"][0], flow_uuid=e["flow"][1])
    return campaigns.CampaignEvent(**kw)


def build_campaign(c):
    _, campaigns, _, _, _, _ = _models()
    return campaigns.Campaign("camp", group_name=c["group"][0], group_uuid=c["group"][1],
                              events=[build_event(e) for e in c["events"]])


def build_trigger(t):
    _, _, common, _, _, triggers = _models()
    if t.get("by_objects"):
        return triggers.Trigger("K", ["kw"], flow=common.FlowReference(t["flow"][0], t["flow"][1]),
                                groups=[common.Group(n, u) for n, u in t["groups"]],
                                exclude_groups=[common.Group(n, u) for n, u in t["exclude"]])
    return triggers.Trigger("K", ["kw"], flow_name=t["flow"][0], flow_uuid=t["flow"][1],
                            group_names=[g[0] for g in t["groups"]], group_uuids=[g[1] for g in t["groups"]],
                            exclude_group_names=[g[0] for g in t["exclude"]],
                            exclude_group_uuids=[g[1] for g in t["exclude"]])


def event_json(e):
    d = {"uuid": "ev-uuid", "offset": 1, "unit": "H", "event_type": e["type"], "delivery_hour": -1,
         "message": {"eng": "hi"} if e["type"] == "M" else None,
         "relative_to": {"label": "Created On", "key": "created_on"}, "start_mode": "I"}
    if e["type"] == "M":
        d["base_language"] = "eng"
    if e["flow"] is not None:
        d["flow"] = {"name": e["flow"][0], "uuid": e["flow"][1]}
    return d


def campaign_json(c):
    return {"uuid": "camp-uuid", "name": "camp", "group": {"name": c["group"][0], "uuid": c["group"][1]},
            "events": [event_json(e) for e in c["events"]]}


def trigger_json(t):
    return {"trigger_type": "K", "keyword": "kw", "keywords": ["kw"], "channel": None,
            "flow": {"name": t["flow"][0], "uuid": t["flow"][1]},
            "groups": [{"name": n, "uuid": u} for n, u in t["groups"]],
            "exclude_groups": [{"name": n, "uuid": u} for n, u in t["exclude"]], "match_type": "F"}


def flow_json(f):
    """export-shaped dict of a flow: node JSON is what the real node classes render before
    any uuid resolution (so references still carry exactly the uuids of the case)"""
    nodes = [build_node(n).render() for n in f["nodes"]]
    return {"uuid": f["uuid"], "name": f["name"], "language": "eng", "type": "messaging", "nodes": nodes,
            "spec_version": "13.1.0", "revision": 0, "expire_after_minutes": 10080, "metadata": {},
            "localization": {}}


def make_flow(f, path):
    _, _, _, containers, _, _ = _models()
    if path == "dict":
        return containers.FlowContainer.from_dict(flow_json(f))
    return build_flow(f)


def make_container(case):
    """-> (container, {id(flow dict): FlowContainer}, prepared op objects)"""
    actions, campaigns, common, containers, nodes, triggers = _models()
    flow_objs = {}
    if case["path"] == "dict":
        data = {
            "campaigns": [campaign_json(c) for c in case["campaigns"]],
            "fields": [],
            "flows": [flow_json(f) for f in case["flows"]],
            "groups": [{"name": n, "uuid": u} for n, u in case["groups"]],
            "site": "https://example.org",
            "triggers": [trigger_json(t) for t in case["triggers"]],
            "version": "13",
        }
        cont = containers.RapidProContainer.from_dict(data)
        for f, fo in zip(case["flows"], cont.flows):
            flow_objs[id(f)] = fo
    else:
        fl = []
        for f in case["flows"]:
            fo = build_flow(f)
            flow_objs[id(f)] = fo
            fl.append(fo)
        cont = containers.RapidProContainer(
            groups=[common.Group(n, u) for n, u in case["groups"]],
            flows=fl,
            campaigns=[build_campaign(c) for c in case["campaigns"]],
            triggers=[build_trigger(t) for t in case["triggers"]],
        )
    prepared = []
    for o in case["ops"]:
        if o[0] == "af":
            fo = make_flow(o[1], case["path"])
            flow_objs[id(o[1])] = fo
            prepared.append(fo)
        elif o[0] == "ac":
            prepared.append(campaigns.Campaign.from_dict(campaign_json(o[1])) if case["path"] == "dict" else build_campaign(o[1]))
        elif o[0] == "at":
            prepared.append(triggers.Trigger.from_dict(trigger_json(o[1])) if case["path"] == "dict" else build_trigger(o[1]))
        else:
            prepared.append(None)
    return cont, flow_objs, prepared


def run_impl(case):
    """-> dict(renders=[json...], stop=None|(index, class), flow_uuids={id: uuid}, build_error=None|str)"""
    r = run_cli_mode(make_container, case)
    if r[0] != "ok":
        return dict(renders=[], stop=None, flow_uuids={}, build_error=f"{r[1]}: {r[2]}")
    cont, flow_objs, prepared = r[1]
    flow_uuids = {k: fo.uuid for k, fo in flow_objs.items()}
    renders = []
    stop = None
    for i, (o, obj) in enumerate(zip(case["ops"], prepared)):
        if o[0] == "rg":
            r = run_cli_mode(cont.record_group_uuid, o[1], o[2])
        elif o[0] == "rf":
            r = run_cli_mode(cont.record_flow_uuid, o[1], o[2])
        elif o[0] == "af":
            r = run_cli_mode(cont.add_flow, obj)
        elif o[0] == "ac":
            r = run_cli_mode(cont.add_campaign, obj)
        elif o[0] == "at":
            r = run_cli_mode(cont.add_trigger, obj)
        else:
            r = run_cli_mode(cont.render)
            if r[0] == "ok":
                renders.append(copy.deepcopy(r[1]))
        if r[0] != "ok":
            stop = (i, r[1])
            break
    return dict(renders=renders, stop=stop, flow_uuids=flow_uuids, build_error=None)


# ------------------------------------------------------------------------------ reading the rendered JSON
def occs_in_order(doc):
    """occurrences of the rendered document in document order (= the model's traversal)"""
    out = []
    for g in doc["groups"]:
        out.append(("G", g["name"], g["uuid"]))
    for f in doc["flows"]:
        out.append(("F", f["name"], f["uuid"]))
    for f in doc["flows"]:
        for n in f["nodes"]:
            for a in n.get("actions", []):
                for g in a.get("groups", []) if isinstance(a.get("groups"), list) else []:
                    out.append(("G", g["name"], g["uuid"]))
                if isinstance(a.get("flow"), dict):
                    out.append(("F", a["flow"]["name"], a["flow"]["uuid"]))
            for k in n.get("router", {}).get("cases", []):
                if k["type"] == "has_group":
                    out.append(("G", k["arguments"][1], k["arguments"][0]))
    for c in doc["campaigns"]:
        for e in c["events"]:
            if "flow" in e:
                out.append(("F", e["flow"]["name"], e["flow"]["uuid"]))
        out.append(("G", c["group"]["name"], c["group"]["uuid"]))
    for t in doc["triggers"]:
        out.append(("F", t["flow"]["name"], t["flow"]["uuid"]))
        for g in t["groups"]:
            out.append(("G", g["name"], g["uuid"]))
        for g in t["exclude_groups"]:
            out.append(("G", g["name"], g["uuid"]))
    return out


def occs_generic(x, out, top=True):
    """every (kind, name, uuid) anywhere in a rendered document, found by shape only"""
    if isinstance(x, dict):
        if top:
            for f in x.get("flows", []):
                out.append(("F", f.get("name"), f.get("uuid"), "flow definition"))
        if x.get("type") == "has_group" and isinstance(x.get("arguments"), list) and len(x["arguments"]) >= 2:
            out.append(("G", x["arguments"][1], x["arguments"][0], "has_group case"))
        for k, v in x.items():
            if k in ("groups", "exclude_groups") and isinstance(v, list):
                for g in v:
                    if isinstance(g, dict) and "name" in g:
                        out.append(("G", g["name"], g.get("uuid"), "top-level list" if top else k))
            elif k == "group" and isinstance(v, dict) and "name" in v:
                out.append(("G", v["name"], v.get("uuid"), "campaign group"))
            elif k == "flow" and isinstance(v, dict) and "name" in v:
                out.append(("F", v["name"], v.get("uuid"), "flow reference"))
            occs_generic(v, out, False)
    elif isinstance(x, list):
        for y in x:
            occs_generic(y, out, False)
    return out


# ------------------------------------------------------------------------------ what the case says (for the oracle)
def case_refs_flow(f):
    for n in f["nodes"]:
        for a in n["actions"]:
            if a["type"] in ("add_contact_groups", "remove_contact_groups"):
                for g in a["groups"]:
                    yield ("G", g[0], g[1])
            elif a["type"] == "enter_flow":
                yield ("F", a["flow"][0], a["flow"][1])
        for k in n["cases"]:
            if k["type"] == "has_group":
                yield ("G", k["args"][1], k["args"][0])


def case_refs_campaign(c):
    for e in c["events"]:
        if e["flow"] is not None:
            yield ("F", e["flow"][0], e["flow"][1])
        else:
            yield ("F", None, None)
    yield ("G", c["group"][0], c["group"][1])


def case_refs_trigger(t):
    yield ("F", t["flow"][0], t["flow"][1])
    for g in t["groups"]:
        yield ("G", g[0], g[1])
    for g in t["exclude"]:
        yield ("G", g[0], g[1])


class Knowledge:
    """What is explicit / known at a given point of a history, computed from the case alone
    (property text: explicit uuid anywhere — obj_id records, group list, flow definition,
    any reference; flow known to the container — defined, or referenced by an enter-flow
    action or campaign event, or recorded)."""

    def __init__(self, case, flow_uuids):
        self.explicit = {}       # (kind, name) -> set of truthy uuids seen
        self.flows_known = set()  # names in flow_dict before the triggers of a render are visited
        self.flows = list(case["flows"])
        self.campaigns = list(case["campaigns"])
        self.triggers = list(case["triggers"])
        self.flow_uuids = flow_uuids
        for n, u in case["groups"]:
            self.note("G", n, u)

    def note(self, k, n, u):
        if u:
            self.explicit.setdefault((k, n), set()).add(u)
        if k == "F":
            self.flows_known.add(n)

    def op(self, o):
        if o[0] == "rg":
            self.note("G", o[1], o[2])
        elif o[0] == "rf":
            self.note("F", o[1], o[2])
        elif o[0] == "af":
            self.flows.append(o[1])
            self.note("F", o[1]["name"], self.flow_uuids[id(o[1])])
        elif o[0] == "ac":
            self.campaigns.append(o[1])
        elif o[0] == "at":
            self.triggers.append(o[1])

    def at_render(self):
        """-> (conflicts, unknown_trigger_flows) that the property says must be rejected now"""
        for f in self.flows:
            self.note("F", f["name"], self.flow_uuids[id(f)])
        for f in self.flows:
            for k, n, u in case_refs_flow(f):
                self.note(k, n, u)
        for c in self.campaigns:
            for k, n, u in case_refs_campaign(c):
                self.note(k, n, u)
        unknown = [t["flow"][0] for t in self.triggers if t["flow"][0] not in self.flows_known]
        for t in self.triggers:
            for k, n, u in case_refs_trigger(t):
                if k == "G":
                    self.note(k, n, u)
                elif u:
                    self.explicit.setdefault((k, n), set()).add(u)
        conflicts = sorted(((k, repr(n), sorted(us)) for (k, n), us in self.explicit.items() if len(us) > 1))
        return conflicts, unknown


def oracle(case, res):
    """The property evaluated on the implementation's behaviour for this case.
    -> list of (key, summary)."""
    bad = []
    if res["build_error"]:
        return bad
    kn = Knowledge(case, res["flow_uuids"])
    ri = 0
    prev_doc = None
    prev_bind = {}
    stop = res["stop"]
    for i, o in enumerate(case["ops"]):
        stopped_here = stop is not None and stop[0] == i
        if o[0] != "render":
            kn.op(o)
            if stopped_here:
                return bad     # an error at record/add time is a rejection; nothing more to observe
            prev_doc = None
            continue
        conflicts, unknown = kn.at_render()
        if stopped_here:
            return bad
        doc = res["renders"][ri]
        ri += 1
        if conflicts:
            bad.append(("conflict-accepted", f"render #{ri} succeeded although {conflicts[0][0]} {conflicts[0][1]} "
                        f"has the explicit uuids {conflicts[0][2]}"))
        if unknown:
            bad.append(("unknown-trigger-flow-accepted", f"render #{ri} succeeded although a trigger names flow {unknown[0]!r}, "
                        "which no flow, enter-flow action, campaign event or record mentions"))
        occ = occs_generic(doc, [])
        bind = {}
        for k, n, u, where in occ:
            if not u:
                bad.append(("missing-uuid", f"render #{ri}: {k} {n!r} has uuid {u!r} at a {where}"))
            if (k, n) in bind and bind[(k, n)] != u:
                bad.append(("inconsistent-uuid", f"render #{ri}: {k} {n!r} carries {bind[(k, n)]!r} and {u!r} ({where})"))
            bind.setdefault((k, n), u)
        top = [g["name"] for g in doc["groups"]]
        for k, n, u, where in occ:
            if k == "G" and top.count(n) != 1:
                bad.append(("group-not-listed-once", f"render #{ri}: group {n!r} ({where}) occurs {top.count(n)} times in the top-level list"))
        if not conflicts:
            for (k, n), us in kn.explicit.items():
                if (k, n) in bind and bind[(k, n)] not in us:
                    bad.append(("explicit-overridden", f"render #{ri}: {k} {n!r} was given uuid {sorted(us)[0]!r} but carries {bind[(k, n)]!r}"))
        # repeated rendering: nothing new is invented for a name that already had a uuid,
        # and two renders with nothing in between are equal documents
        for key, u in prev_bind.items():
            if key in bind and bind[key] != u:
                bad.append(("uuid-changed-between-renders", f"render #{ri}: {key[0]} {key[1]!r} had {u!r}, now {bind[key]!r}"))
        if prev_doc is not None and prev_doc != doc:
            bad.append(("render-not-idempotent", f"render #{ri} differs from render #{ri - 1} with no operation in between"))
        prev_bind.update(bind)
        prev_doc = doc
        # after a successful render every rendered binding is explicit for what follows
        for (k, n), u in bind.items():
            if u:
                kn.explicit.setdefault((k, n), set()).add(u)
    return bad


# ------------------------------------------------------------------------------ comparison with the model
def compare(case, res, snaps, mstop):
    """-> None or (what, model, impl)"""
    if res["build_error"]:
        return ("implementation could not build the container", "-", res["build_error"])
    istop = res["stop"]
    if (mstop is None) != (istop is None) or (mstop is not None and (mstop[0] != istop[0] or mstop[1] != istop[1])):
        return ("where/how the history stops", repr(mstop), repr(istop))
    if len(snaps) != len(res["renders"]):
        return ("number of successful renders", len(snaps), len(res["renders"]))
    given = set(u for u in res["flow_uuids"].values())
    fresh_of = {}
    inv_of = {}
    for si, ((mocc, vis), doc) in enumerate(zip(snaps, res["renders"])):
        m = [o for o, v in zip(mocc, vis) if v]
        im = occs_in_order(doc)
        if [(k, n) for k, n, _ in m] != [(k, n) for k, n, _ in im]:
            return (f"render #{si + 1}: occurrence names", repr([(k, n) for k, n, _ in m]), repr([(k, n) for k, n, _ in im]))
        for (k, n, mu), (_, _, iu) in zip(m, im):
            if mu is None:
                ok = iu is None
            elif mu[0] == "given":
                ok = iu == mu[1]
            else:
                ok = isinstance(iu, str) and iu not in given and fresh_of.setdefault(mu[1], iu) == iu \
                    and inv_of.setdefault(iu, mu[1]) == mu[1] and len(iu) == 36
            if not ok:
                return (f"render #{si + 1}: uuid of {k} {n!r}", repr(mu), repr(iu))
    return None


# ------------------------------------------------------------------------------ generator
def gen_case(rng, malformed, big=False):
    names = rng.sample(NAME_POOL, rng.randint(1, 5))
    des = {("G", n): f"G-{n}-uuid" for n in names}
    des.update({("F", n): f"F-{n}-uuid" for n in names})
    # how each flow name exists: not at all / defined with explicit uuid / defined with constructor uuid
    status = {n: rng.choice(["undef", "undef", "explicit", "auto"]) for n in names}
    case = {"path": rng.choice(["api", "api", "dict"]), "malformed": malformed}

    def uu(kind, n):
        r = rng.random()
        if malformed and r < 0.2:
            return rng.choice(UPOOL + [des[(kind, rng.choice(names))]])
        if kind == "F" and status.get(n) == "auto" and not malformed:
            return rng.choice([None, ""])
        if r < 0.45:
            return des[(kind, n)]
        return None if r < 0.8 else ""

    def gref(kind, pool=None):
        n = rng.choice(pool or names)
        return [n, uu(kind, n)]

    def action():
        ty = rng.choice(["add_contact_groups", "add_contact_groups", "remove_contact_groups", "enter_flow", "send_msg", "set_run_result"])
        if ty in ("add_contact_groups", "remove_contact_groups"):
            return {"type": ty, "groups": [gref("G") for _ in range(rng.choice([1, 1, 2, 3]))]}
        if ty == "enter_flow":
            return {"type": ty, "flow": gref("F")}
        return {"type": ty}

    def cases():
        out = []
        for _ in range(rng.choice([0, 1, 2, 3])):
            if rng.random() < 0.75:
                g = gref("G")
                k = {"type": "has_group", "args": [g[1], g[0]]}
            else:
                t, a = rng.choice(FILLER_CASES)
                k = {"type": t, "args": list(a)}
            if k not in out:       # add_choice merges a case with equal type and arguments
                out.append(k)
        return out

    def node(path):
        kind = rng.choice(["basic", "basic", "switch", "enter"])
        if kind == "basic":
            return {"kind": kind, "actions": [action() for _ in range(rng.choice([1, 1, 2, 3]))], "cases": []}
        if kind == "enter":
            return {"kind": kind, "actions": [{"type": "enter_flow", "flow": gref("F")}],
                    "cases": cases() if rng.random() < 0.3 else [],
                    "operand": rng.choice([None, "@contact.groups", "@results.answer"])}
        acts = []
        if path == "api" and rng.random() < 0.3:      # a router node with actions cannot be loaded from a dict
            acts = [action() for _ in range(rng.choice([1, 2]))]
        op = rng.choice(OPERANDS)
        wait = rng.choice([0, 0, 300]) if op == "@input.text" else None
        return {"kind": kind, "actions": acts, "cases": cases(), "operand": op, "wait": wait}

    def flow(n):
        st = status[n]
        u = des[("F", n)] if st == "explicit" else rng.choice([None, ""])
        if malformed and rng.random() < 0.15:
            u = rng.choice(UPOOL)
        return {"name": n, "uuid": u, "nodes": [node(case["path"]) for _ in range(rng.choice([0, 1, 2, 3, 5] if big else [0, 1, 2, 3]))]}

    def campaign():
        evs = []
        for _ in range(rng.choice([0, 1, 2])):
            ty = rng.choice(["F", "F", "M"])
            if ty == "M" and rng.random() < 0.6:
                evs.append({"type": ty, "flow": None})
            else:
                evs.append({"type": ty, "flow": gref("F")})
        return {"events": evs, "group": gref("G")}

    defined = [n for n in names if status[n] != "undef"]
    flows_all = []
    for n in defined:
        flows_all.append(flow(n))
        if status[n] == "explicit" and rng.random() < 0.1:
            flows_all.append(flow(n))           # same name defined twice with the same uuid
    rng.shuffle(flows_all)
    flows_all = flows_all[:4]
    n_init = rng.randint(0, len(flows_all))
    case["flows"] = flows_all[:n_init]
    later_flows = flows_all[n_init:]
    case["groups"] = [gref("G") for _ in range(rng.choice([0, 0, 1, 2, 3]))]
    camps = [campaign() for _ in range(rng.choice([0, 0, 1, 2]))]
    n_ci = rng.randint(0, len(camps))
    case["campaigns"] = camps[:n_ci]

    # names of flows that every render will find in flow_dict before it visits the triggers
    known = set(f["name"] for f in case["flows"])
    for f in case["flows"]:
        known.update(n for k, n, _ in case_refs_flow(f) if k == "F")
    for c in case["campaigns"]:
        known.update(n for k, n, _ in case_refs_campaign(c) if k == "F")

    def trigger():
        pool = sorted((n for n in known if n is not None), key=str) if (known - {None}) and not (malformed and rng.random() < 0.5) else names
        t = {"flow": gref("F", pool), "groups": [gref("G") for _ in range(rng.choice([0, 1, 2]))],
             "exclude": [gref("G") for _ in range(rng.choice([0, 0, 1, 2]))]}
        if rng.random() < 0.3:
            t["by_objects"] = True
        else:
            # Trigger(group_uuids=[...]) stores `uuid or None`
            t["groups"] = [[n, u or None] for n, u in t["groups"]]
            t["exclude"] = [[n, u or None] for n, u in t["exclude"]]
        if malformed and known and None in known and rng.random() < 0.3:
            t["flow"] = [None, None]
            t["by_objects"] = True
        return t

    n_trig = rng.choice([0, 1, 1, 2, 3])
    trigs = []
    if (known - {None}) or malformed:
        trigs = [trigger() for _ in range(n_trig)]
    n_ti = rng.randint(0, len(trigs))
    case["triggers"] = trigs[:n_ti]

    # history
    pre = []
    for _ in range(rng.choice([0, 0, 1, 2, 3])):
        k = rng.choice(["rg", "rf"])
        n = rng.choice(names)
        pre.append([k, n, uu("G" if k == "rg" else "F", n)])
    adds = [["af", f] for f in later_flows] + [["ac", c] for c in camps[n_ci:]] + [["at", t] for t in trigs[n_ti:]]
    # triggers go after everything that makes their flow known, unless malformed
    body = pre + [a for a in adds if a[0] != "at"]
    rng.shuffle(body)
    trig_ops = [a for a in adds if a[0] == "at"]
    if malformed:
        for t in trig_ops:
            body.insert(rng.randint(0, len(body)), t)
    else:
        body += trig_ops
    n_render = rng.choice([1, 1, 2, 2, 3])
    ops = []
    if n_render == 1 or not body:
        ops = body + [["render"]] * n_render
    else:
        # spread the renders: some operations happen between renders
        cut = sorted(rng.randint(0, len(body)) for _ in range(n_render - 1))
        prev = 0
        for c in cut:
            ops += body[prev:c] + [["render"]]
            prev = c
        ops += body[prev:] + [["render"]]
        if rng.random() < 0.5:
            ops.append(["render"])
    case["ops"] = ops
    if case["path"] == "dict":
        # Trigger.from_dict / Campaign.from_dict keep uuids as they are
        pass
    return case


def describe(case):
    return json.dumps(case, ensure_ascii=False, default=str)


def classify(case, res, stats, count):
    count("path_" + case["path"])
    count("stream_" + ("malformed" if case["malformed"] else "valid"))
    count("renders_ok_%d" % len(res["renders"]))
    count("stop_" + (res["stop"][1] if res["stop"] else "none"))
    count("flows_%d" % (len(case["flows"]) + sum(1 for o in case["ops"] if o[0] == "af")))
    first = [i for i, o in enumerate(case["ops"]) if o[0] == "render"][0]
    count("ops_between_renders" if any(o[0] != "render" for o in case["ops"][first:]) else "ops_all_before_first_render")
    # on which routers the has_group tests sit, and whether they come with a uuid
    for f in case["flows"] + [o[1] for o in case["ops"] if o[0] == "af"]:
        for nd in f["nodes"]:
            for k in nd["cases"]:
                if k["type"] == "has_group":
                    count("has_group_on_" + router_label(nd) + ("_uuid" if k["args"][0] else "_nouuid") + "_" + case["path"])


def nontrivial_key(case, res):
    """a case counts as non-trivial when some name occurs at >= 2 reference sites of different
    sorts with an explicit uuid on at least one of them, or when the history is rejected"""
    sites = {}
    for n, u in case["groups"]:
        sites.setdefault(("G", n), set()).add("top")
    allf = case["flows"] + [o[1] for o in case["ops"] if o[0] == "af"]
    for f in allf:
        sites.setdefault(("F", f["name"]), set()).add("def")
        for nd in f["nodes"]:
            for a in nd["actions"]:
                for g in a.get("groups", []):
                    sites.setdefault(("G", g[0]), set()).add(a["type"])
                if a.get("flow"):
                    sites.setdefault(("F", a["flow"][0]), set()).add("enter")
            for k in nd["cases"]:
                if k["type"] == "has_group":
                    sites.setdefault(("G", k["args"][1]), set()).add("case")
    for c in case["campaigns"] + [o[1] for o in case["ops"] if o[0] == "ac"]:
        sites.setdefault(("G", c["group"][0]), set()).add("campaign")
        for e in c["events"]:
            if e["flow"]:
                sites.setdefault(("F", e["flow"][0]), set()).add("event")
    for t in case["triggers"] + [o[1] for o in case["ops"] if o[0] == "at"]:
        sites.setdefault(("F", t["flow"][0]), set()).add("trigger")
        for g in t["groups"] + t["exclude"]:
            sites.setdefault(("G", g[0]), set()).add("trigger-group")
    shared = any(len(s) >= 2 for s in sites.values())
    return shared or res["stop"] is not None


# ------------------------------------------------------------------------------ UUIDDict alone
def dict_stream(ctx, n):
    from rpft.rapidpro.models.containers import UUIDDict
    rng = ctx.rng
    m = ctx.model
    reqs, cases = [], []
    for _ in range(n):
        names = rng.sample(NAME_POOL, rng.randint(1, 4))
        recs = []
        for _ in range(rng.randint(0, 8)):
            k = rng.choice(["G", "F"])
            nm = rng.choice(names)
            r = rng.random()
            u = None if r < 0.3 else "" if r < 0.45 else f"{k}-{nm}" if r < 0.85 else rng.choice(UPOOL)
            recs.append((k, nm, u))
        cases.append(recs)
        reqs.append("(106 2 " + enc_l("(" + ("0" if k == "G" else "1") + " " + enc_name(nm) + " " + enc_u(u) + ")" for k, nm, u in recs) + ")")
    outs = [None] * n
    if m:
        outs = []
        for off in range(0, n, 40):
            outs += m.ask_many(reqs[off:off + 40])
    for recs, o in zip(cases, outs):
        ctx.v.coverage["evaluations"] += 1
        d = UUIDDict()

        def go():
            for k, nm, u in recs:
                (d.record_group_uuid if k == "G" else d.record_flow_uuid)(nm, u)
            before = (list(d.flow_dict.items()), list(d.group_dict.items()))
            d.generate_missing_uuids()
            return before, (list(d.flow_dict.items()), list(d.group_dict.items()))
        r = run_cli_mode(go)
        ctx.count("dict_stream_" + ("ok" if r[0] == "ok" else r[1]))
        # oracle on UUIDDict: explicit wins / conflict raises
        exp = {}
        for k, nm, u in recs:
            if u:
                exp.setdefault((k, nm), set()).add(u)
        conflict = any(len(s) > 1 for s in exp.values())
        if conflict and r[0] == "ok":
            ctx.v.failing_input("conflict-accepted", f"UUIDDict accepted the records {recs!r}", dict(fn="dict", recs=recs))
        if r[0] == "ok":
            after = r[1][1]
            for (k, nm), s in exp.items():
                got = dict(after[1] if k == "G" else after[0]).get(nm)
                if not conflict and got not in s:
                    ctx.v.failing_input("explicit-overridden", f"UUIDDict: {k} {nm!r} recorded with {sorted(s)[0]!r}, holds {got!r}", dict(fn="dict", recs=recs))
            for items in after:
                for nm, u in items:
                    if not u:
                        ctx.v.failing_input("missing-uuid", f"UUIDDict: {nm!r} still has {u!r} after generate_missing_uuids", dict(fn="dict", recs=recs))
        if o is None:
            continue
        x = parse_sexp(o)
        if x and x[0] == 999999:
            mres = ("err", ERRNAME.get(x[1]))
        else:
            mres = ("ok", [[(dec_name(kv[0]), dec_u(kv[1])) for kv in dd] for dd in x])
        if mres[0] == "err" or r[0] != "ok":
            if not (mres[0] == "err" and r[0] != "ok" and mres[1] == r[1]):
                ctx.disagree("UUIDDict record sequence: outcome", repr(recs), repr(mres)[:300], repr(r)[:300])
            continue
        (bf, bg), (af, ag) = r[1]
        fresh = {}
        ok = True
        for md, idd, gen in zip(mres[1], [bf, bg, af, ag], [False, False, True, True]):
            if [k for k, _ in md] != [k for k, _ in idd]:
                ok = False
                break
            for (_, mu), (_, iu) in zip(md, idd):
                if mu is None:
                    ok = ok and iu is None
                elif mu[0] == "given":
                    ok = ok and iu == mu[1]
                else:
                    ok = ok and gen and isinstance(iu, str) and len(iu) == 36 and fresh.setdefault(mu[1], iu) == iu
        if ok and len(set(fresh.values())) != len(fresh):
            ok = False
        if not ok:
            ctx.disagree("UUIDDict record sequence: dictionaries", repr(recs), repr(mres)[:400], repr(r[1])[:400])


# ------------------------------------------------------------------------------ directed cases
def directed_cases():
    """hand-picked shapes (the suite's arrangements and their permutations)"""
    out = []

    def base():
        return {"path": "api", "malformed": False, "groups": [], "flows": [], "campaigns": [], "triggers": [], "ops": [["render"]]}
    # explicit uuid at each possible site for a group used everywhere
    sites = ["top", "add", "remove", "case", "wait-case", "field-case", "enter-case", "campaign", "trigger", "exclude", "record"]
    for explicit_at in sites:
        for path in ("api", "dict"):
            c = base()
            c["path"] = path
            u = lambda s: "GX" if s == explicit_at else None
            c["groups"] = [["g", u("top")]]
            c["flows"] = [{"name": "f", "uuid": "FX", "nodes": [
                {"kind": "basic", "actions": [{"type": "add_contact_groups", "groups": [["g", u("add")]]},
                                              {"type": "remove_contact_groups", "groups": [["g", u("remove")]]}], "cases": []},
                {"kind": "switch", "actions": [], "cases": [{"type": "has_group", "args": [u("case"), "g"]}]},
                # has_group tests on routers that are not group splits: wait for response, split on a field, and the
                # router of an enter-flow node
                {"kind": "switch", "operand": "@input.text", "wait": 0, "actions": [],
                 "cases": [{"type": "has_any_word", "args": ["yes"]}, {"type": "has_group", "args": [u("wait-case"), "g"]}]},
                {"kind": "switch", "operand": "@fields.age", "wait": None, "actions": [],
                 "cases": [{"type": "has_group", "args": [u("field-case"), "g"]}]},
                {"kind": "enter", "operand": None, "actions": [{"type": "enter_flow", "flow": ["f", None]}],
                 "cases": [{"type": "has_group", "args": [u("enter-case"), "g"]}]}]}]
            c["campaigns"] = [{"events": [{"type": "F", "flow": ["f", None]}], "group": ["g", u("campaign")]}]
            c["triggers"] = [{"flow": ["f", None], "groups": [["g", u("trigger")]], "exclude": [["g", u("exclude")]]}]
            c["ops"] = ([["rg", "g", "GX"]] if explicit_at == "record" else []) + [["render"], ["render"]]
            out.append(c)
    # trigger for a flow that is only referenced (intended to be accepted), and for a ghost
    for via in ("enter", "event", "record", "hidden-event", "nothing"):
        c = base()
        c["flows"] = [{"name": "f", "uuid": None, "nodes": [
            {"kind": "enter", "actions": [{"type": "enter_flow", "flow": ["ghost" if via == "enter" else "f", None]}], "cases": []}]}]
        if via == "event":
            c["campaigns"] = [{"events": [{"type": "F", "flow": ["ghost", "GU"]}], "group": ["g", None]}]
        if via == "hidden-event":
            c["campaigns"] = [{"events": [{"type": "M", "flow": ["ghost", None]}], "group": ["g", None]}]
        c["triggers"] = [{"flow": ["ghost", None], "groups": [], "exclude": []}]
        c["ops"] = ([["rf", "ghost", None]] if via == "record" else []) + [["render"]]
        c["malformed"] = via == "nothing"
        out.append(c)
    # conflict between a has_group test on each kind of router and every other group-reference site; and a group that
    # only such a test names (it must be listed at top level with a uuid)
    for router in ("group", "wait", "field", "enter"):
        def rnode(uuid):
            k = [{"type": "has_group", "args": [uuid, "g"]}]
            if router == "enter":
                return {"kind": "enter", "operand": None, "actions": [{"type": "enter_flow", "flow": ["f", None]}], "cases": k}
            op = {"group": "@contact.groups", "wait": "@input.text", "field": "@fields.age"}[router]
            return {"kind": "switch", "operand": op, "wait": 300 if router == "wait" else None, "actions": [], "cases": k}
        for other in ("top", "add", "campaign", "trigger", "record", "case", None):
            for path in ("api", "dict"):
                for own in (("U1", None) if other else ("U1", None, "")):
                    c = base()
                    c["path"] = path
                    c["malformed"] = bool(other and own)
                    u = lambda s: "U2" if s == other else None
                    c["groups"] = [["g", u("top")]] if other == "top" else []
                    nodes_ = [rnode(own)]
                    if other == "add":
                        nodes_.insert(0, {"kind": "basic", "actions": [{"type": "add_contact_groups", "groups": [["g", "U2"]]}], "cases": []})
                    if other == "case":
                        nodes_.append({"kind": "switch", "operand": "@contact.groups", "wait": None, "actions": [],
                                       "cases": [{"type": "has_group", "args": ["U2", "g"]}]})
                    c["flows"] = [{"name": "f", "uuid": "FX", "nodes": nodes_}]
                    if other == "campaign":
                        c["campaigns"] = [{"events": [], "group": ["g", "U2"]}]
                    if other == "trigger":
                        c["triggers"] = [{"flow": ["f", None], "groups": [["g", "U2"]], "exclude": []}]
                    c["ops"] = ([["rg", "g", "U2"]] if other == "record" else []) + [["render"], ["render"]]
                    out.append(c)
    # conflict between every pair of flow-reference sites
    fsites = ["def", "enter", "event", "trigger", "record"]
    for s1 in fsites:
        for s2 in fsites:
            if s1 >= s2:
                continue
            c = base()
            c["malformed"] = True
            u = lambda s: "U1" if s == s1 else "U2" if s == s2 else None
            c["flows"] = [{"name": "f", "uuid": u("def") or "U1", "nodes": [
                {"kind": "enter", "actions": [{"type": "enter_flow", "flow": ["f", u("enter")]}], "cases": []}]}]
            c["campaigns"] = [{"events": [{"type": "F", "flow": ["f", u("event")]}], "group": ["g", None]}]
            c["triggers"] = [{"flow": ["f", u("trigger")], "groups": [], "exclude": []}]
            c["ops"] = ([["rf", "f", u("record")]] if "record" in (s1, s2) else []) + [["render"]]
            out.append(c)
    return out


# ------------------------------------------------------------------------------ run
def run(ctx):
    import logging
    logging.getLogger("rpft.rapidpro.models.routers").setLevel(logging.ERROR)   # "Overwriting operand" chatter
    v = ctx.v
    rng = ctx.rng
    thorough = ctx.tier == "thorough"
    m = ctx.model
    n_cases = (40000 if thorough else 1500) * ctx.scale
    n_dict = (40000 if thorough else 3000) * ctx.scale

    cases = directed_cases() if ctx.scale < 10 else []      # cheap: also on the scale-3 pass of a drifted tree
    ctx.stats["directed_cases"] = len(cases)
    for i in range(n_cases):
        cases.append(gen_case(rng, malformed=(rng.random() < 0.3), big=(thorough and i % 10 == 0)))

    nontrivial = 0
    samples = []
    CH = 500
    for off in range(0, len(cases), CH):
        chunk = cases[off:off + CH]
        results = [run_impl(c) for c in chunk]
        outs = [None] * len(chunk)
        if m:
            idx = [i for i, r in enumerate(results) if not r["build_error"]]
            # one request at a time: requests and answers are large, batching would fill both pipes
            rs = [m.ask(enc_request(chunk[i], results[i]["flow_uuids"])) for i in idx]
            for i, o in zip(idx, rs):
                outs[i] = o
        for case, res, o in zip(chunk, results, outs):
            v.coverage["evaluations"] += 1
            if res["build_error"]:
                ctx.count("build_error")
                ctx.disagree("generated case could not be built", describe(case)[:2000], "-", res["build_error"])
                continue
            classify(case, res, ctx.stats, ctx.count)
            if nontrivial_key(case, res):
                nontrivial += 1
            for key, summary in oracle(case, res):
                v.failing_input(key, summary, dict(fn="history", case=strip_case(case)))
            if o is not None:
                if o.startswith("(99999"):
                    ctx.disagree("model rejected the request", describe(case)[:2000], o, "-")
                    continue
                snaps, mstop = dec_trace(o)
                d = compare(case, res, snaps, mstop)
                if d:
                    ctx.disagree(d[0], describe(strip_case(case))[:3000], d[1][:1500] if isinstance(d[1], str) else d[1],
                                 d[2][:1500] if isinstance(d[2], str) else d[2])
        if len(samples) < 4 and chunk:
            samples.append(describe(strip_case(chunk[-1]))[:600])

    dict_stream(ctx, n_dict)
    nontrivial += sheet_streams(ctx)

    v.coverage["distinct_nontrivial"] = nontrivial
    v.coverage["rule"] = (
        "each case = a container (0..4 flows with basic/switch/enter-flow nodes, add/remove group actions, has_group "
        "and other router cases, campaigns with flow/message events, triggers with groups and exclude groups, top-level "
        "group list) plus a history of record_group_uuid/record_flow_uuid/add_flow/add_campaign/add_trigger/render "
        "operations (1..4 renders, operations also between renders); 1..5 names shared by all reference kinds; explicit "
        "uuids on random subsets; None and '' mixed; built through the constructors (2/3) or from_dict (1/3); 70% "
        "valid by construction, 30% malformed (conflicting uuids, ghost trigger flows, triggers added early). Every "
        "case runs through the model and the implementation (trace compared) and through the property oracle on the "
        "rendered JSON. non-trivial = some name has references of >= 2 different sorts, or the history is rejected. "
        "Plus a stream of record sequences on UUIDDict alone. Plus the sheet level: workbooks (1..4 flow sheets, 0..3 block "
        "templates, data sheet, campaigns, triggers, optionally a second older workbook) whose add_to_group / "
        "remove_from_group / split_by_group / start_new_flow rows carry obj_ids on random subsets and sit in the flow "
        "sheet, in begin_block / begin_for, in templates instantiated with data rows, or in templates pulled in with "
        "insert_as_block (nested, with data rows / template arguments); histories P R R P R on one ContentIndexParser and "
        "parse-sheet / record / add / render histories on one RapidProContainer; directed workbooks for every row type x "
        "route x (only source | conflicting source); non-trivial = some obj_id sits on a row inside insert_as_block, "
        "begin_for or a data-row template, or the history is rejected.")
    v.coverage["samples"] = samples
    v.assumptions += [
        "uuid4 never returns a value it returned before nor a uuid present in the input (Fresh n are pairwise distinct and distinct from Given)",
        "uuids are None or str; names are None or str (the only values the constructors and from_dict produce)",
        "FlowContainer always carries a truthy uuid (its constructor invents one); checked on every generated flow",
    ]


# ------------------------------------------------------------------------------ sheet level
def sheet_streams(ctx):
    """workbooks through one ContentIndexParser, and flow sheets through FlowParser into one container.
    -> number of non-trivial cases"""
    import c06_wb as W
    v, rng, m = ctx.v, ctx.rng, ctx.model
    thorough = ctx.tier == "thorough"
    n_wb = (6000 if thorough else 230) * ctx.scale
    n_hist = (4000 if thorough else 150) * ctx.scale
    nontrivial = 0
    samples = []

    def classify_wb(wb, ex, prefix):
        nt = False
        for _, its in ex["flows"]:
            for it in W.all_rows(its):
                if it[1] in W.KIND_OF_ROW and it[3]:
                    rc = W.route_class(it[6], it[5])
                    ctx.count(f"{prefix}_objid_type_{it[1]}@{'block' if it[5] else 'sheet'}")
                    ctx.count(f"{prefix}_objid_route_{rc}")
                    nt = nt or rc != "sheet"
                if it[4] and it[1] != "split_by_group":
                    # has_group conditions on edges leaving a row that is not a group split
                    ctx.count(f"{prefix}_has_group_edge_from_{it[1]}@{'block' if it[5] else 'sheet'}")
                    nt = True
        ctx.count(f"{prefix}_blocks_%d" % len(wb["blocks"]))
        ctx.count(f"{prefix}_flows_%d" % len(ex["flows"]))
        if wb.get("two_readers"):
            ctx.count(f"{prefix}_two_workbooks")
        return nt

    # ---- (1) one ContentIndexParser per workbook: histories of parse_all / render
    wbs = W.directed_wbs() + W.directed_test_wbs() if ctx.scale < 10 else []      # small and cheap: also on the scale-3 pass of a drifted tree
    ctx.stats["wb_directed"] = len(wbs)
    for i in range(n_wb):
        wbs.append(W.gen_wb(rng, malformed=(rng.random() < 0.3), big=(thorough and i % 10 == 0)))
    again = []
    for wi, wb in enumerate(wbs):
        v.coverage["evaluations"] += 1
        ex = W.expand(wb)
        res = W.run_impl(wb)
        ctx.count("wb_history_" + "".join(wb["ops"]))
        ctx.count("wb_stop_" + (res["stop"][1] if res["stop"] else "none"))
        ctx.count("wb_stream_" + ("directed" if wb.get("directed") else "malformed" if wb["malformed"] else "valid"))
        if wb.get("via_files"):
            ctx.count("wb_via_csv_files")
        if classify_wb(wb, ex, "wb") or res["stop"] is not None:
            nontrivial += 1
        for key, summary in W.oracle(wb, res, ex):
            v.failing_input(key, summary, dict(fn="workbook", wb=wb))
        if m:
            o = m.ask(W.enc_ops_wb(wb, ex))
            if o.startswith("(99999"):
                ctx.disagree("model rejected the workbook request", W.describe(wb)[:2000], o, "-")
            else:
                snaps, mstop = dec_trace(o)
                expl = set(u for us in W.explicit_sources(ex).values() for u in us)
                d = W.compare_trace(["new" if x == "P" else "render" for x in wb["ops"]], res, snaps, mstop, expl)
                if d:
                    ctx.disagree("workbook: " + d[0], W.describe(wb)[:3000], str(d[1])[:1500], str(d[2])[:1500])
        if len(samples) < 2 and wi % 97 == 5:
            samples.append(W.describe(wb)[:600])
        if res["stop"] is None and len(again) < 12 * ctx.scale and rng.random() < 0.1:
            again.append((wb, ex, res))
    # the same workbooks once more, later in the life of the process (class attributes, module-level caches,
    # default arguments): the C06 projection of the result must not depend on what was compiled in between
    for wb, ex, res in again:
        v.coverage["evaluations"] += 1
        ctx.count("wb_recompiled_later")
        res2 = W.run_impl(wb)
        expl = set(u for us in W.explicit_sources(ex).values() for u in us)
        if res2["stop"] is not None or [W.canon_doc(d, expl) for d in res2["renders"]] != [W.canon_doc(d, expl) for d in res["renders"]]:
            v.failing_input("compile-history-dependent", "the same workbook compiled again later in the same process gives "
                            f"another result (stop={res2['stop']!r})", dict(fn="workbook", wb=wb))

    # ---- (2) one RapidProContainer: flow sheets parsed into it by FlowParser, mixed with other operations
    for i in range(n_hist):
        v.coverage["evaluations"] += 1
        wb = W.gen_wb(rng, malformed=(rng.random() < 0.3))
        ops = W.gen_hist(rng, wb)
        ex = W.expand(wb)
        res = W.run_impl_hist(wb, ops)
        ctx.count("sh_stop_" + (res["stop"][1] if res["stop"] else "none"))
        ctx.count("sh_sheets_parsed_%d" % sum(1 for o in ops if o[0] == "pf"))
        ctx.count("sh_record_ops_%d" % sum(1 for o in ops if o[0] in ("rg", "rf")))
        ctx.count("sh_renders_%d" % sum(1 for o in ops if o[0] == "render"))
        first = [j for j, o in enumerate(ops) if o[0] == "render"][0]
        ctx.count("sh_parse_after_first_render" if any(o[0] == "pf" for o in ops[first:]) else "sh_all_parsed_before_first_render")
        if classify_wb(wb, ex, "sh") or res["stop"] is not None:
            nontrivial += 1
        for key, summary in W.oracle_hist(wb, ops, res, ex):
            v.failing_input(key, summary, dict(fn="sheet-history", wb=wb, ops=ops))
        if m:
            o = m.ask(W.enc_ops_hist(wb, ex, ops))
            if o.startswith("(99999"):
                ctx.disagree("model rejected the sheet-history request", W.describe(wb)[:2000], o, "-")
                continue
            snaps, mstop = dec_trace(o)
            expl = set(it[3] for _, its in ex["flows"] for it in W.all_rows(its) if it[3]) | set(o_[2] for o_ in ops if o_[0] in ("rg", "rf") and o_[2])
            d = W.compare_trace(["render" if x[0] == "render" else "other" for x in ops], res, snaps, mstop, expl)
            if d:
                ctx.disagree("sheet history: " + d[0], json.dumps(dict(wb=wb, ops=ops), ensure_ascii=False)[:3000], str(d[1])[:1500], str(d[2])[:1500])
    ctx.v.coverage.setdefault("samples", [])
    ctx.stats["wb_samples"] = samples
    return nontrivial


def strip_case(case):
    """JSON-serialisable copy (the generator's dicts are already plain)"""
    return json.loads(json.dumps(case))


def replay(rep):
    r = rep["replay"]
    if r["fn"] in ("workbook", "sheet-history"):
        import logging
        logging.getLogger("rpft.rapidpro.models.routers").setLevel(logging.ERROR)
        import c06_wb as W
        wb = r["wb"]
        for rd in W.render_sheets(wb):
            for name, (headers, rows) in rd.items():
                print(f"  --- sheet {name}")
                print("  " + ",".join(headers))
                for row in rows:
                    print("  " + ",".join(str(row.get(h, "") or "") for h in headers))
        if r["fn"] == "workbook":
            print("  history on one ContentIndexParser (P = parse_all, R = render):", " ".join(wb["ops"]))
            bad = W.oracle(wb, W.run_impl(wb))
        else:
            print("  history on one RapidProContainer:", r["ops"])
            bad = W.oracle_hist(wb, r["ops"], W.run_impl_hist(wb, r["ops"]))
        for key, summary in bad:
            print(f"  {key}: {summary}")
        return not bad
    if r["fn"] == "dict":
        from rpft.rapidpro.models.containers import UUIDDict
        d = UUIDDict()
        recs = r["recs"]
        exp = {}
        for k, nm, u in recs:
            if u:
                exp.setdefault((k, nm), set()).add(u)

        def go():
            for k, nm, u in recs:
                (d.record_group_uuid if k == "G" else d.record_flow_uuid)(nm, u)
            d.generate_missing_uuids()
        res = run_cli_mode(go)
        if res[0] != "ok":
            return True
        if any(len(s) > 1 for s in exp.values()):
            return False
        for (k, nm), s in exp.items():
            if (d.group_dict if k == "G" else d.flow_dict).get(nm) not in s:
                return False
        return all(u for dd in (d.flow_dict, d.group_dict) for u in dd.values())
    case = r["case"]
    res = run_impl(case)
    bad = oracle(case, res)
    for key, summary in bad:
        print(f"  {key}: {summary}")
    return not bad
