"""C07 — row models survive the trip to spreadsheet cells and back, in every layout.

(a) correspondence E2 <-> RowParser on generated (model, instance, layout) triples: the cell
    dict of unparse_row and the instance of parse_row, plus a malformed stream of cell dicts;
    the same for the flow row model through the REGENERATED tables, and through
    RowDataSheet.export -> file (csv, xlsx) -> sheet reader -> SheetParser -> parse_row;
(b) the property's own oracle on the implementation: parse_row(unparse_row(m, L)) == m for
    every generated case inside the domain of the statement (representable, admissible)."""
import os
import shutil
import sys
import tempfile

import rowgen
import rowlib
from common import parse_sexp, run_cli_mode
from rowlib import REQUIRED

LEVEL = "proof"


# ------------------------------------------------------------------------------ helpers
def ask_all(m, lines, limit=16000):
    """ask_many with chunks bounded in BYTES: requests here are long, and writing 200 of them
    before reading anything back can fill both pipes (deadlock)."""
    out, chunk, size = [], [], 0

    def flush():
        nonlocal chunk, size
        if chunk:
            m.p.stdin.write("\n".join(chunk) + "\n")
            m.p.stdin.flush()
            for _ in chunk:
                out.append(m.p.stdout.readline().strip())
            m.calls += len(chunk)
            chunk, size = [], 0

    for ln in lines:
        if size + len(ln) > limit:
            flush()
        chunk.append(ln)
        size += len(ln) + 1
    flush()
    return out


def model_ask(m, lines):
    return [parse_sexp(o) if o else None for o in ask_all(m, lines)]


def norm_res(r, dec):
    """model answer -> ('ok', value) | ('err', code) | ('bad', raw)"""
    if r is None:
        return ("bad", None)
    return rowlib.d_res(r, dec)


def impl_case(t, v, T, X):
    """Run the implementation on one triple: (unparse cells | error, parse-back | error)"""
    cls = rowlib.py_type(t)
    from rpft.parsers.common.cellparser import CellParser
    from rpft.parsers.common.rowparser import RowParser

    parser = RowParser(cls, CellParser())
    inst = rowlib.instance(t, v)
    un = run_cli_mode(rowgen.impl_unparse, parser, inst, T, X)
    back = None
    if un[0] == "ok":
        back = run_cli_mode(lambda: rowlib.natives(parser.parse_row(dict(un[1]), {})))
    return parser, inst, un, back


def impl_parse(parser, cells):
    return run_cli_mode(lambda: rowlib.natives(parser.parse_row(dict(cells), {})))


def values_equal(a, b):
    return a == b and type(a) is type(b) if not isinstance(a, (list, dict)) else _deep_eq(a, b)


def _deep_eq(a, b):
    if type(a) is not type(b):
        return False
    if isinstance(a, dict):
        return list(a.keys()) == list(b.keys()) and all(_deep_eq(a[k], b[k]) for k in a)
    if isinstance(a, list):
        return len(a) == len(b) and all(_deep_eq(x, y) for x, y in zip(a, b))
    return a == b


def mutate_cells(rng, cells, names):
    """the malformed stream: perturb a cell list"""
    cells = list(cells)
    ops = rng.randint(1, 2)
    for _ in range(ops):
        r = rng.random()
        if r < 0.15 and cells:
            cells.pop(rng.randrange(len(cells)))
        elif r < 0.3 and len(cells) >= 2:
            i, j = rng.sample(range(len(cells)), 2)
            cells[i], cells[j] = cells[j], cells[i]
        elif r < 0.5 and cells:
            i = rng.randrange(len(cells))
            cells[i] = (cells[i][0], rowgen.rand_text(rng, names, 6))
        elif r < 0.65 and cells:
            i = rng.randrange(len(cells))
            k = cells[i][0]
            comps = k.split(".")
            j = rng.randrange(len(comps))
            comps[j] = rng.choice(["0", "1", "2", "3", "-1", "x", "*", comps[j] + " ", rng.choice(names) if names else "q"])
            cells[i] = (".".join(comps), cells[i][1])
        elif r < 0.75:
            cells.append((rng.choice(list(names) + ["nofield", "a.b", "a.1", "1"]), rowgen.rand_text(rng, names)))
        elif r < 0.85 and cells:
            i = rng.randrange(len(cells))
            cells[i] = (cells[i][0] + rng.choice([":str", " : int = 5", "=x", " "]), cells[i][1])
        elif cells:
            i = rng.randrange(len(cells))
            k = cells[i][0]
            cells[i] = (k, rng.choice(["a;b|c", "k;v", "|", ";", "a|", "x;y;z", " ", "True", "1|2|3"]))
    seen, out = set(), []
    for k, v in cells:
        if k not in seen:
            seen.add(k)
            out.append((k, v))
    return out


def alias_cells(rng, cells, rtype, cx, desc):
    """the alias stream (FX7, finding C04/webhook-body-shadowed): a second header that is re-keyed to a field the row
    already has a cell for (short/long spelling: message_text <-> the main argument of the row type — webhook.body in a
    call_webhook row —, _nodeId <-> node_uuid, ...), with a blank cell (60 %) or a text, before or after the
    original.  None when the row has no aliasable cell."""
    f2h = desc[4]
    main = cx["sw_table"].get(rtype)
    pairs = []
    for k, _ in cells:
        if k == cx["sw_header"] and main:
            pairs.append((k, main))
        elif main and k == main:
            pairs.append((k, cx["sw_header"]))
        for long, short in f2h.items():
            if short != cx["sw_header"] and long != short:
                if k == short:
                    pairs.append((k, long))
                elif k == long:
                    pairs.append((k, short))
    pairs = [(k, a) for (k, a) in pairs if a not in dict(cells)]
    if not pairs:
        return None
    k, alias = rng.choice(pairs)
    i = [h for h, _ in cells].index(k)
    val = "" if rng.random() < 0.6 else rowgen.rand_text(rng, [k, alias], 6)
    out = list(cells)
    pos = rng.randint(0, i) if rng.random() < 0.4 else rng.randint(i + 1, len(cells))
    out.insert(pos, (alias, val))
    return out


def all_names(t):
    out = []
    if t[0] == "model":
        for (n, ft, _) in t[2]:
            out.append(n)
            out += all_names(ft)
    elif t[0] == "list":
        out += all_names(t[1])
    return out


# ------------------------------------------------------------------------------ flow rows
def flow_desc():
    from rpft.parsers.creation.flowrowmodel import FlowRowModel
    return rowlib.from_pydantic(FlowRowModel)


def flow_ctx_tables():
    """the row-type -> main-argument table, read behaviourally (as the translator does)"""
    from rpft.parsers.creation.flowrowmodel import FlowRowModel

    import importlib.util
    here = os.path.dirname(os.path.abspath(__file__))
    spec = importlib.util.spec_from_file_location("tables_row", os.path.join(here, "..", "translator", "tables_row.py"))
    mod = importlib.util.module_from_spec(spec)
    spec.loader.exec_module(mod)
    try:
        ctx, _ = mod.ctx_table(FlowRowModel, flow_desc())
    except Exception as e:
        if type(e).__name__ not in ("Refuse", "ModuleNotFoundError"):
            raise
        # the translator refuses this tree (reported by the driver as a broken translator): the generators and the
        # oracle still need the tables
        ctx, _ = mod.ctx_table(FlowRowModel, flow_desc(), probe_strip=False)
    return ctx


def gen_flow_row(rng, desc, ctx, good=True):
    """a FlowRowModel instance (natives).  good: inside the domain of the statement — row type
    known, at most the main argument of that type set, every edge writes a column, strings
    trimmed, list elements non-blank."""
    f2h = desc[4]
    main_fields = [n for (n, _, _) in desc[2] if f2h.get(n) == ctx["sw_header"]]
    rtype = rng.choice(list(ctx["sw_table"].keys()))
    main = ctx["sw_table"][rtype]
    v = {}
    for (n, ft, d) in desc[2]:
        if n == "type":
            v[n] = rtype
        elif n == "edges":
            k = rng.choice([1, 1, 1, 2, 3])
            edges = []
            for _ in range(k):
                e = rowgen.gen_value(rng, ft[1], good=True)
                if rng.random() < 0.5:
                    e["condition"] = rowgen.class_default(ft[1][2][1][1])
                if good and e == rowgen.class_default(ft[1]):
                    e["from_"] = "start"
                edges.append(e)
            v[n] = edges
        elif n in main_fields:
            if n == main and rng.random() < 0.8:
                v[n] = flow_field_value(rng, n, ft, good)
            elif not good and rng.random() < 0.1:
                v[n] = flow_field_value(rng, n, ft, good)     # a main argument of another row type
            else:
                v[n] = d
        elif d is not REQUIRED and rng.random() < 0.7:
            v[n] = d
        else:
            v[n] = flow_field_value(rng, n, ft, good)
    return v


def flow_field_value(rng, n, ft, good):
    if n == "mainarg_dict":
        return [[rowgen.good_text(rng, nonblank=True), rowgen.good_text(rng, nonblank=True)]
                for _ in range(rng.choice([1, 2, 3]))]
    if ft[0] == "ulist":
        return [rowgen.good_text(rng, nonblank=True) for _ in range(rng.choice([1, 2, 3]))]
    if ft[0] == "list" and ft[1][0] == "str":
        return [rowgen.good_text(rng, nonblank=True) for _ in range(rng.choice([1, 1, 2, 3]))]
    x = rowgen.gen_value(rng, ft, good=good)
    return x


def flow_in_domain(desc, ctx, v, T):
    """representable for the flow row model: the generic domain + the row-type side condition
    of the context remap (the header written for a field must be re-keyed to that field)"""
    f2h = desc[4]
    for (n, ft, d) in desc[2]:
        if d is not REQUIRED and v[n] == d:
            continue
        h = f2h.get(n, n)
        if h == ctx["sw_header"]:
            if ctx["sw_table"].get(v["type"]) != n:
                return False
        elif h in ctx["basic"]:
            if ctx["basic"][h] != n:
                return False
    # generic part: at the root the way back from a header is the context remap of this row
    h2f = {h: f for h, f in ctx["basic"].items()}
    if v["type"] in ctx["sw_table"]:
        h2f[ctx["sw_header"]] = ctx["sw_table"][v["type"]]
    root = ("model", desc[1], desc[2], h2f, f2h)
    return rowgen.in_domain(root, v, [], T) if _one_main(desc, ctx, v) else False


def _one_main(desc, ctx, v):
    f2h = desc[4]
    k = 0
    for (n, ft, d) in desc[2]:
        if f2h.get(n) == ctx["sw_header"] and not (d is not REQUIRED and v[n] == d):
            k += 1
    return k <= 1


def erase_excluded(desc, v, X):
    """the instance with the fields whose header is excluded reset to their default"""
    out = dict(v)
    for (n, ft, d) in desc[2]:
        if desc[4].get(n, n) in X and d is not REQUIRED:
            out[n] = d
    return out


# ------------------------------------------------------------------------------ run
def run(ctx):
    from rpft.parsers.common.cellparser import CellParser
    from rpft.parsers.common.rowparser import RowParser
    from rpft.parsers.common.rowdatasheet import RowDataSheet
    from rpft.parsers.common.sheetparser import SheetParser
    from rpft.parsers.creation.flowrowmodel import FlowRowModel
    from rpft.parsers.sheets import CSVSheetReader, XLSXSheetReader

    v = ctx.v
    rng = ctx.rng
    m = ctx.model
    thorough = ctx.tier == "thorough"
    n_triples = (30000 if thorough else 1800) * ctx.scale
    stats = {"triples": 0, "in_domain": 0, "out_of_domain": 0, "impl_unparse_error": 0, "impl_parse_error": 0,
             "model_unsupported": 0, "malformed_cells": 0, "malformed_parse_ok": 0, "layouts_with_targets": 0,
             "layouts_with_excluded": 0, "models_with_remap": 0, "packed_cells": 0}
    kinds = {}
    nontrivial = set()
    samples = []

    keeps_blank = join_keeps_blank_last()
    stats["probe_join_keeps_blank_last"] = keeps_blank

    # ------------------------------------------------ generic family
    batch = []
    dom_batch = []      # (case, python in_domain, implementation round trip ok, request) for the theorem's domain
    for i in range(n_triples):
        rowlib.clear_cache()
        t = rowgen.gen_model(rng, rng.choice([0, 1, 1, 2, 2, 3]), "M", root=True)
        good = rng.random() < 0.85
        val = rowgen.gen_value(rng, t, good=good)
        T, X = rowgen.gen_layout(rng, t, val)
        T, X = sorted(T), sorted(X)
        stats["triples"] += 1
        v.coverage["evaluations"] += 1
        stats["layouts_with_targets"] += bool(T)
        stats["layouts_with_excluded"] += bool(X)
        stats["models_with_remap"] += bool(t[4])
        try:
            parser, inst, un, back = impl_case(t, val, T, X)
        except Exception as e:  # generator produced something pydantic refuses: not a case
            stats["generator_rejects"] = stats.get("generator_rejects", 0) + 1
            continue
        dom = (not X) and rowgen.in_domain(t, val, [], T)
        # the same without blank str values in packed models: the theorem's domain on a tree whose join drops an
        # empty last element
        dom_nb = dom and rowgen.in_domain(t, val, [], T, blank_values=False)
        stats["in_domain" if dom else "out_of_domain"] += 1
        stats["in_domain_packed_blank_value"] = stats.get("in_domain_packed_blank_value", 0) + (dom and not dom_nb)
        if un[0] != "ok":
            stats["impl_unparse_error"] += 1
        elif back[0] != "ok":
            stats["impl_parse_error"] += 1
        # ---- (b) the oracle
        if dom:
            ok = un[0] == "ok" and back[0] == "ok" and _deep_eq(back[1], val)
            if ok:
                # the same through the raw objects (no str()) as unparse_row returns them
                raw = run_cli_mode(lambda: rowlib.natives(parser.parse_row(parser.unparse_row(inst, set(T), set(X)), {})))
                ok = raw[0] == "ok" and _deep_eq(raw[1], val)
            if not ok:
                key = "generic-roundtrip"
                if not dom_nb:
                    # causal classification: the same instance with the blank str fields of its packed models filled
                    # is inside the narrower domain and round-trips
                    val2 = fill_packed_blanks(t, val, [], T)
                    try:
                        if rowgen.in_domain(t, val2, [], T, blank_values=False):
                            _, _, un2, back2 = impl_case(t, val2, T, X)
                            if un2[0] == "ok" and back2[0] == "ok" and _deep_eq(back2[1], val2):
                                key = "packed-model-blank-value-under-nonblank-default"
                    except Exception:
                        pass
                v.failing_input(key,
                                f"parse_row(unparse_row(m, L)) != m: model={rowlib.e_ty(t)[:0]}{_show_ty(t)} value={val!r} targets={T} -> cells={un[1] if un[0]=='ok' else un} back={back}",
                                dict(fn="generic", ty=_jsonable_ty(t), value=val, targets=T, excluded=X))
            if un[0] == "ok":
                sig = (_shape(t), tuple(T), len(un[1]))
                if T or t[4] or any(c in s for (_, s) in un[1] for c in "|;\\\n"):
                    nontrivial.add(repr((sig, un[1])))
        if un[0] == "ok":
            stats["packed_cells"] += sum(1 for (_, s) in un[1] if ("|" in s or ";" in s))
        # ---- (a) correspondence requests
        if m:
            rm = rowlib.e_rowmodel(t)
            try:
                ev = rowlib.e_value(t, val)
            except rowlib.Unsupported:
                continue
            if not X:
                rt_ok = un[0] == "ok" and back[0] == "ok" and _deep_eq(back[1], val)
                dom_batch.append((dict(model=_show_ty(t), value=val, targets=T), dom if keeps_blank else dom_nb, rt_ok,
                                  dict(fn="generic", ty=_jsonable_ty(t), value=val, targets=T, excluded=X),
                                  f"(107 6 {rm} {ev} {rowlib.e_strs(T)})"))
            reqs = [f"(107 2 {rm} {ev} {rowlib.e_strs(T)} {rowlib.e_strs(X)})"]
            if un[0] == "ok":
                reqs.append(f"(107 1 {rm} {rowlib.e_cells(un[1])})")
                bad = mutate_cells(rng, un[1], all_names(t))
                reqs.append(f"(107 1 {rm} {rowlib.e_cells(bad)})")
                badr = impl_parse(parser, bad)
                stats["malformed_cells"] += 1
                stats["malformed_parse_ok"] += badr[0] == "ok"
            else:
                bad, badr = None, None
            batch.append((t, val, T, X, un, back, bad, badr, reqs))
        if len(samples) < 3 and un[0] == "ok" and T and dom:
            samples.append(dict(model=_show_ty(t), value=val, targets=T, cells=un[1]))
        if m and (len(batch) >= 400 or i == n_triples - 1):
            flush_generic(ctx, m, batch, stats)
            batch = []
            flush_domain(ctx, m, dom_batch, stats)
            dom_batch = []
    if m and batch:
        flush_generic(ctx, m, batch, stats)
    if m and dom_batch:
        flush_domain(ctx, m, dom_batch, stats)

    # ------------------------------------------------ the witnesses of the _refuted theorems, on the implementation
    probe_refutations(ctx, stats, keeps_blank)
    probe_column_orders(ctx, stats)

    # ------------------------------------------------ matches_headers on its own
    if m:
        reqs, exp = [], []
        comps_pool = ["a", "ab", "b", "1", "2", "12", "list", "x_y"]
        hdr_pool = ["a", "a.*", "*", "a.b", "a.*.b", "ab", "*.b", "a.1", "list.*", "a*", "*a"]
        for _ in range((3000 if thorough else 400) * ctx.scale):
            comps = [rng.choice(comps_pool) for _ in range(rng.choice([0, 1, 2, 2, 3]))]
            hs = rng.sample(hdr_pool, rng.choice([0, 1, 1, 2]))
            reqs.append(f"(107 3 {rowlib.e_strs(hs)} {rowlib.e_strs(comps)})")
            exp.append((hs, comps))
        outs = ask_all(m, reqs)
        p = RowParser(FlowRowModel, CellParser())
        for (hs, comps), o in zip(exp, outs):
            v.coverage["evaluations"] += 1
            im = p.matches_headers("".join("." + c for c in comps), hs)
            if (o == "1") != bool(im):
                ctx.disagree("matches_headers", repr((hs, comps)), o, im)
            if rowgen.matches(comps, hs) != bool(im):
                ctx.disagree("harness matches vs implementation", repr((hs, comps)), rowgen.matches(comps, hs), im)

    # ------------------------------------------------ the flow row model
    run_flow(ctx, stats, nontrivial, samples, RowParser, CellParser, RowDataSheet, SheetParser, FlowRowModel,
             CSVSheetReader, XLSXSheetReader)

    # ------------------------------------------------ sessions: operation sequences on long-lived classes / parsers
    # (after the older streams, so that they see the random choices they saw before this stream existed)
    import c07_sessions
    c07_sessions.run_sessions(ctx, stats)

    # ------------------------------------------------ one cell text through an xlsx file (FX7; last)
    run_xlsx_cells(ctx, stats)

    # ------------------------------------------------ which headers become columns of an exported sheet (FX7)
    run_sheet_headers(ctx, stats)

    ctx.stats["c07"] = stats
    v.coverage["distinct_nontrivial"] = len(nontrivial)
    v.coverage["rule"] = (
        "generated (model, instance, layout) triples over the universe str/int/float/bool/list/List[.]/sub-model/"
        "List[sub-model] with renamed fields, required fields and non-trivial defaults; 85% of instances representable "
        "by construction, 15% not (untrimmed/blank strings, all-default list elements, nested bare lists); layouts = random "
        "subsets of the compound paths (with * and prefix quirks), 6% with excluded headers; every unparse result is "
        "also perturbed (dropped/swapped columns, bad indices, annotations, * headers, random cell text) into a "
        "malformed parse stream; flow rows generated per row type through the regenerated tables and through csv/xlsx "
        "files. non-trivial = distinct in-domain case whose layout packs something, renames a field, or whose cells "
        "contain a separator, backslash or newline. SESSIONS (harness/c07_sessions.py; distribution in stats.c07.sessions): "
        "families of classes (roots, classes derived from an earlier class that override defaults/types, add fields, "
        "re-define the renaming functions in conflict with the base or inherit them, shared sub-model classes, unrelated "
        "classes with the same __name__ and field names) and sequences of 3-14 operations (round trip, unparse with "
        "excluded headers, parse of rows written for this or another class or malformed, templated rows with {{ }} and "
        "native {@ @} cells, csv export + re-read, a new RowParser) on ONE long-lived set of classes / RowParsers / "
        "CellParser; values take the defaults other classes of the family have for a field of the same name; every "
        "step is compared with the same operation on objects built afresh, with the extracted state machine "
        "run_session, and (in-domain) with the instance written")
    v.coverage["samples"] = samples[:5]
    v.assumptions += [
        "cells contain no Jinja template opener ({{ {% {#): the model's cell parser is CellParser.parse without templating",
        "int()/float() text conversion modelled for ASCII decimal integers and plain decimals only (generators stay inside; "
        "the model answers 'unsupported' otherwise and the case is skipped)",
        "pydantic-v1 construction modelled on the trees the parser can produce (defaults filled, None rejected below the top level)",
        "tablib/openpyxl/csv are not modelled: the file legs are oracle-only",
    ]


def _rowfix_tables():
    import importlib.util
    here = os.path.dirname(os.path.abspath(__file__))
    sys.path.insert(0, os.path.join(here, "..", "translator"))
    try:
        spec = importlib.util.spec_from_file_location("tables_rowfix", os.path.join(here, "..", "translator", "tables_rowfix.py"))
        mod = importlib.util.module_from_spec(spec)
        spec.loader.exec_module(mod)
        return mod
    finally:
        sys.path.pop(0)


def join_keeps_blank_last():
    """the translator's probe (does join_from_lists keep an empty last element by a trailing separator?); None when
    the translator refuses the tree.  Used for correspondence only — which domain the theorem has on this tree, which
    cells its witness states —, never by the oracle."""
    try:
        return bool(_rowfix_tables()._probe_join([]))
    except Exception:
        return None


def fill_packed_blanks(t, v, comps, T, packed=False):
    """the instance with every blank str field (non-blank default) of a PACKED model node set to "z" (the counterfactual
    of finding packed-model-blank-value-under-nonblank-default).  A node is packed when a target header matches it or
    when it is the value of a renamed field (unparse_row writes a renamed field into one cell)."""
    k = t[0]
    if k == "model":
        packed = packed or rowgen.matches(comps, T)
        out = {}
        for (n, ft, d) in t[2]:
            h = t[4].get(n, n)
            if packed:
                out[n] = "z" if ft[0] == "str" and v[n] == "" and d != "" else v[n]
            elif h == n:
                out[n] = fill_packed_blanks(ft, v[n], comps + [h], T)
            else:
                out[n] = fill_packed_blanks(ft, v[n], comps + [h], T, packed=True)
        return out
    if k == "list" and not packed and not rowgen.matches(comps, T):
        return [fill_packed_blanks(t[1], x, comps + [str(i + 1)], T) for i, x in enumerate(v)]
    return v


def is_formula_text(s):
    """what openpyxl stores as a formula: a str of two or more characters that starts with '='"""
    return len(s) > 1 and s.startswith("=")


def run_xlsx_cells(ctx, stats):
    """The xlsx cell stream (FX7, finding xlsx-cell-starting-with-equals-sign): representable cell texts — a third of them
    of the form '=…' — written by RowDataSheet.export(..., 'xlsx') next to an id cell, read by XLSXSheetReader.
    Oracle: every text comes back as written.  Correspondence: Io/XlsxCell.v (engine 107 fn 10) says the same."""
    v, rng, m = ctx.v, ctx.rng, ctx.model
    n = (400 if ctx.tier == "thorough" else 60) * ctx.scale
    texts = ["=2+2 is four", "=", "==", "a=b"]
    while len(texts) < n:
        t = rowgen.good_text(rng)
        if rng.random() < 0.33:
            t = ("=" + t).strip()
        texts.append(t)
    stats["xlsx_cells"] = len(texts)
    stats["xlsx_formula_texts"] = sum(is_formula_text(t) for t in texts)
    v.coverage["evaluations"] += len(texts)
    r = run_cli_mode(lambda: _rowfix_tables().xlsx_cells_roundtrip(texts))
    if r[0] != "ok":
        v.failing_input("file-roundtrip-xlsx", f"xlsx export/read of one-cell rows fails: {r!r}"[:2000],
                        dict(fn="xlsx_cells", texts=texts))
        return
    back = r[1]
    lost = [(t, b) for t, b in zip(texts, back) if b != t]
    formulas = [(t, b) for t, b in lost if is_formula_text(t) and b == ""]
    other = [tb for tb in lost if tb not in formulas]
    if formulas:
        v.failing_input("xlsx-cell-starting-with-equals-sign",
                        f"{len(formulas)} cell text(s) of the form '=…' come back empty from an xlsx file, e.g. {formulas[:4]!r}",
                        dict(fn="xlsx_cells", texts=[t for t, _ in formulas][:8]))
    if other:
        v.failing_input("file-roundtrip-xlsx", f"cell texts changed by the xlsx file: {other[:6]!r}",
                        dict(fn="xlsx_cells", texts=[t for t, _ in other][:8]))
    if m:
        outs = model_ask(m, [f"(107 10 {rowlib.e_str(t)})" for t in texts])
        for t, b, o in zip(texts, back, outs):
            mo = rowlib.d_str(o) if isinstance(o, list) and all(isinstance(c, int) for c in o) else None
            if mo is None:
                ctx.disagree("xlsx cell: model could not decode the request", t, o, b)
            elif mo != (b if b is not None else ""):
                ctx.disagree("xlsx cell text read back", t, mo, b)


def run_sheet_headers(ctx, stats):
    """The header stream (FX7, finding single-column-sheet-export-crashes): sheets of 0-4 rows of a four-field model,
    each row writing a random subset of the fields (40 % of the rows a single one).  Oracle: every header a row writes is
    a column of the sheet RowDataSheet builds (and the table can be built at all).  Correspondence: Io/SheetHeaders.v
    (engine 107 fn 11) gives the same set of columns."""
    v, rng, m = ctx.v, ctx.rng, ctx.model
    n = (600 if ctx.tier == "thorough" else 80) * ctx.scale
    names = ["a", "b", "c", "d"]
    sheets = [[["b"], ["b"]], [["a", "b"], ["c"]], [["d"]]]
    while len(sheets) < n:
        rows = []
        for _ in range(rng.choice([0, 1, 1, 2, 2, 3, 4])):
            k = 1 if rng.random() < 0.4 else rng.choice([0, 2, 2, 3, 4])
            rows.append(sorted(rng.sample(names, k)))
        sheets.append(rows)
    stats["header_sheets"] = len(sheets)
    stats["header_sheets_with_one_column_row"] = sum(any(len(r) == 1 for r in sh) for sh in sheets)
    try:
        probe = _rowfix_tables().sheet_header_set
    except Exception as e:
        v.failing_input("file-roundtrip-csv", f"the header probe cannot be loaded: {e!r}", dict(fn="headers", sheets=[]))
        return
    got = []
    lost = []
    for sh in sheets:
        v.coverage["evaluations"] += 1
        r = run_cli_mode(lambda: probe(sh))
        got.append(r)
        want = sorted({h for row in sh for h in row})
        if r[0] != "ok" or r[1] != want:
            lost.append((sh, r))
    if lost:
        single = [x for x in lost if any(len(row) == 1 for row in x[0])]
        other = [x for x in lost if x not in single]
        if single:
            v.failing_input("single-column-sheet-export-crashes",
                            f"{len(single)} sheet(s) with a one-column row lack the header of that row, e.g. {single[:3]!r}",
                            dict(fn="headers", sheets=[x[0] for x in single][:6]))
        if other:
            v.failing_input("file-roundtrip-csv", f"sheets whose columns are not the headers their rows write: {other[:3]!r}",
                            dict(fn="headers", sheets=[x[0] for x in other][:6]))
    if m:
        outs = model_ask(m, ["(107 11 (" + " ".join(rowlib.e_strs(row) for row in sh) + "))" for sh in sheets])
        for sh, r, o in zip(sheets, got, outs):
            mo = sorted(rowlib.d_str(x) for x in o) if isinstance(o, list) and all(isinstance(x, list) for x in o) else None
            if mo is None:
                ctx.disagree("sheet headers: model could not decode the request", sh, o, r)
            elif r[0] != "ok" or mo != r[1]:
                ctx.disagree("sheet headers (as a set)", sh, mo, r)


def flush_domain(ctx, m, dom_batch, stats, key="generic-roundtrip", what="row_dom"):
    """The domain of the Coq theorem C07_row_roundtrip (row_dom, evaluated by the extracted model)
    against the domain the oracle is written from (rowgen.in_domain, from the property text):
    the theorem must cover every case the oracle counts as in-domain; and wherever the theorem
    applies the implementation must round-trip (theorem + correspondence => implementation)."""
    outs = ask_all(m, [d[4] for d in dom_batch])
    for (case, pydom, rt_ok, rep, _), o in zip(dom_batch, outs):
        if o not in ("0", "1"):
            ctx.disagree(f"{what}: model could not decode the request", case, o, pydom)
            continue
        thm = o == "1"
        stats["theorem_domain"] = stats.get("theorem_domain", 0) + thm
        if pydom and not thm:
            ctx.disagree(f"the theorem's domain ({what}) does not cover a case the oracle counts as representable+admissible",
                         case, f"{what}=false", "in_domain=true")
        if thm and not pydom:
            stats["theorem_domain_beyond_oracle"] = stats.get("theorem_domain_beyond_oracle", 0) + 1
        if thm and not rt_ok:
            ctx.v.failing_input(key, f"inside the proved domain ({what}) the implementation does not round-trip: {case!r}"[:3000], rep)


# the instances of Row/RefuteFacts.v: (key, type, value, targets, cells the theorem states, instance read back or None)
def _refutation_witnesses():
    from rowlib import STR, BOOL
    sub = ("model", "Sub", [("x", STR, "")], {}, {})
    m1 = ("model", "M", [("a", STR, ""), ("l", ("list", sub), [])], {}, {})
    sub2 = ("model", "Sub2", [("f", BOOL, True), ("a", STR, "x")], {}, {})
    m2 = ("model", "M2", [("k", STR, ""), ("s", sub2, {"f": True, "a": "x"})], {}, {})
    m4 = ("model", "M4", [("l", ("list", sub), [])], {}, {})
    return [
        ("all_default_in_list", m1, {"a": "q", "l": [{"x": ""}]}, [], [("a", "q")], {"a": "q", "l": []}),
        ("packed_blank", m2, {"k": "q", "s": {"f": True, "a": ""}}, ["s"], [("k", "q"), ("s", "a;|")],
         {"k": "q", "s": {"f": True, "a": "x"}}),
        ("packed_blank_spread_ok", m2, {"k": "q", "s": {"f": True, "a": ""}}, [], [("k", "q"), ("s.a", "")],
         {"k": "q", "s": {"f": True, "a": ""}}),
        ("packing_limit", m4, {"l": [{"x": "q"}]}, ["l"], None, None),
    ]


def probe_column_orders(ctx, stats):
    """The instances of Row/OrderFacts.v on the real RowParser: the example row with its columns
    shuffled (each list's columns by increasing index) reads back as the instance; with u.2
    before u.1 parse_row fails (AssertionError of find_entry), as the _refuted theorem says."""
    from rowlib import STR, INT, FLOAT, BOOL, ULIST, REQUIRED
    sub = ("model", "Sub", [("x", STR, ""), ("y", INT, 0)], {}, {})
    ty = ("model", "M", [("a", STR, ""), ("b", ("list", STR), []), ("c", sub, REQUIRED), ("d", ("list", sub), []),
                         ("e", FLOAT, 0.0), ("g", BOOL, True), ("u", ULIST, []), ("r", ("list", ("list", STR)), [])],
          {"hdr": "r"}, {"r": "hdr"})
    val = {"a": "h|i;\\", "b": ["1", "; 2", "\u00e9a"], "c": {"x": "q", "y": -5},
           "d": [{"x": "q", "y": 0}, {"x": "", "y": 7}], "e": -2.25, "g": False, "u": ["x y", "a\nb"],
           "r": [["k", "v"], ["z"]]}
    T = ["b", "d.*"]
    rowlib.clear_cache()
    ctx.v.coverage["evaluations"] += 2
    try:
        parser, inst, un, back = impl_case(ty, val, T, [])
    except Exception as e:
        ctx.disagree("column-order witness could not be built", "ex", "theorem", repr(e))
        return
    if un[0] != "ok" or back[0] != "ok" or not _deep_eq(back[1], val):
        ctx.disagree("column-order witness: canonical order", "ex", val, (un, back))
        return
    cells = dict(un[1])
    order_ok = ["hdr", "c.y", "d.1", "u.1", "a", "d.2", "g", "c.x", "u.2", "e", "b"]
    order_bad = ["a", "b", "c.x", "c.y", "d.1", "d.2", "e", "g", "u.2", "u.1", "hdr"]
    if sorted(order_ok) != sorted(cells) or sorted(order_bad) != sorted(cells):
        ctx.disagree("column-order witness: headers", "ex", sorted(order_ok), sorted(cells))
        return
    good = impl_parse(parser, [(k, cells[k]) for k in order_ok])
    stats["column_order_witnesses"] = 2
    if good[0] != "ok" or not _deep_eq(good[1], val):
        ctx.v.failing_input("column-order", f"shuffled columns {order_ok} of {cells} read back as {good!r}, not {val!r}",
                            dict(fn="order", order=order_ok))
    bad = impl_parse(parser, [(k, cells[k]) for k in order_bad])
    if bad[0] == "ok":
        ctx.disagree("column-order witness: the theorem says parse_row fails for u.2 before u.1", "ex", "Err EAssert", bad)


def probe_refutations(ctx, stats, keeps_blank=None):
    """Replays the witnesses of C07_*_refuted on the real RowParser: the implementation must do
    what the theorems say the model does.  The one witness that lies inside the domain of the
    property TEXT (a blank value under a non-blank default in a packed model) is a failing
    input of the property (known finding)."""
    for (name, t, val, T, cells, back_want) in _refutation_witnesses():
        rowlib.clear_cache()
        ctx.v.coverage["evaluations"] += 1
        stats["refutation_witnesses"] = stats.get("refutation_witnesses", 0) + 1
        try:
            parser, inst, un, back = impl_case(t, val, T, [])
        except Exception as e:
            ctx.disagree("refutation witness could not be built", name, "theorem", repr(e))
            continue
        if cells is None:
            if un[0] == "ok":
                ctx.disagree("refutation witness: the theorem says unparse_row fails", name, "Err EJoin", un)
            continue
        if name == "packed_blank":
            # ORACLE (the instance is inside the domain of the property text): it must come back
            if un[0] != "ok" or back[0] != "ok" or not _deep_eq(back[1], val):
                ctx.v.failing_input("packed-model-blank-value-under-nonblank-default",
                                    f"model={_show_ty(t)} value={val!r} targets={T} -> cells={un!r} -> back={back!r}",
                                    dict(fn="generic", ty=_jsonable_ty(t), value=val, targets=T, excluded=[]))
            # CORRESPONDENCE with C07_packed_blank_decided, whose branch the translator's probe selects
            if keeps_blank is None:
                continue
            if keeps_blank:
                cells, back_want = [("k", "q"), ("s", "a;;|")], val
        if un[0] != "ok" or un[1] != cells:
            ctx.disagree("refutation witness: cells", name, cells, un)
            continue
        if back[0] != "ok" or not _deep_eq(back[1], back_want):
            ctx.disagree("refutation witness: instance read back", name, back_want, back)
            continue


def flush_generic(ctx, m, batch, stats):
    lines = []
    for item in batch:
        lines += item[8]
    outs = model_ask(m, lines)
    k = 0
    for (t, val, T, X, un, back, bad, badr, reqs) in batch:
        mo = norm_res(outs[k], rowlib.d_cells)
        k += 1
        case = dict(model=_show_ty(t), value=val, targets=T, excluded=X)
        if mo[0] == "err" and mo[1] == rowlib.ERR_UNSUPPORTED:
            stats["model_unsupported"] += 1
        elif mo[0] == "bad":
            ctx.disagree("unparse_row: model could not decode the request", case, mo, un)
        elif (mo[0] == "ok") != (un[0] == "ok"):
            ctx.disagree("unparse_row ok/error", case, mo, un)
        elif mo[0] == "ok" and mo[1] != un[1]:
            ctx.disagree("unparse_row cells", case, mo[1], un[1])
        if un[0] == "ok":
            for cells, im in ((un[1], back), (bad, badr)):
                mp = norm_res(outs[k], rowlib.d_value)
                k += 1
                case2 = dict(model=_show_ty(t), cells=cells)
                if mp[0] == "err" and mp[1] == rowlib.ERR_UNSUPPORTED:
                    stats["model_unsupported"] += 1
                elif mp[0] == "bad":
                    ctx.disagree("parse_row: model could not decode the request", case2, mp, im)
                elif (mp[0] == "ok") != (im[0] == "ok"):
                    ctx.disagree("parse_row ok/error", case2, mp, im)
                elif mp[0] == "ok" and not _deep_eq(mp[1], im[1]):
                    ctx.disagree("parse_row instance", case2, mp[1], im[1])


def run_flow(ctx, stats, nontrivial, samples, RowParser, CellParser, RowDataSheet, SheetParser, FlowRowModel,
             CSVSheetReader, XLSXSheetReader):
    v, rng, m = ctx.v, ctx.rng, ctx.model
    thorough = ctx.tier == "thorough"
    desc = flow_desc()
    cx = flow_ctx_tables()
    parser = RowParser(FlowRowModel, CellParser())
    from rpft.rapidpro.models.containers import FlowContainer
    fc = FlowContainer("x")
    layouts = {s: (sorted(fc.to_row_data_sheet(strip_uuids=s).target_headers), sorted(fc.to_row_data_sheet(strip_uuids=s).excluded_headers))
               for s in (False, True)}
    n_flow = (6000 if thorough else 500) * ctx.scale
    n_files = (400 if thorough else 40) * ctx.scale
    fstats = {"rows": 0, "in_domain": 0, "by_type": {}, "strip_uuids": 0, "file_csv": 0, "file_xlsx": 0, "multi_row_sheets": 0}
    batch = []
    alias_batch = []
    flow_dom_batch = []
    good_rows = []
    for i in range(n_flow):
        good = rng.random() < 0.85
        val = gen_flow_row(rng, desc, cx, good)
        strip = rng.random() < 0.3
        T, X = layouts[strip]
        fstats["rows"] += 1
        fstats["strip_uuids"] += strip
        fstats["by_type"][val["type"]] = fstats["by_type"].get(val["type"], 0) + 1
        v.coverage["evaluations"] += 1
        try:
            inst = FlowRowModel(**val)
        except Exception:
            continue
        un = run_cli_mode(rowgen.impl_unparse, parser, inst, T, X)
        back = impl_parse(parser, un[1]) if un[0] == "ok" else None
        dom = flow_in_domain(desc, cx, val, T)
        fstats["in_domain"] += dom
        if dom:
            want = erase_excluded(desc, val, X)
            ok = un[0] == "ok" and back[0] == "ok" and _deep_eq(back[1], want)
            if not ok:
                v.failing_input("flow-roundtrip", f"flow row {val!r} strip_uuids={strip}: cells={un} back={back}",
                                dict(fn="flow", value=val, strip=strip))
            else:
                nontrivial.add(repr(un[1]))
                if not strip:
                    good_rows.append(val)
        if m and not strip:
            rt_ok = un[0] == "ok" and back[0] == "ok" and _deep_eq(back[1], val)
            flow_dom_batch.append((dict(flow_row=val), dom, rt_ok, dict(fn="flow", value=val, strip=False),
                                   f"(107 7 {rowlib.e_value(desc, val)})"))
        if m:
            reqs = [f"(107 5 {rowlib.e_value(desc, val)} {1 if strip else 0})"]
            bad = badr = None
            if un[0] == "ok":
                reqs.append(f"(107 4 {rowlib.e_cells(un[1])})")
                bad = mutate_cells(rng, un[1], ["from", "condition", "condition_var", "message_text", "type", "choices", "edges"])
                badr = impl_parse(parser, bad)
                reqs.append(f"(107 4 {rowlib.e_cells(bad)})")
                stats["malformed_cells"] += 1
                stats["malformed_parse_ok"] += badr[0] == "ok"
            batch.append((desc, val, T, X, un, back, bad, badr, reqs))
            if un[0] == "ok" and rng.random() < 0.5:
                al = alias_cells(rng, un[1], val["type"], cx, desc)
                if al is not None:
                    alr = impl_parse(parser, al)
                    fstats["alias_rows"] = fstats.get("alias_rows", 0) + 1
                    fstats["alias_blank_after"] = fstats.get("alias_blank_after", 0) + any(
                        v2 == "" and h2 not in dict(un[1]) and i2 > 0 for i2, (h2, v2) in enumerate(al))
                    alias_batch.append((al, alr))
            if len(batch) >= 300:
                flush_generic(ctx, m, batch, stats)
                batch = []
        if len(samples) < 5 and dom and un[0] == "ok" and len(un[1]) > 5:
            samples.append(dict(flow_row_cells=un[1]))
    if m and batch:
        flush_generic(ctx, m, batch, stats)
    if m and alias_batch:
        # correspondence of parse_row on rows in which two headers denote one field (the model's rekey_put)
        outs = model_ask(m, [f"(107 4 {rowlib.e_cells(al)})" for al, _ in alias_batch])
        for (al, alr), o in zip(alias_batch, outs):
            mp = norm_res(o, rowlib.d_value)
            case = dict(model="FlowRowModel", cells=al, stream="alias")
            if mp[0] == "err" and mp[1] == rowlib.ERR_UNSUPPORTED:
                stats["model_unsupported"] += 1
            elif mp[0] == "bad":
                ctx.disagree("parse_row (alias row): model could not decode the request", case, mp, alr)
            elif (mp[0] == "ok") != (alr[0] == "ok"):
                ctx.disagree("parse_row (alias row) ok/error", case, mp, alr)
            elif mp[0] == "ok" and not _deep_eq(mp[1], alr[1]):
                ctx.disagree("parse_row (alias row) instance", case, mp[1], alr[1])
    if m and flow_dom_batch:
        flush_domain(ctx, m, flow_dom_batch, fstats, key="flow-roundtrip", what="flow_dom")

    # ---- through files: RowDataSheet.export -> reader -> SheetParser -> parse_row
    scratch = tempfile.mkdtemp(prefix="rpftc07")
    # directed: the rows of every file-leg entry of findings.d/C07.json (open and fixed alike), every run, both formats
    directed = []
    try:
        import json
        fj = os.path.join(os.path.dirname(os.path.abspath(__file__)), "..", "findings.d", "C07.json")
        for f in json.load(open(fj))["findings"]:
            rp = f.get("replay") or {}
            if rp.get("fn") == "file":
                FlowRowModel(**rp["rows"][0])
                directed.append(rp["rows"])
    except Exception:
        directed = []
    fstats["directed_file_sheets"] = len(directed)
    try:
        for j in range(-len(directed), min(n_files, len(good_rows))):
            if j < 0:
                rows = directed[j]
                multi = len(rows) > 1
            else:
                multi = j % 4 == 3
                rows = [good_rows[j]] if not multi else [good_rows[(j * 7 + k) % len(good_rows)] for k in range(3)]
            fstats["multi_row_sheets"] += multi
            insts = [FlowRowModel(**r) for r in rows]
            T, X = layouts[False]
            for fmt in ("csv", "xlsx"):
                d = os.path.join(scratch, f"s{j}{fmt}".replace("-", "d"))
                os.makedirs(d)
                v.coverage["evaluations"] += 1
                fstats["file_" + fmt] += 1

                def leg():
                    sheet = RowDataSheet(parser, insts, set(T), set(X))
                    if fmt == "csv":
                        sheet.export(os.path.join(d, "flow.csv"))
                        table = CSVSheetReader(d).get_sheet("flow").table
                    else:
                        fn = os.path.join(d, "flow.xlsx")
                        sheet.export(fn, "xlsx")
                        table = list(XLSXSheetReader(fn).sheets.values())[0].table
                    return [rowlib.natives(r) for r in SheetParser(parser, table).parse_all()]

                r = run_cli_mode(leg)
                ok = r[0] == "ok" and len(r[1]) == len(rows) and all(_deep_eq(a, b) for a, b in zip(r[1], rows))
                if not ok:
                    key = file_failure_class(desc, rows, r, fmt, multi, parser, insts, T, X)
                    v.failing_input(key, f"{fmt} file round trip of {len(rows)} flow row(s) differs: rows={rows!r} -> {r!r}"[:3000],
                                    dict(fn="file", rows=rows, fmt=fmt))
                shutil.rmtree(d, ignore_errors=True)
    finally:
        shutil.rmtree(scratch, ignore_errors=True)
    ctx.stats["c07_flow"] = fstats


def file_failure_class(desc, rows, r, fmt, multi, parser, insts, T, X):
    """input class of a file-leg failure (for known_findings matching).  The two known classes
    are recognised by predicting the file result in memory: the sheet = every row's cells
    under the union of the headers, absent cells blank; in an xlsx file a cell of two or more
    characters starting with "=" comes back empty (openpyxl stores it as a formula)."""
    if r[0] != "ok" or len(r[1]) != len(rows):
        return f"file-roundtrip-{fmt}"
    dicts = [dict(rowgen.impl_unparse(parser, i, T, X)) for i in insts]
    headers = []
    for d in dicts:
        for h in d:
            if h not in headers:
                headers.append(h)

    # the column order of the sheet itself (a topological order of the rows' header chains): with a row context a
    # blank padding cell can be re-keyed onto a column the row did write (message_text -> webhook.body for a
    # call_webhook row), and then WHICH of the two comes later decides what is read
    from rpft.parsers.common.rowdatasheet import RowDataSheet
    sheet_order = run_cli_mode(lambda: RowDataSheet(parser, insts, set(T), set(X))._get_headers())
    sheet_order = sheet_order[1] if sheet_order[0] == "ok" and sorted(sheet_order[1]) == sorted(headers) else None

    def predicted(eq, order, drop_blank_aliases=False):
        out = []
        for d in dicts:
            cells = {h: d.get(h, "") for h in headers}
            if drop_blank_aliases:
                # the same sheet without the blank cells that the row context re-keys onto a field another, non-blank
                # cell of the row writes: if this reads the same, the re-keying played no part in the result
                keyed = {}
                for h, c in cells.items():
                    k = run_cli_mode(lambda: parser.model.header_name_to_field_name_with_context(h, cells))
                    keyed[h] = k[1] if k[0] == "ok" else h
                cells = {h: c for h, c in cells.items()
                         if not (c == "" and any(x != h and keyed[x] == keyed[h] and cells[x] != "" for x in cells))}
            if eq:
                cells = {h: ("" if s.startswith("=") and len(s) > 1 else s) for h, s in cells.items()}
            if order is None:
                # column order inside one row does not matter for these rows (C07-3), only list order
                cells = dict(sorted(cells.items(), key=lambda kv: [int(c) if c.isdigit() else 0 for c in kv[0].split(".")]))
            else:
                cells = {h: cells[h] for h in order if h in cells}
            p = impl_parse(parser, list(cells.items()))
            out.append(p[1] if p[0] == "ok" else None)
        return out

    orders = [None] + ([sheet_order] if sheet_order is not None else [])

    def rekey_collision():
        """some row has two columns of the sheet that the row context re-keys to the SAME field, with different
        cells (its own column and the blank padding of a column other rows use)"""
        for d in dicts:
            cells = {h: d.get(h, "") for h in (sheet_order or headers)}
            seen = {}
            for h, s in cells.items():
                k = run_cli_mode(lambda: parser.model.header_name_to_field_name_with_context(h, cells))
                if k[0] != "ok":
                    continue
                if k[1] in seen and seen[k[1]] != s:
                    return True
                seen[k[1]] = s
        return False

    if multi and sheet_order is not None and rekey_collision() \
            and all(a is not None and _deep_eq(a, b) for a, b in zip(predicted(fmt == "xlsx", sheet_order), r[1])) \
            and not all(a is not None and _deep_eq(a, b) for a, b in zip(predicted(fmt == "xlsx", sheet_order, drop_blank_aliases=True), r[1])):
        # causal: the file result is explained by the padded sheet AND is NOT explained once the blank alias cells are
        # taken out (on a tree where a blank cell no longer overwrites its alias the second reading equals the first,
        # and the failure belongs to whatever else explains it)
        return "sheet-padding-cell-rekeyed-onto-written-column"
    if multi and any(all(a is not None and _deep_eq(a, b) for a, b in zip(predicted(False, o), r[1])) for o in orders):
        return "sheet-padding-cells-become-list-elements"
    if fmt == "xlsx" and any(s.startswith("=") and len(s) > 1 for d in dicts for s in d.values()):
        if any(all(a is not None and _deep_eq(a, b) for a, b in zip(predicted(True, o), r[1])) for o in orders):
            return "xlsx-cell-starting-with-equals-sign"
    return f"file-roundtrip-{fmt}"


def blank_equals(t, v):
    """every string starting with "=" replaced by "" (what an xlsx file gives back)"""
    k = t[0]
    if k == "model":
        return {n: blank_equals(ft, v[n]) for (n, ft, _) in t[2]}
    if k == "list":
        return [blank_equals(t[1], x) for x in v]
    if k == "ulist":
        return [("" if isinstance(x, str) and x.startswith("=") else x) for x in v]
    if k == "str":
        return "" if v.startswith("=") else v
    return v


def strip_padding(t, v):
    """remove trailing blank strings / all-default models from every list"""
    k = t[0]
    if k == "model":
        return {n: strip_padding(ft, v[n]) for (n, ft, _) in t[2]}
    if k == "list":
        l = [strip_padding(t[1], x) for x in v]
        blank = "" if t[1][0] != "model" else strip_padding(t[1], rowgen.class_default(t[1]))
        while l and l[-1] == blank:
            l.pop()
        return l
    if k == "ulist":
        l = list(v)
        while l and l[-1] == "":
            l.pop()
        return l
    return v


# ------------------------------------------------------------------------------ display / replay
def _show_ty(t):
    k = t[0]
    if k == "list":
        return "List[" + _show_ty(t[1]) + "]"
    if k == "model":
        fs = ", ".join(f"{n}: {_show_ty(ft)}" + ("" if d is REQUIRED else f" = {d!r}") for (n, ft, d) in t[2])
        rm = (f" h2f={t[3]}" if t[3] else "") + (f" f2h={t[4]}" if t[4] else "")
        return "{" + fs + rm + "}"
    return k


def _shape(t):
    k = t[0]
    if k == "list":
        return ("list", _shape(t[1]))
    if k == "model":
        return ("model", tuple(_shape(ft) for (_, ft, _) in t[2]))
    return k


def _jsonable_ty(t):
    k = t[0]
    if k == "list":
        return ["list", _jsonable_ty(t[1])]
    if k == "model":
        return ["model", t[1], [[n, _jsonable_ty(ft), (["required"] if d is REQUIRED else ["default", d])] for (n, ft, d) in t[2]], t[3], t[4]]
    return [k]


def _ty_from_json(j):
    k = j[0]
    if k == "list":
        return ("list", _ty_from_json(j[1]))
    if k == "model":
        return ("model", j[1], [(n, _ty_from_json(ft), REQUIRED if d[0] == "required" else d[1]) for (n, ft, d) in j[2]], j[3], j[4])
    return (k,)


def replay(rep):
    from rpft.parsers.common.cellparser import CellParser
    from rpft.parsers.common.rowparser import RowParser
    from rpft.parsers.common.rowdatasheet import RowDataSheet
    from rpft.parsers.common.sheetparser import SheetParser
    from rpft.parsers.creation.flowrowmodel import FlowRowModel
    from rpft.parsers.sheets import CSVSheetReader, XLSXSheetReader

    r = rep["replay"]
    if r["fn"] in ("session", "sessions"):
        import c07_sessions
        return c07_sessions.replay_session(r)
    if r["fn"] == "order":
        class _V:
            coverage = {"evaluations": 0}
            def failing_input(self, key, summary, replay):
                print(summary)
                self.bad = True
        class _C:
            v = _V()
            def disagree(self, *a):
                print("disagree:", a)
                self.v.bad = True
        c = _C()
        c.v.bad = False
        probe_column_orders(c, {})
        return not c.v.bad
    if r["fn"] == "generic":
        t = _ty_from_json(r["ty"])
        parser, inst, un, back = impl_case(t, r["value"], r["targets"], r["excluded"])
        print("cells:", un)
        print("back :", back)
        return un[0] == "ok" and back[0] == "ok" and _deep_eq(back[1], r["value"])
    if r["fn"] == "flow":
        from rpft.rapidpro.models.containers import FlowContainer
        parser = RowParser(FlowRowModel, CellParser())
        sheet = FlowContainer("x").to_row_data_sheet(strip_uuids=r["strip"])
        T, X = sorted(sheet.target_headers), sorted(sheet.excluded_headers)
        un = run_cli_mode(rowgen.impl_unparse, parser, FlowRowModel(**r["value"]), T, X)
        back = impl_parse(parser, un[1]) if un[0] == "ok" else None
        print("cells:", un)
        print("back :", back)
        return un[0] == "ok" and back[0] == "ok" and _deep_eq(back[1], erase_excluded(flow_desc(), r["value"], X))
    if r["fn"] == "headers":
        ok = True
        for sh in r["sheets"]:
            got = run_cli_mode(lambda: _rowfix_tables().sheet_header_set(sh))
            print("rows", sh, "->", got)
            ok = ok and got[0] == "ok" and got[1] == sorted({h for row in sh for h in row})
        return ok
    if r["fn"] == "xlsx_cells":
        got = run_cli_mode(lambda: _rowfix_tables().xlsx_cells_roundtrip(r["texts"]))
        print("read back:", got)
        return got[0] == "ok" and got[1] == r["texts"]
    if r["fn"] == "file":
        parser = RowParser(FlowRowModel, CellParser())
        d = tempfile.mkdtemp(prefix="rpftc07r")
        try:
            insts = [FlowRowModel(**x) for x in r["rows"]]
            sheet = RowDataSheet(parser, insts, {"edges.*.condition"}, set())
            if r["fmt"] == "csv":
                sheet.export(os.path.join(d, "flow.csv"))
                table = CSVSheetReader(d).get_sheet("flow").table
            else:
                sheet.export(os.path.join(d, "flow.xlsx"), "xlsx")
                table = list(XLSXSheetReader(os.path.join(d, "flow.xlsx")).sheets.values())[0].table
            got = run_cli_mode(lambda: [rowlib.natives(x) for x in SheetParser(parser, table).parse_all()])
            print("read back:", got)
            return got[0] == "ok" and len(got[1]) == len(r["rows"]) and all(_deep_eq(a, b) for a, b in zip(got[1], r["rows"]))
        finally:
            shutil.rmtree(d, ignore_errors=True)
    return True
