"""C05 — loading and re-writing a RapidPro export is lossless.

(a) correspondence: generated export documents (valid stream over the whole supported
    schema + defect-trigger stream + malformed stream) through the extracted model
    (Exp/Load.v, Exp/Render.v) and RapidProContainer.from_dict(d).render(); projection =
    the full document (objects unordered, arrays ordered; `_ui` entries: position only).
(b) the property's own oracle on the implementation: render(load d) vs norm d field by
    field, render(load(render(load d))) idempotence, input dict untouched."""
import copy
import io
import json
import contextlib
import os
import uuid as uuidlib

from common import enc_str, parse_sexp, dec_str, run_cli_mode

LEVEL = "proof"
ENG = 105


# ======================================================================== wire encoding
class Raw:
    """a value that is not JSON (the model's JRaw): floats travel as repr, the builtin
    `type` as "<class 'type'>", invented uuids as "#"."""

    def __init__(self, s):
        self.s = s

    def __eq__(self, o):
        return isinstance(o, Raw) and o.s == self.s

    def __hash__(self):
        return hash(("Raw", self.s))

    def __repr__(self):
        return f"Raw({self.s!r})"


def enc_json(v):
    if v is None:
        return "(0)"
    if v is True:
        return "(1 1)"
    if v is False:
        return "(1 0)"
    if isinstance(v, int):
        return f"(2 {1 if v < 0 else 0} {abs(v)})"
    if isinstance(v, float):
        return "(3 " + enc_str(repr(v)) + ")"
    if isinstance(v, Raw):
        return "(3 " + enc_str(v.s) + ")"
    if isinstance(v, str):
        return "(4 " + enc_str(v) + ")"
    if isinstance(v, (list, tuple)):
        return "(5 (" + " ".join(enc_json(x) for x in v) + "))"
    if isinstance(v, dict):
        return "(6 (" + " ".join("(" + enc_str(k) + " " + enc_json(x) + ")" for k, x in v.items()) + "))"
    raise TypeError(f"not encodable: {v!r}")


def dec_json(x):
    t = x[0]
    if t == 0:
        return None
    if t == 1:
        return x[1] == 1
    if t == 2:
        return -x[2] if x[1] == 1 else x[2]
    if t == 3:
        return Raw(dec_str(x[1]))
    if t == 4:
        return dec_str(x[1])
    if t == 5:
        return [dec_json(y) for y in x[1]]
    if t == 6:
        return {dec_str(k): dec_json(v) for (k, v) in x[1]}
    raise ValueError(x)


def jsonable(v, fresh_ok=None):
    """implementation output -> comparable tree: floats and non-JSON values become Raw."""
    if v is None or isinstance(v, (bool, int, str)):
        return v
    if isinstance(v, float):
        return Raw(repr(v))
    if isinstance(v, (list, tuple)):
        return [jsonable(x) for x in v]
    if isinstance(v, dict):
        return {k: jsonable(x) for k, x in v.items()}
    return Raw(repr(v))


def jeq(a, b):
    """strict structural equality: objects unordered, arrays ordered, bool is not int."""
    if type(a) is not type(b):
        return False
    if isinstance(a, dict):
        return a.keys() == b.keys() and all(jeq(a[k], b[k]) for k in a)
    if isinstance(a, list):
        return len(a) == len(b) and all(jeq(x, y) for x, y in zip(a, b))
    return a == b


def all_strings(v, acc):
    if isinstance(v, str):
        acc.add(v)
    elif isinstance(v, dict):
        for k, x in v.items():
            all_strings(x, acc)
    elif isinstance(v, list):
        for x in v:
            all_strings(x, acc)
    return acc


UUID_LEN = 36


def mark_fresh(out, known):
    """invented uuids (uuid4 strings that occur nowhere in the input) -> Raw('#')."""
    def looks(s):
        if len(s) != UUID_LEN or s in known:
            return False
        try:
            uuidlib.UUID(s)
            return True
        except ValueError:
            return False

    def go(v):
        if isinstance(v, str):
            return Raw("#") if looks(v) else v
        if isinstance(v, list):
            return [go(x) for x in v]
        if isinstance(v, dict):
            return {k: go(x) for k, x in v.items()}
        return v
    return go(out)


# ======================================================================== the oracle's norm
# Written from the property text: the identity, except for the differences the property
# tolerates ("optional flags and labels whose value is false or empty may be omitted")
# and the readings recorded in design.d/C05.md (absent destination_uuid == null, legacy
# trigger upgraded to both keyword forms, `_ui` reduced to node positions).
def falsy(v):
    return v is None or v is False or v == "" or v == [] or v == {} or (isinstance(v, (int, float)) and not isinstance(v, bool) and v == 0)


def drop_if(obj, key, pred):
    if isinstance(obj, dict) and key in obj and pred(obj[key]):
        del obj[key]


GROUP_OPT = ["query", "status", "system", "count"]


def norm_group(g):
    for k in GROUP_OPT:
        drop_if(g, k, lambda v: v is None)


def norm_action(a):
    t = a.get("type")
    if t == "send_msg":
        drop_if(a, "all_urns", falsy)
        drop_if(a, "topic", falsy)
        if isinstance(a.get("attachments"), list):
            a["attachments"] = [x for x in a["attachments"] if not falsy(x)]
    elif t == "set_run_result":
        drop_if(a, "category", falsy)
    elif t == "remove_contact_groups":
        drop_if(a, "all_groups", falsy)
    elif t == "set_contact_field":
        if isinstance(a.get("field"), dict):
            drop_if(a["field"], "type", falsy)
    if t in ("add_contact_groups", "remove_contact_groups"):
        for g in a.get("groups", []):
            norm_group(g)


def norm_flow(f):
    node_ids = []
    for n in f["nodes"]:
        node_ids.append(n["uuid"])
        for e in n["exits"]:
            e.setdefault("destination_uuid", None)
        for a in n.get("actions", []):
            norm_action(a)
        r = n.get("router")
        if r is not None:
            if r.get("type") == "random":
                drop_if(r, "result_name", falsy)
            else:
                drop_if(r, "result_name", lambda v: v is None)
    if "_ui" in f:
        ui = f.pop("_ui")
        entries = {}
        for nid in node_ids:
            if isinstance(ui, dict) and nid in ui.get("nodes", {}):
                pos = ui["nodes"][nid]["position"]
                entries[nid] = {"position": {"left": pos["left"], "top": pos["top"]}}
        if entries:
            f["_ui"] = {"nodes": entries}


def norm_event(e):
    pass  # events are kept field for field (a message event always has a base language)


def norm_trigger(t):
    if "keywords" not in t:
        t["keywords"] = [] if t.get("keyword") is None else [t["keyword"]]
    if "keyword" not in t:
        t["keyword"] = t["keywords"][0] if t["keywords"] else None
    t.setdefault("channel", None)
    if falsy(t["channel"]):
        t["channel"] = None
    t.setdefault("exclude_groups", [])
    drop_if(t, "match_type", falsy)
    if t.get("trigger_type") == "K":
        t.setdefault("match_type", "F")
    for g in t["groups"] + t["exclude_groups"]:
        norm_group(g)


def norm(d):
    d = copy.deepcopy(d)
    for f in d["flows"]:
        norm_flow(f)
    for g in d["groups"]:
        norm_group(g)
    for c in d["campaigns"]:
        norm_group(c["group"])
        for e in c["events"]:
            norm_event(e)
    for t in d["triggers"]:
        norm_trigger(t)
    return d


def strip_ui(doc):
    """projection of an output document: `_ui` node entries reduced to their position
    (type/config are re-synthesised heuristically by the toolkit and not compared)."""
    doc = copy.copy(doc)
    flows = []
    for f in doc.get("flows", []):
        if isinstance(f, dict) and isinstance(f.get("_ui"), dict) and isinstance(f["_ui"].get("nodes"), dict):
            f = dict(f)
            f["_ui"] = {"nodes": {k: {"position": v.get("position")} for k, v in f["_ui"]["nodes"].items()}}
        flows.append(f)
    doc["flows"] = flows
    return doc


# ---- field-by-field diff, classified by input class ------------------------------------
def diff(want, got, path, out):
    """appends (class_key, path, detail) for every difference between want (= norm d) and
    got (= render(load d))."""
    if len(out) > 40:
        return
    if isinstance(want, dict) and isinstance(got, dict):
        for k in want:
            if k not in got:
                out.append((classify(path + [k], "dropped", want[k]), path + [k], f"dropped {want[k]!r}"[:120]))
        for k in got:
            if k not in want:
                out.append((classify(path + [k], "added", got[k]), path + [k], f"added {got[k]!r}"[:120]))
        for k in want:
            if k in got:
                if k in ("categories", "exits") and isinstance(want[k], list) and isinstance(got[k], list) \
                        and all(isinstance(x, dict) and "uuid" in x for x in want[k] + got[k]):
                    diff_keyed(want[k], got[k], path + [k], out)
                else:
                    diff(want[k], got[k], path + [k], out)
        return
    if isinstance(want, list) and isinstance(got, list):
        if len(want) != len(got):
            out.append((classify(path, "length", None), path, f"length {len(want)} -> {len(got)}"))
        for i, (x, y) in enumerate(zip(want, got)):
            diff(x, y, path + [i], out)
        return
    if not jeq(want, got):
        out.append((classify(path, "value", got), path, f"{want!r} -> {got!r}"[:160]))


def diff_keyed(want, got, path, out):
    """lists of objects carrying a uuid: order and content are judged separately."""
    wu = [x["uuid"] for x in want]
    gu = [x["uuid"] for x in got]
    what = path[-1]
    if wu != gu:
        if sorted(map(str, wu)) == sorted(map(str, gu)):
            key = "switch-category-order" if what == "categories" else "exit-order"
            out.append((key, path, f"order {short(wu)} -> {short(gu)}"))
        elif what == "exits" and set(map(str, gu)) <= set(map(str, wu)) and len(gu) > len(set(map(str, gu))):
            out.append(("exit-shared-by-categories", path, f"{short(wu)} -> {short(gu)}"))
        else:
            out.append((f"other:{what}-set", path, f"{short(wu)} -> {short(gu)}"))
    gm = {}
    for x in got:
        gm.setdefault(str(x["uuid"]), x)
    for i, x in enumerate(want):
        y = gm.get(str(x["uuid"]))
        if y is not None:
            diff(x, y, path + [i], out)


def short(us):
    return [str(u)[-4:] for u in us]


def classify(path, kind, val):
    p = [x for x in path if not isinstance(x, int)]
    if p[-2:] == ["field", "type"] and "actions" in p:
        return "typed-contact-field-ref"
    if len(p) == 2 and p[0] == "groups" and p[1] in GROUP_OPT and kind == "dropped":
        return "top-level-group-attributes"
    return "other:" + "/".join(p[-3:]) + ":" + kind


# ======================================================================== generator
TEST_ARITY = None  # filled from RouterCase.TEST_VALIDATIONS at run time


def U(rng):
    return str(uuidlib.UUID(int=rng.getrandbits(128), version=4))


WORDS = ["alpha", "Beta", "gamma ray", "Δelta", "x", "yes", "no", "Other", "All Responses", "12", "a b c", "é"]


def word(rng):
    return rng.choice(WORDS) + (str(rng.randrange(100)) if rng.random() < 0.5 else "")


def rand_json(rng, depth=2):
    r = rng.random()
    if depth == 0 or r < 0.5:
        return rng.choice([None, True, False, 0, 1, -3, 17, 2.5, "", "txt", "@contact.name", word(rng)])
    if r < 0.75:
        return [rand_json(rng, depth - 1) for _ in range(rng.randrange(3))]
    return {word(rng): rand_json(rng, depth - 1) for _ in range(rng.randrange(3))}


def shuffled(rng, d):
    items = list(d.items())
    rng.shuffle(items)
    return dict(items)


class World:
    """one document's universe of names and uuids (names <-> uuids consistent)."""

    def __init__(self, rng, feats):
        self.rng = rng
        self.f = feats
        self.groups = [{"name": f"grp {word(rng)} {i}", "uuid": U(rng)} for i in range(rng.choice([0, 1, 2, 2, 3, 4]))]
        self.flows = [(f"flow {word(rng)} {i}", U(rng)) for i in range(rng.choice([0, 1, 1, 2, 3]))]
        self.ext_flows = [(f"ext {word(rng)} {i}", U(rng)) for i in range(rng.choice([0, 1, 2]))]
        self.used_flow_names = set(n for n, _ in self.flows)
        self.kinds = {}

    def count(self, k):
        self.kinds[k] = self.kinds.get(k, 0) + 1

    def group_ref(self):
        rng = self.rng
        if not self.groups:
            self.groups.append({"name": f"grp {word(rng)} z", "uuid": U(rng)})
        g = rng.choice(self.groups)
        ref = {"uuid": g["uuid"], "name": g["name"]}
        r = rng.random()
        if r < 0.1:
            ref["query"] = None
        elif r < 0.2:
            ref[rng.choice(GROUP_OPT)] = rng.choice(["active", "", False, 0, 5, "age > 10"])
            self.count("group_ref_with_attr")
        return ref

    def flow_ref(self, defined_only=False):
        rng = self.rng
        pool = self.flows + ([] if defined_only else self.ext_flows)
        if not pool:
            pool = self.ext_flows
        if not pool:
            nm = (f"ext {word(rng)} q{len(self.ext_flows)}", U(rng))
            self.ext_flows.append(nm)
            pool = [nm]
        n, u = rng.choice(pool)
        self.used_flow_names.add(n)
        return {"uuid": u, "name": n} if rng.random() < 0.5 else {"name": n, "uuid": u}


PASS_TEMPLATES = {
    "add_contact_urn": lambda w: {"scheme": w.rng.choice(["tel", "mailto", "whatsapp"]), "path": "@results.phone"},
    "add_input_labels": lambda w: {"labels": [{"uuid": U(w.rng), "name": word(w.rng)} for _ in range(w.rng.randrange(3))]},
    "call_classifier": lambda w: {"classifier": {"uuid": U(w.rng), "name": "Booking"}, "input": "@input.text", "result_name": "Intent"},
    "call_resthook": lambda w: {"resthook": "new-registration", "result_name": w.rng.choice(["", "Result"])},
    "call_webhook": lambda w: {"method": w.rng.choice(["GET", "POST"]), "url": "http://x.org/?q=@contact.name",
                               "headers": {"Accept": "application/json"} if w.rng.random() < 0.5 else {},
                               "body": w.rng.choice(["", "{}"]), "result_name": "webhook"},
    "open_ticket": lambda w: {"ticketer": {"uuid": U(w.rng), "name": "Support"}, "subject": "Need help", "body": "@input",
                              "assignee": None, "result_name": "Ticket"},
    "play_audio": lambda w: {"audio_url": "http://uploads.temba.io/2353262.m4a"},
    "say_msg": lambda w: {"audio_url": "", "text": "Hi @contact.name"},
    "send_broadcast": lambda w: {"urns": ["tel:+12065551212"], "text": "Hi", "groups": [], "contacts": [], "legacy_vars": []},
    "send_email": lambda w: {"addresses": ["a@b.org"], "subject": "S", "body": "B"},
    "start_session": lambda w: {"flow": {"uuid": U(w.rng), "name": "Registration"}, "groups": [], "contacts": [],
                                "create_contact": w.rng.random() < 0.5, "legacy_vars": []},
    "transfer_airtime": lambda w: {"amounts": {"RWF": 500, "USD": 0.5}, "result_name": "Reward Transfer"},
}


def gen_action(w, kind, action_map):
    from rpft.rapidpro.models import actions as A
    rng = w.rng
    cls = action_map[kind]
    a = {"type": kind, "uuid": U(rng)}
    w.count("action:" + kind)
    if issubclass(cls, A.DefaultRenderedAction):
        a.update(PASS_TEMPLATES.get(kind, lambda w: {})(w))
        for _ in range(rng.choice([0, 0, 1, 2])):
            a["x_" + word(rng)] = rand_json(rng)
            w.count("passthrough_unknown_field")
        if rng.random() < 0.1:
            del a["uuid"]
    elif kind == "send_msg":
        a["text"] = rng.choice(["Hi @contact.name", "1", word(rng)])
        a["attachments"] = [rng.choice(["image:http://x/y.png", "audio:@fields.a"]) for _ in range(rng.choice([0, 0, 1, 2]))]
        if rng.random() < 0.1:
            a["attachments"].insert(rng.randrange(len(a["attachments"]) + 1), "")
            w.count("send_msg_empty_attachment")
        a["quick_replies"] = [word(rng) for _ in range(rng.choice([0, 0, 1, 3]))]
        r = rng.random()
        if r < 0.25:
            a["all_urns"] = rng.choice([True, False])
        if rng.random() < 0.25:
            a["topic"] = rng.choice(["event", "account", ""])
        if rng.random() < 0.25:
            a["templating"] = {"uuid": U(rng), "template": {"uuid": U(rng), "name": word(rng)},
                               "variables": [word(rng) for _ in range(rng.randrange(3))]}
            w.count("send_msg_templating")
    elif kind == "set_contact_field":
        nm = word(rng)
        a["field"] = {"key": nm.lower().replace(" ", "_"), "name": nm}
        if rng.random() < 0.45:
            # an ordinary case since "fix: a typed contact field reference renders its own type"
            a["field"]["type"] = rng.choice(["text", "numeric", "datetime", "state", "district", "ward"])
            w.count("typed_field_ref")
        elif rng.random() < 0.15:
            a["field"]["type"] = rng.choice([None, ""])
        a["value"] = rng.choice(["", "Female", "@input.text"])
    elif kind.startswith("set_contact_"):
        prop = kind[len("set_contact_"):]
        a[prop] = {"uuid": U(rng), "name": "Facebook Channel"} if prop == "channel" else rng.choice(["eng", "Bob", "active", "Africa/Kigali", ""])
    elif kind in ("add_contact_groups", "remove_contact_groups"):
        a["groups"] = [w.group_ref() for _ in range(rng.choice([0, 1, 1, 2]))]
        if kind == "remove_contact_groups" and rng.random() < 0.4:
            a["all_groups"] = rng.choice([True, False])
    elif kind == "set_run_result":
        a["name"] = word(rng)
        a["value"] = rng.choice(["", "@input", "5"])
        if rng.random() < 0.5:
            a["category"] = rng.choice(["", "Cat", None])
    elif kind == "enter_flow":
        a["flow"] = w.flow_ref()
    else:
        # an action kind this generator has no template for (new entry of action_map)
        w.count("untemplated_action_kind")
    return a


def gen_case(w, cat_uuids):
    rng = w.rng
    t = rng.choice(sorted(TEST_ARITY))
    ar = rng.choice(TEST_ARITY[t])      # any argument count the test's validator accepts
    if t == "has_group":
        g = w.group_ref()
        args = [g["uuid"], g["name"]]
    else:
        args = [rng.choice(["yes", "1", "a b", word(rng)]) for _ in range(ar)]
    return {"uuid": U(rng), "type": t, "category_uuid": rng.choice(cat_uuids), "arguments": args}


OPERANDS = ["@input.text", "@contact.groups", "@(urn_parts(contact.urn).scheme)", "@contact.name", "@contact.age",
            "@fields.my_field", '@(default(urn_parts(urns.mailto).path, ""))', "@results.res_a", "@child.run.status",
            "@(1 + 2)", "@results.webhook.category"]


def gen_exits(w, n, node_ids):
    rng = w.rng
    exits = []
    for _ in range(n):
        e = {"uuid": U(rng)}
        r = rng.random()
        if r < 0.6 and node_ids:
            e["destination_uuid"] = rng.choice(node_ids)
        elif r < 0.85:
            e["destination_uuid"] = None
        else:
            w.count("exit_without_destination_key")
        if rng.random() < 0.5:
            e = dict(reversed(list(e.items())))
        exits.append(e)
    return exits


def gen_switch_router(w, node_ids, fixed_operand=None):
    """returns (router, exits).  Canonical = categories others+[default]+[no response],
    exits in category order, one exit per category."""
    rng = w.rng
    n_other = rng.choice([0, 1, 1, 2, 3])
    with_timeout = fixed_operand is None and rng.random() < 0.3
    with_wait = with_timeout or (fixed_operand is None and rng.random() < 0.3)
    names = ["Other", "All Responses", "Expired", "Failure"]
    cats = [{"uuid": U(rng), "name": word(rng)} for _ in range(n_other)]
    default = {"uuid": U(rng), "name": rng.choice(names)}
    cats.append(default)
    noresp = None
    if with_timeout:
        noresp = {"uuid": U(rng), "name": "No Response"}
        cats.append(noresp)
    exits = gen_exits(w, len(cats), node_ids)
    for c, e in zip(cats, exits):
        c["exit_uuid"] = e["uuid"]
        if rng.random() < 0.3:
            c2 = shuffled(rng, c)
            c.clear()
            c.update(c2)
    case_targets = [c["uuid"] for c in cats if c is not noresp]
    cases = [gen_case(w, case_targets) for _ in range(rng.choice([0, 1, 2, 2, 4]))] if case_targets else []
    if len(set(c["category_uuid"] for c in cases)) < len(cases):
        w.count("category_shared_by_cases")
    r = {"type": "switch", "operand": fixed_operand or rng.choice(OPERANDS), "cases": cases, "categories": cats,
         "default_category_uuid": default["uuid"]}
    if with_timeout:
        r["wait"] = {"type": "msg", "timeout": {"seconds": rng.choice([1, 300, 86400]), "category_uuid": noresp["uuid"]}}
        w.count("router_wait_timeout")
    elif with_wait:
        r["wait"] = {"type": "msg"}
        w.count("router_wait")
    rr = rng.random()
    if rr < 0.4:
        r["result_name"] = word(rng)
    elif rr < 0.5:
        r["result_name"] = rng.choice(["", None])
    # ---- the defect-trigger knobs (valid exports all the same)
    if w.f.get("default_not_last") and len(cats) >= 2 and rng.random() < 0.7:
        cats2 = list(cats)
        while [c["uuid"] for c in cats2] == [c["uuid"] for c in cats]:
            rng.shuffle(cats2)
        # keep exits aligned with the categories so that only the category order is unusual
        by_exit = {e["uuid"]: e for e in exits}
        r["categories"] = cats2
        exits = [by_exit[c["exit_uuid"]] for c in cats2]
        w.count("switch_default_not_last")
    if w.f.get("exit_order") and len(exits) >= 2 and rng.random() < 0.7:
        e2 = list(exits)
        while [e["uuid"] for e in e2] == [e["uuid"] for e in exits]:
            rng.shuffle(e2)
        exits = e2
        w.count("exits_not_in_category_order")
    exits = share_exit(w, r["categories"], exits, 0.2)
    return r, exits


def share_exit(w, cats, exits, p):
    """two categories referencing one exit: an ordinary case since "fix: an exit shared by several
    categories of a router is rendered once".  The shared exit stands where its first category
    stands (canonical); with the exit_order input class it may stand at the later one."""
    rng = w.rng
    if len(cats) >= 2 and rng.random() < p:
        a, b = sorted(rng.sample(range(len(cats)), 2))
        if w.f.get("exit_order") and rng.random() < 0.5:
            a, b = b, a
            w.count("exits_not_in_category_order")
        if cats[b]["exit_uuid"] != cats[a]["exit_uuid"]:
            dropped = cats[b]["exit_uuid"]
            cats[b]["exit_uuid"] = cats[a]["exit_uuid"]
            exits = [e for e in exits if e["uuid"] != dropped]
            w.count("exit_shared_by_categories")
    return exits


def gen_random_router(w, node_ids):
    rng = w.rng
    n = rng.choice([1, 2, 2, 3, 5])
    cats = [{"uuid": U(rng), "name": f"Bucket {i + 1}"} for i in range(n)]
    exits = gen_exits(w, n, node_ids)
    for c, e in zip(cats, exits):
        c["exit_uuid"] = e["uuid"]
    r = {"type": "random", "categories": cats}
    rr = rng.random()
    if rr < 0.4:
        r["result_name"] = word(rng)
    elif rr < 0.5:
        r["result_name"] = rng.choice(["", None])
    if w.f.get("exit_order") and n >= 2 and rng.random() < 0.5:
        e2 = list(exits)
        while [e["uuid"] for e in e2] == [e["uuid"] for e in exits]:
            rng.shuffle(e2)
        exits = e2
        w.count("exits_not_in_category_order")
    exits = share_exit(w, cats, exits, 0.15)
    return r, exits


def gen_node(w, nid, node_ids, action_map):
    rng = w.rng
    kind = rng.choice(["basic", "basic", "basic", "switch", "switch", "random", "enter_flow", "call_webhook", "transfer_airtime"])
    w.count("node:" + kind)
    n = {"uuid": nid}
    if kind == "basic":
        kinds = sorted(action_map)
        n["actions"] = [gen_action(w, rng.choice(kinds), action_map) for _ in range(rng.choice([0, 1, 1, 2, 3]))]
        n["exits"] = gen_exits(w, 1, node_ids)
    elif kind == "switch":
        n["actions"] = []
        n["router"], n["exits"] = gen_switch_router(w, node_ids)
    elif kind == "random":
        n["actions"] = []
        n["router"], n["exits"] = gen_random_router(w, node_ids)
    else:
        n["actions"] = [gen_action(w, kind, action_map)]
        op = {"enter_flow": "@child.run.status", "call_webhook": "@results.webhook.category",
              "transfer_airtime": "@results.reward_transfer"}[kind]
        n["router"], n["exits"] = gen_switch_router(w, node_ids, fixed_operand=op)
    if rng.random() < 0.4:
        n = shuffled(rng, n)
    return n


UI_TYPES = ["execute_actions", "wait_for_response", "split_by_expression", "split_by_random", "split_by_subflow"]


def gen_flow(w, name, uid, action_map):
    rng = w.rng
    n_nodes = rng.choice([0, 1, 2, 3, 3, 5, 8])
    node_ids = [U(rng) for _ in range(n_nodes)]
    f = {"name": name, "uuid": uid, "spec_version": "13.1.0", "language": rng.choice(["base", "eng"]),
         "type": rng.choice(["messaging", "voice", "background"]),
         "nodes": [gen_node(w, nid, node_ids, action_map) for nid in node_ids],
         "revision": rng.choice([0, 1, 63]), "expire_after_minutes": rng.choice([10080, 5, 0]),
         "metadata": rng.choice([{}, {"revision": 62}, {"x": [1, {"y": None}]}]),
         "localization": rng.choice([{}, {"fra": {U(rng): {"text": ["Salut"]}}}])}
    w.count(f"flow_nodes:{min(n_nodes, 5)}{'+' if n_nodes >= 5 else ''}")
    r = rng.random()
    if r < 0.6:
        ui_nodes = {}
        ids = list(node_ids)
        rng.shuffle(ids)
        for nid in ids:
            if rng.random() < 0.8:
                pos = {"left": rng.choice([0, 20, 120, 480]), "top": rng.choice([0, 220, 1053, 12.5])}
                if rng.random() < 0.5:
                    pos = dict(reversed(list(pos.items())))
                ent = {"position": pos, "type": rng.choice(UI_TYPES)}
                if rng.random() < 0.5:
                    ent["config"] = rng.choice([{}, {"cases": {}}, None])
                ui_nodes[nid] = ent
                w.count("ui_position")
        ui = {"nodes": ui_nodes}
        if rng.random() < 0.3:
            ui["stickies"] = {}
        if rng.random() < 0.1:
            ui["nodes"][U(rng)] = {"position": {"left": 1, "top": 2}, "type": "execute_actions"}
            w.count("ui_entry_for_unknown_node")
        f["_ui"] = ui
    elif r < 0.7:
        f["_ui"] = rng.choice([{}, {"stickies": {}}])
    if rng.random() < 0.4:
        f = shuffled(rng, f)
    return f


def gen_event(w):
    rng = w.rng
    e = {"uuid": U(rng), "offset": rng.choice([0, 15, 5730, -2]), "unit": rng.choice(["M", "H", "D", "W"])}
    if rng.random() < 0.5:
        e.update({"event_type": "F", "delivery_hour": rng.choice([-1, -1, 0, 23]), "message": None,
                  "relative_to": {"label": "Last Seen On", "key": "last_seen_on"}, "start_mode": rng.choice(["I", "S", "P"]),
                  "flow": w.flow_ref()})
        w.count("event:F")
    else:
        e.update({"event_type": "M", "delivery_hour": rng.choice([-1, 0, 9, 18, 23]), "message": {"eng": "SPAM", "fra": "SPAMME"},
                  "relative_to": {"label": "Created On", "key": "created_on"}, "start_mode": rng.choice(["I", "S", "P"]),
                  "base_language": rng.choice(["eng", "eng", "fra"])})
        w.count("event:M")
    if rng.random() < 0.3:
        e = shuffled(rng, e)
    return e


def gen_trigger(w):
    rng = w.rng
    tt = rng.choice(["K", "K", "M", "C", "T"])
    form = rng.choice(["both", "both", "keywords_only", "legacy"])
    kws = [word(rng) for _ in range(rng.choice([1, 1, 2]))] if tt == "K" else []
    t = {"trigger_type": tt}
    if form == "legacy":
        kws = kws[:1]
        t["keyword"] = kws[0] if kws else None
    elif form == "both":
        t["keyword"] = kws[0] if kws else None
        t["keywords"] = kws
    else:
        t["keywords"] = kws
    w.count("trigger:" + tt + ":" + form)
    t["flow"] = w.flow_ref(defined_only=rng.random() < 0.7)
    t["groups"] = [w.group_ref() for _ in range(rng.choice([0, 0, 1, 2]))]
    if form != "legacy" or rng.random() < 0.5:
        t["exclude_groups"] = [w.group_ref() for _ in range(rng.choice([0, 0, 1]))]
    if form != "legacy" or rng.random() < 0.7:
        t["channel"] = rng.choice([None, None, U(rng), ""])
    if form != "legacy" and tt == "K":
        t["match_type"] = rng.choice(["F", "O"])
    elif rng.random() < 0.2:
        t["match_type"] = rng.choice(["", None, "O"])
    if rng.random() < 0.3:
        t = shuffled(rng, t)
    return t


# input classes of the findings that are still open (category/exit order is rebuilt from the router's
# category slots).  Typed field references and top-level group attributes used to be here: since their
# repairs they are ordinary cases of every stream; so are exits shared by categories.
FEATURES = ["default_not_last", "exit_order"]


def gen_doc(rng, feats, action_map):
    """a valid export over the supported schema.  feats = set of defect-trigger input
    classes to include (empty: the canonical stream on which the property must hold)."""
    w = World(rng, {k: True for k in feats})
    flows = [gen_flow(w, n, u, action_map) for (n, u) in w.flows]
    campaigns = []
    for i in range(rng.choice([0, 0, 1, 2])):
        c = {"uuid": U(rng), "name": f"camp {i}", "group": w.group_ref(),
             "events": [gen_event(w) for _ in range(rng.choice([0, 1, 2, 3]))]}
        campaigns.append(shuffled(rng, c) if rng.random() < 0.3 else c)
    triggers = []
    if w.flows or w.used_flow_names:
        triggers = [gen_trigger(w) for _ in range(rng.choice([0, 0, 1, 2, 3]))]
        # a trigger's flow must be known to the container (defined, or referenced earlier)
        known = set(n for n, _ in w.flows)
        for f in flows:
            for nd in f["nodes"]:
                for a in nd.get("actions", []):
                    if a.get("type") == "enter_flow":
                        known.add(a["flow"]["name"])
        for c in campaigns:
            for e in c["events"]:
                if "flow" in e:
                    known.add(e["flow"]["name"])
        triggers = [t for t in triggers if t["flow"]["name"] in known]
    groups = []
    for g in w.groups:
        g = dict(g)
        r = rng.random()
        if r < 0.5:
            # an ordinary case since "fix: validate() keeps query/status/system/count of the container's groups";
            # attributes in the order RapidPro writes them, or (for 2 of them) reversed
            ks = [k for k in GROUP_OPT if rng.random() < 0.6] or [rng.choice(GROUP_OPT)]
            for k in ks:
                g[k] = {"query": rng.choice(["age > 10", "", None]), "status": rng.choice(["ready", "initializing"]),
                        "system": rng.choice([True, False]), "count": rng.choice([0, 12])}[k]
            w.count("top_level_group_with_attrs")
        elif r < 0.65:
            g["query"] = None
        if rng.random() < 0.5:
            g = dict(reversed(list(g.items())))
        groups.append(g)
    d = {"campaigns": campaigns,
         "fields": [{"key": "k" + str(i), "name": word(rng), "type": "text"} for i in range(rng.choice([0, 1, 2]))],
         "flows": flows, "groups": groups, "site": rng.choice(["https://rapidpro.idems.international", "https://x.org"]),
         "triggers": triggers, "version": rng.choice(["13", "13", 13])}
    if rng.random() < 0.5:
        d = shuffled(rng, d)
    return d, w.kinds


# ---- malformed stream: one structural fault injected into a valid document -------------
def paths_of(v, path, acc):
    if isinstance(v, dict):
        acc.append((path, "dict"))
        for k, x in v.items():
            paths_of(x, path + [k], acc)
    elif isinstance(v, list):
        acc.append((path, "list"))
        for i, x in enumerate(v):
            paths_of(x, path + [i], acc)
    return acc


def get_at(d, path):
    for p in path:
        d = d[p]
    return d


OPAQUE = {"metadata", "localization", "fields", "message", "headers", "amounts", "variables", "arguments"}


def malform(rng, d):
    """returns (kind, document) — a single fault: a required key removed, an unknown key
    added to a constructor-built object, a dangling uuid, an unknown type name,
    an inconsistent uuid for a name."""
    d = copy.deepcopy(d)
    objs = [p for p, k in paths_of(d, [], []) if k == "dict" and not (set(map(str, p)) & OPAQUE) and not any(str(x).startswith("x_") for x in p)
            and "_ui" not in p]
    if d.get("groups") and rng.random() < 0.15:
        # not a fault of structure: a group that is referenced (or not) but missing from the top-level list;
        # validate() must add every referenced group at the end of the list (model and code must agree)
        del d["groups"][rng.randrange(len(d["groups"]))]
        return "unlisted_group", d
    for _ in range(20):
        kind = rng.choice(["drop_key", "drop_key", "add_key", "dangling", "bad_type", "uuid_clash", "null_uuid"])
        p = rng.choice(objs)
        o = get_at(d, p)
        if kind == "drop_key" and o:
            k = rng.choice(sorted(o))
            del o[k]
            return f"drop:{k}", d
        if kind == "add_key":
            o["bogus_key"] = 1
            return "add_key:" + (str([x for x in p if isinstance(x, str)][-1]) if p else "top"), d
        if kind == "dangling":
            for k in ("exit_uuid", "default_category_uuid", "category_uuid"):
                if k in o:
                    o[k] = U(rng)
                    return f"dangling:{k}", d
        if kind == "bad_type" and "type" in o and isinstance(o["type"], str) and "position" not in o:
            o["type"] = rng.choice(["nonsense", "switch", "random", "send_msg", "has_text"])
            return "bad_type", d
        if kind == "uuid_clash" and "name" in o and "uuid" in o and isinstance(o["uuid"], str):
            o["uuid"] = U(rng)
            return "uuid_clash", d
        if kind == "null_uuid" and "uuid" in o:
            o["uuid"] = rng.choice([None, ""])
            return "null_uuid", d
    return "none", d


# ======================================================================== implementation
def impl_roundtrip(d):
    from rpft.rapidpro.models.containers import RapidProContainer

    def go():
        with contextlib.redirect_stdout(io.StringIO()):
            c = RapidProContainer.from_dict(d)
            return c.render()
    return run_cli_mode(go)


def oracle(v, d, tag, stats, count_known=True):
    """the property evaluated on the implementation for one valid document d.
    Returns the set of finding classes that fired."""
    before = copy.deepcopy(d)
    r = impl_roundtrip(d)
    fired = set()
    if not jeq(jsonable(d), jsonable(before)):
        fired.add("input-mutated")
        v.failing_input("input-mutated", "from_dict/render modified the caller's document", dict(kind="doc", doc=before, tag=tag))
    if r[0] != "ok":
        fired.add("load-error")
        v.failing_input("load-error:" + r[1], f"valid export rejected: {r[1:]}", dict(kind="doc", doc=before, tag=tag))
        return fired, None
    out = jsonable(r[1])
    want = jsonable(norm(before))
    diffs = []
    diff(want, strip_ui(out), [], diffs)
    by_class = {}
    for key, path, detail in diffs:
        by_class.setdefault(key, (path, detail))
    for key, (path, detail) in by_class.items():
        fired.add(key)
        v.failing_input(key, f"render(load d) differs from d at {'/'.join(map(str, path))}: {detail}",
                        dict(kind="doc", doc=before, tag=tag, path=[str(x) for x in path]))
    # idempotence: render(load(render(load d))) == render(load d)
    try:
        r2 = impl_roundtrip(r[1])
    except Exception as e:  # pragma: no cover
        r2 = ("err", type(e).__name__, str(e))
    if r2[0] != "ok" or not jeq(jsonable(r2[1]), out):
        fired.add("not-idempotent")
        v.failing_input("not-idempotent", f"second render differs from the first ({r2[0]})", dict(kind="doc", doc=before, tag=tag))
    # every output must be a JSON document
    try:
        json.dumps(r[1])
    except TypeError:
        if "typed-contact-field-ref" not in fired:
            fired.add("not-json")
            v.failing_input("not-json", "rendered document is not JSON-serialisable", dict(kind="doc", doc=before, tag=tag))
    return fired, out


def model_roundtrip(m, d):
    o = m.ask(f"({ENG} 1 {enc_json(jsonable(d))})")
    x = parse_sexp(o)
    if x and x[0] == 1:
        return ("ok", dec_json(x[1]))
    return ("err", o[:60])


# ======================================================================== run
def run(ctx):
    global TEST_ARITY
    from rpft.rapidpro.models.actions import action_map
    from rpft.rapidpro.models.routers import RouterCase

    v, rng, m = ctx.v, ctx.rng, ctx.model
    if m and m.ask(f"({ENG} 0)").startswith("(999998"):
        m = None  # engine not built into this model binary
    thorough = ctx.tier == "thorough"
    TEST_ARITY = {}
    for t, chk in RouterCase.TEST_VALIDATIONS.items():
        ar = [n for n in range(4) if chk([None] * n)]
        # NOT derived from RouterCase.NO_ARGS_TESTS: a test with an optional argument (has_phone) must be
        # exercised with it, whatever the loader thinks
        TEST_ARITY[t] = ar if ar else [1]
    n_docs = (12000 if thorough else 500) * ctx.scale
    dist = {"canonical": 0, "defect_trigger": 0, "malformed": 0, "fixture": 0}
    kinds_total = {}
    mal_kinds = {}
    outcome = {"ok": 0, "err": 0}
    nontrivial = set()
    samples = []

    def corr(d, tag, impl_out=None):
        """model vs implementation on the same document"""
        if not m:
            return
        r = impl_roundtrip(copy.deepcopy(d)) if impl_out is None else impl_out
        mo = model_roundtrip(m, d)
        if r[0] == "ok":
            known = all_strings(d, set())
            io_ = strip_ui(mark_fresh(jsonable(r[1]), known))
            if mo[0] != "ok":
                ctx.disagree("load/render: model rejects, implementation accepts", dict(doc=d, tag=tag), mo[1], "ok")
            elif not jeq(mo[1], io_):
                dd = []
                diff(io_, mo[1], [], dd)
                ctx.disagree("render(load d)", dict(doc=d, tag=tag), [f"{'/'.join(map(str, p))}: {det}" for _, p, det in dd[:4]], "impl->model")
        else:
            if mo[0] == "ok":
                ctx.disagree("load/render: implementation rejects, model accepts", dict(doc=d, tag=tag), "ok", list(r[1:]))

    # ---- the repository's own documents first
    import glob
    fixtures = sorted(glob.glob(os.path.join(os.environ.get("RPFT_REPO", "/repo"), "tests", "data", "containers", "rapidpro*_container_*.json")))
    fixtures.append(os.path.join(os.environ.get("RPFT_REPO", "/repo"), "tests", "output", "all_test_flows.json"))
    if ctx.scale == 1:
        for fp in fixtures:
            if not os.path.exists(fp):
                continue
            d = json.load(open(fp))
            dist["fixture"] += 1
            v.coverage["evaluations"] += 1
            oracle(v, d, "fixture:" + os.path.basename(fp), ctx.stats)
            corr(d, "fixture:" + os.path.basename(fp))

    for i in range(n_docs):
        r = rng.random()
        if r < 0.55:
            feats = []
        elif r < 0.85:
            feats = [f for f in FEATURES if rng.random() < 0.35] or [rng.choice(FEATURES)]
        else:
            feats = None
        d, kinds = gen_doc(rng, feats or [], action_map)
        for k, n in kinds.items():
            kinds_total[k] = kinds_total.get(k, 0) + n
        v.coverage["evaluations"] += 1
        if feats is None:
            kind, d = malform(rng, d)
            dist["malformed"] += 1
            mal_kinds[kind.split(":")[0]] = mal_kinds.get(kind.split(":")[0], 0) + 1
            before = copy.deepcopy(d)
            res = impl_roundtrip(d)
            outcome[res[0]] += 1
            if not jeq(jsonable(d), jsonable(before)):
                v.failing_input("input-mutated", "from_dict/render modified the caller's document (malformed stream)",
                                dict(kind="doc", doc=before, tag="malformed:" + kind))
            corr(before, "malformed:" + kind, res)
            continue
        dist["canonical" if not feats else "defect_trigger"] += 1
        fired, out = oracle(v, d, "gen:" + ",".join(feats), ctx.stats)
        outcome["ok" if out is not None else "err"] += 1
        if not feats and fired:
            pass  # already reported by oracle(): a canonical document must round-trip
        sig = json.dumps(sorted(kinds), sort_keys=True)
        if sum(kinds.get(k, 0) for k in kinds if k.startswith("node:")) >= 1:
            nontrivial.add(sig)
        corr(d, "gen:" + ",".join(feats))
        if len(samples) < 3 and i % 97 == 5:
            samples.append(json.dumps(d)[:300])

    # which of the repaired behaviours the tree under check has (the model follows these regenerated probes)
    try:
        import re
        tv = open(os.path.join(os.path.dirname(os.path.dirname(os.path.abspath(__file__))), "coq", "theories", "Gen", "Tables.v")).read()
        ctx.stats["repair_probes"] = {k: b == "true" for k, b in re.findall(
            r"Definition (fieldref_renders_own_type|validate_keeps_group_attrs|router_lists_shared_exit_once) : bool := (true|false)\.", tv)}
    except OSError:
        pass
    ctx.stats["documents"] = dist
    ctx.stats["constructs"] = dict(sorted(kinds_total.items()))
    ctx.stats["malformed_kinds"] = mal_kinds
    ctx.stats["implementation_outcome"] = outcome
    v.coverage["distinct_nontrivial"] = len(nontrivial)
    v.coverage["rule"] = (
        "generated RapidPro export documents: 55% canonical (the stream on which the property must hold: every action kind of "
        "action_map incl. pass-through kinds with unknown extra fields, optional fields present/absent/empty/null, typed and untyped "
        "contact-field references, top-level groups with and without query/status/system/count, categories shared "
        "by cases, all node kinds, 0..8 nodes, _ui positions, campaigns with M/F events, triggers in new/keywords-only/legacy form, "
        "exits shared by two categories, shuffled key order), 30% with the input classes of the open findings (default "
        "category not last, exits not in category order), 15% malformed (one structural fault, or a group missing from the "
        "top-level list). "
        "Each valid document: oracle render(load d) vs norm d field by field + idempotence + input untouched on the implementation; "
        "every document: extracted model vs implementation on the full output. non-trivial = distinct set of construct kinds "
        "(node/action/trigger/event kinds, optional-field situations) of a document with at least one node")
    v.coverage["samples"] = samples
    v.assumptions += [
        "JSON numbers that are not integers travel as their repr (never inspected by load/render)",
        "invented uuids (uuid4) never collide with given ones; compared as an anonymous marker",
        "`_ui` type/config of a node entry are re-synthesised by the toolkit and are outside the projection (positions are compared)",
        "three behaviours that were repaired (typed field reference, top-level group attributes, shared exit) are read from the tree "
        "under check by translator probes; the model mirrors whichever behaviour the tree has and the theorems are stated for both "
        "(`if probe then holds else refuted`), the oracle never looks at the probes",
    ]


def replay(rep):
    r = rep["replay"]
    d = r["doc"]
    key = rep.get("key", "")

    class V:
        def __init__(self):
            self.fired = []

        def failing_input(self, k, summary, replay):
            self.fired.append(k)
            print("  ", k, "—", summary[:200])
            return True

    vv = V()
    if r.get("tag", "").startswith("malformed"):
        before = copy.deepcopy(d)
        impl_roundtrip(d)
        return jeq(jsonable(d), jsonable(before))
    oracle(vv, d, r.get("tag", "replay"), {})
    return not vv.fired
