"""C17 — generator of RapidPro flow files (JSON dicts) inside the vocabulary the exporter
(`FlowContainer.to_rows`) supports, a malformed stream, and schema-directed renaming of
every UUID the property lists (nodes, exits, categories, cases, actions, flow, groups,
referenced flows; plus the `_ui` keys and the templating-instance uuid, which are
positions of node/action identity).  The WhatsApp *template* uuid (`templating.template.
uuid`) is not in the property's list and is kept fixed."""
import copy
import uuid as _uuid

# --------------------------------------------------------------------------- text pools
WORDS = ["hello", "Hello world", "hello.world", "start", "goto", "a", "b", "1", "msg", "x y z",
         "this is a long message text over fifteen", "this is a long message text, again",
         "semi;colon", "pipe|bar", "back\\slash", "quote\"d", "line\nbreak", "comma,sep", "é ü ñ",
         "!!!", "日本語", "tab\there", " lead", "trail ", "a.b.c", "A-b_c", "0", "UPPER lower"]
NAMES = ["Result", "Result 1", "result.name", "my result", "r", "favourite number", "x", "Name-1", "start"]
OPERANDS = ["@input.text", "@fields.age", "@contact.name", "@results.result_1", "@results.r.category",
            "@(urn_parts(contact.urn).scheme)", "@input", "@fields.x y"]
GROUP_NAMES = ["test group", "Group A", "g;1", "Survey|2", "alpha"]
FLOW_NAMES = ["child flow", "Flow.B", "other", "registration"]
ONE_ARG_TESTS = ["has_any_word", "all_words", "has_phrase", "has_only_phrase", "has_beginning", "has_only_text",
                 "has_number_eq", "has_number_lt", "has_number_gt", "has_pattern", "has_date_lt", "has_category"]
TWO_ARG_TESTS = ["has_number_between", "has_ward", "has_intent", "has_top_intent"]
NO_ARG_TESTS = ["has_text", "has_number", "has_email", "has_date", "has_time", "has_state", "has_error"]
PASS_THROUGH = ["send_email", "add_input_labels", "play_audio", "say_msg", "open_ticket", "start_session",
                "send_broadcast", "call_classifier", "call_resthook"]
TEMPLATE_UUID = "0f3a54c2-7b1d-4e58-9b52-aa10d4c7e001"   # kept fixed by renamings
# texts whose mangled names agree on the first 15 characters ("this_is_a_long_", "Hello_world_he") or
# entirely, so that several rows compete for one readable id and the `.counter` loop runs
CLASH_WORDS = ["this is a long message", "this is a long story", "this is a long.message", "this is a long",
               "this is a long message text over fifteen", "Hello world here", "Hello world hereafter",
               "Hello.world here!", "hello", "hello", "hello.1", "hello.2", "hello 1", "x", "x.1",
               "this is a long message", "this is a long tale", "this is a long-winded text", "Hello world hereby"]
CLASH_NAMES = ["Result", "Result", "favourite number", "favourite number 2", "favourite numbers", "x"]
_POOL = {"words": None, "names": None}


def new_uuid(rng):
    return str(_uuid.UUID(int=rng.getrandbits(128), version=4))


def name_of(rng):
    if _POOL["names"] is not None and rng.random() < 0.9:
        return rng.choice(_POOL["names"])
    return rng.choice(NAMES)


def text(rng):
    if _POOL["words"] is not None and rng.random() < 0.9:
        return rng.choice(_POOL["words"])
    if rng.random() < 0.75:
        return rng.choice(WORDS)
    return "".join(rng.choice("ab .-_|;\\\"\n,é1Z!") for _ in range(rng.choice([1, 3, 8, 20])))


# --------------------------------------------------------------------------- actions
def gen_action(rng, groups, flows, kinds=None):
    kind = rng.choice(kinds or ["send_msg"] * 6 + ["set_contact_field", "set_contact_name", "set_contact_language",
                                "set_contact_status", "set_contact_timezone", "add_contact_groups",
                                "remove_contact_groups", "set_run_result", "add_contact_urn", "enter_flow",
                                "call_webhook"])
    a = {"uuid": new_uuid(rng), "type": kind}
    if kind == "send_msg":
        a["text"] = text(rng) or "x"
        a["quick_replies"] = [text(rng) for _ in range(rng.choice([0, 0, 0, 1, 2, 3]))]
        r = rng.random()
        if r < 0.6:
            a["attachments"] = []
        elif r < 0.8:
            a["attachments"] = [rng.choice(["image:", "audio:", "video:", "application/pdf:"]) + "http://x/" + rng.choice(["a.png", "b;c", "d|e"])]
        else:
            a["attachments"] = [rng.choice(["image:u1", "audio:u2", "", "video:u3", "imagex"]) for _ in range(rng.choice([2, 3]))]
        if rng.random() < 0.15:
            a["templating"] = {"uuid": new_uuid(rng), "template": {"uuid": TEMPLATE_UUID, "name": name_of(rng)},
                               "variables": [text(rng) for _ in range(rng.choice([0, 1, 2]))]}
        if rng.random() < 0.1:
            a["all_urns"] = True
    elif kind == "set_contact_field":
        nm = name_of(rng)
        a["field"] = {"key": nm.lower().replace(" ", "_"), "name": nm}
        a["value"] = text(rng)
    elif kind.startswith("set_contact_"):
        a[kind[len("set_contact_"):]] = text(rng)
    elif kind in ("add_contact_groups", "remove_contact_groups"):
        gs = rng.sample(groups, rng.choice([1, 1, 1, 2, 3]) if len(groups) >= 3 else 1)
        a["groups"] = [dict(g) for g in gs]
        if kind == "remove_contact_groups" and rng.random() < 0.3:
            a["all_groups"] = False
    elif kind == "set_run_result":
        a["name"] = name_of(rng)
        a["value"] = text(rng)
        if rng.random() < 0.5:
            a["category"] = rng.choice(["", "Cat", "c;d"])
    elif kind == "add_contact_urn":
        a["scheme"] = rng.choice(["tel", "tel", "whatsapp", "mailto"])
        a["path"] = rng.choice(["@results.phone", "+123456", "a@b.c", text(rng)])
    elif kind == "enter_flow":
        a["flow"] = dict(rng.choice(flows))
    elif kind == "call_webhook":
        a["url"] = rng.choice(["http://localhost:49998/?cmd=success", "https://example.org/a b", "u"])
        a["method"] = rng.choice(["GET", "POST", "PUT"])
        a["body"] = text(rng)
        a["headers"] = {k: text(rng) for k in rng.sample(["Authorization", "Content-Type", "X;Y"], rng.choice([0, 1, 2]))}
        a["result_name"] = name_of(rng)
    elif kind == "transfer_airtime":
        a["amounts"] = {k: rng.choice([500, 0.5, 1, 20]) for k in rng.sample(["RWF", "USD", "KES"], rng.choice([1, 2]))}
        a["result_name"] = name_of(rng)
    return a


# --------------------------------------------------------------------------- nodes
def _cats_exits(rng, names, dests, share=0.25):
    """categories (uuid,name,exit_uuid) and exits; with probability `share` a category reuses
    the exit of an earlier one (several categories sharing an exit)."""
    cats, exits = [], []
    for nm in names:
        if exits and rng.random() < share:
            ex = rng.choice(exits)
        else:
            ex = {"uuid": new_uuid(rng), "destination_uuid": rng.choice(dests)}
            if ex["destination_uuid"] is None and rng.random() < 0.3:
                del ex["destination_uuid"]
            exits.append(ex)
        cats.append({"uuid": new_uuid(rng), "name": nm, "exit_uuid": ex["uuid"]})
    return cats, exits


def gen_switch_router(rng, dests, groups, stats):
    by_group = rng.random() < 0.15
    operand = "@contact.groups" if by_group else rng.choice(OPERANDS)
    ncat = rng.choice([0, 1, 1, 2, 2, 3, 4])
    if by_group:
        ncat = max(ncat, 1)
    names = []
    for i in range(ncat):
        nm = rng.choice(["A", "B", "Yes", "No", "c;d", "Other", "No Response", text(rng)[:20] or "E"])
        names.append(nm)
    wait = None
    r = rng.random()
    if not by_group and r < 0.45:
        wait = {"type": "msg"}
        if r < 0.2:
            wait["timeout"] = {"seconds": rng.choice([300, 86400, 60, 0]), "category_uuid": None}
    default_pos = rng.choice([len(names), len(names), len(names), rng.randrange(len(names) + 1)])
    names.insert(default_pos, rng.choice(["Other", "Other", "All Responses", "Failure"]))
    nr_pos = None
    if wait and "timeout" in wait:
        nr_pos = rng.randrange(len(names) + 1)
        if nr_pos <= default_pos:
            default_pos += 1
        names.insert(nr_pos, "No Response")
    cats, exits = _cats_exits(rng, names, dests)
    if nr_pos is not None:
        wait["timeout"]["category_uuid"] = cats[nr_pos]["uuid"]
    cases = []
    others = [c for i, c in enumerate(cats) if i != default_pos and i != nr_pos]
    targets = list(others)
    if others and rng.random() < 0.4:
        targets.append(rng.choice(others))          # two cases, one category
    if rng.random() < 0.12:
        targets.append(cats[default_pos])           # a case pointing at the default category
    if nr_pos is not None and rng.random() < 0.08:
        targets.append(cats[nr_pos])                # a case pointing at the No Response category
    if others and rng.random() < 0.2:
        targets.remove(rng.choice(others))          # a category without any case
    rng.shuffle(targets)
    if by_group and not targets:
        targets = [others[0]]
    for c in targets:
        if by_group:
            g = rng.choice(groups)
            cases.append({"uuid": new_uuid(rng), "type": "has_group", "arguments": [g["uuid"], g["name"]],
                          "category_uuid": c["uuid"]})
        else:
            r = rng.random()
            if r < 0.65:
                t, args = rng.choice(ONE_ARG_TESTS), [text(rng)]
            elif r < 0.8:
                t, args = rng.choice(TWO_ARG_TESTS), [text(rng), text(rng)]
            elif r < 0.95:
                t, args = rng.choice(NO_ARG_TESTS), []
            else:
                t, args = "has_phone", ["RW"]
            cases.append({"uuid": new_uuid(rng), "type": t, "arguments": args, "category_uuid": c["uuid"]})
    router = {"type": "switch", "operand": operand, "cases": cases, "categories": cats,
              "default_category_uuid": cats[default_pos]["uuid"]}
    if wait:
        router["wait"] = wait
    r = rng.random()
    if r < 0.6:
        router["result_name"] = name_of(rng)
    elif r < 0.7:
        router["result_name"] = ""
    stats["switch_group" if by_group else ("switch_wait" if wait else "switch_plain")] = \
        stats.get("switch_group" if by_group else ("switch_wait" if wait else "switch_plain"), 0) + 1
    return router, exits


def gen_node(rng, nid, dests, groups, flows, stats):
    r = rng.random()
    node = {"uuid": nid}
    if r < 0.45:
        node["actions"] = [gen_action(rng, groups, flows) for _ in range(rng.choice([1, 1, 1, 2, 2, 3, 4]))]
        ex = {"uuid": new_uuid(rng), "destination_uuid": rng.choice(dests)}
        node["exits"] = [ex]
        kind = "basic%d" % min(len(node["actions"]), 3)
    elif r < 0.72:
        node["actions"] = []
        node["router"], node["exits"] = gen_switch_router(rng, dests, groups, stats)
        kind = "switch"
    elif r < 0.82:
        node["actions"] = []
        k = rng.choice([1, 2, 3, 3, 4])
        cats, exits = _cats_exits(rng, [f"Bucket {i + 1}" for i in range(k)], dests)
        node["router"] = {"type": "random", "categories": cats}
        if rng.random() < 0.4:
            node["router"]["result_name"] = name_of(rng)
        node["exits"] = exits
        kind = "random"
    elif r < 0.89:
        node["actions"] = [gen_action(rng, groups, flows, ["enter_flow"])]
        cats, exits = _cats_exits(rng, ["Complete", "Expired"], dests, share=0.1)
        cases = [{"uuid": new_uuid(rng), "type": "has_only_text", "arguments": ["completed"], "category_uuid": cats[0]["uuid"]}]
        if rng.random() < 0.8:
            cases.append({"uuid": new_uuid(rng), "type": "has_only_text", "arguments": ["expired"], "category_uuid": cats[1]["uuid"]})
        node["router"] = {"type": "switch", "operand": "@child.run.status", "cases": cases, "categories": cats,
                          "default_category_uuid": cats[1]["uuid"]}
        node["exits"] = exits
        kind = "enter_flow"
    elif r < 0.95:
        node["actions"] = [gen_action(rng, groups, flows, ["call_webhook"])]
        rn = node["actions"][0]["result_name"]
        cats, exits = _cats_exits(rng, ["Success", "Failure"], dests, share=0.1)
        node["router"] = {"type": "switch", "operand": f"@results.{rn.lower().replace(' ', '_')}.category",
                          "cases": [{"uuid": new_uuid(rng), "type": "has_only_text", "arguments": ["Success"], "category_uuid": cats[0]["uuid"]}],
                          "categories": cats, "default_category_uuid": cats[1]["uuid"]}
        if rng.random() < 0.5:
            node["router"]["result_name"] = (name_of(rng) if rng.random() < 0.9 else "")
        node["exits"] = exits
        kind = "webhook"
    else:
        node["actions"] = [gen_action(rng, groups, flows, ["transfer_airtime"])]
        rn = node["actions"][0]["result_name"]
        cats, exits = _cats_exits(rng, ["Success", "Failure"], dests, share=0.1)
        node["router"] = {"type": "switch", "operand": f"@results.{rn.lower().replace(' ', '_')}",
                          "cases": [{"uuid": new_uuid(rng), "type": "has_category", "arguments": ["Success"], "category_uuid": cats[0]["uuid"]}],
                          "categories": cats, "default_category_uuid": cats[1]["uuid"]}
        node["exits"] = exits
        kind = "airtime"
    stats[kind] = stats.get(kind, 0) + 1
    return node


def gen_flow(rng, name, groups, flows, stats, n=None, shape=None):
    n = n or rng.choice([1, 2, 3, 4, 5, 6, 8, 10, 14])
    ids = [new_uuid(rng) for _ in range(n)]
    shape = shape or rng.choice(["any", "any", "any", "forward", "chain", "loops", "loops"])
    nodes = []
    if shape == "loops":
        # row-id stress: a spine (so that most nodes are reached), most other exits go back to one
        # of two or three ancestors (several back edges from one node / into one node, the same
        # (source, target) more than once), and texts / result names that clash after mangling
        _POOL["words"], _POOL["names"] = CLASH_WORDS, CLASH_NAMES
        hubs = ids[:rng.choice([1, 2, 3])]
    try:
        for i, nid in enumerate(ids):
            if shape == "forward":
                dests = ids[i + 1:] + [None]
            elif shape == "chain":
                dests = (ids[i + 1:i + 2] or [None]) * 3 + ids[i + 1:] + [None]
            elif shape == "loops":
                dests = (ids[i + 1:i + 2] or [None]) * 2 + hubs * 2 + [nid] + ids[:i + 1] + [None]
            else:
                dests = ids + [None, None]       # joins, cycles, self-loops, dead ends
            nodes.append(gen_node(rng, nid, dests, groups, flows, stats))
    finally:
        _POOL["words"], _POOL["names"] = None, None
    fl = {"name": name, "uuid": new_uuid(rng), "spec_version": "13.1.0", "language": "base", "type": "messaging",
          "nodes": nodes, "revision": 1, "expire_after_minutes": 10080, "metadata": {"revision": 1}, "localization": {}}
    r = rng.random()
    if r < 0.7:
        ui = {}
        for nd in nodes:
            if rng.random() < 0.8:
                ui[nd["uuid"]] = {"position": {"left": rng.choice([0, 280, 1060, 40.5]), "top": rng.randrange(0, 2000, 20)},
                                  "type": "execute_actions"}
        fl["_ui"] = {"nodes": ui}
    stats["shape_" + shape] = stats.get("shape_" + shape, 0) + 1
    return fl


def gen_container(rng, stats, nflows=None, **kw):
    groups = [{"uuid": new_uuid(rng), "name": nm} for nm in rng.sample(GROUP_NAMES, 3)]
    nflows = nflows or rng.choice([1, 1, 2])
    fnames = [f"flow_{i}" for i in range(nflows)]
    fuuids = [new_uuid(rng) for _ in fnames]
    refs = [{"uuid": new_uuid(rng), "name": nm} for nm in rng.sample(FLOW_NAMES, 2)] + \
           [{"uuid": u, "name": nm} for u, nm in zip(fuuids, fnames)]
    flows = []
    for nm, fu in zip(fnames, fuuids):
        fl = gen_flow(rng, nm, groups, refs, stats, **kw)
        fl["uuid"] = fu
        flows.append(fl)
    return {"version": "13", "site": "https://rapidpro.idems.international", "flows": flows, "campaigns": [],
            "triggers": [], "fields": [], "groups": [dict(g, query=None) for g in groups]}


# --------------------------------------------------------------------------- malformed stream
MALFORMATIONS = ["dangling_destination", "basic_without_actions", "pass_through_action", "has_phone_no_args",
                 "has_group_one_arg", "duplicate_node_uuid", "airtime_in_basic_node", "remove_all_groups",
                 "empty_flow", "no_args_under_child_status", "group_split_without_cases", "set_contact_channel",
                 "has_group_one_arg_other_operand", "has_group_under_child_status"]


def malform(rng, cont, which):
    """Returns the container (mutated copy) or None when the malformation does not apply."""
    c = copy.deepcopy(cont)
    fl = c["flows"][0]
    nodes = fl["nodes"]
    basics = [n for n in nodes if "router" not in n]
    switches = [n for n in nodes if n.get("router", {}).get("type") == "switch" and not n["actions"]]
    if which == "empty_flow":
        fl["nodes"] = []
        fl.pop("_ui", None)
        return c
    if which == "dangling_destination":
        exs = [e for n in nodes for e in n["exits"]]
        rng.choice(exs)["destination_uuid"] = new_uuid(rng)
        return c
    if which == "duplicate_node_uuid" and len(nodes) >= 2:
        a, b = rng.sample(range(len(nodes)), 2)
        old = nodes[b]["uuid"]
        nodes[b]["uuid"] = nodes[a]["uuid"]
        for n in nodes:
            for e in n["exits"]:
                if e.get("destination_uuid") == old and rng.random() < 0.5:
                    e["destination_uuid"] = nodes[a]["uuid"]
        return c
    if basics and which in ("basic_without_actions", "pass_through_action", "airtime_in_basic_node",
                            "remove_all_groups", "set_contact_channel"):
        n = rng.choice(basics)
        if which == "basic_without_actions":
            n["actions"] = []
        elif which == "pass_through_action":
            a = {"uuid": new_uuid(rng), "type": rng.choice(PASS_THROUGH), "subject": "s", "body": "b", "addresses": ["a@b"]}
            n["actions"].insert(rng.randrange(len(n["actions"]) + 1), a)
        elif which == "airtime_in_basic_node":
            a = {"uuid": new_uuid(rng), "type": "transfer_airtime", "amounts": {"USD": 1}, "result_name": "r"}
            n["actions"].insert(rng.randrange(len(n["actions"]) + 1), a)
        elif which == "remove_all_groups":
            a = {"uuid": new_uuid(rng), "type": "remove_contact_groups", "groups": [], "all_groups": True}
            n["actions"].insert(rng.randrange(len(n["actions"]) + 1), a)
        elif which == "set_contact_channel":
            a = {"uuid": new_uuid(rng), "type": "set_contact_channel", "channel": {"uuid": new_uuid(rng), "name": "ch"}}
            n["actions"].insert(rng.randrange(len(n["actions"]) + 1), a)
        return c
    if which == "has_group_one_arg_other_operand":
        # a has_group case with the uuid only, outside a group split: there is no name to write
        cands = [n for n in switches if n["router"]["cases"] and n["router"]["operand"] != "@contact.groups"]
        if not cands:
            return None
        k = rng.choice(rng.choice(cands)["router"]["cases"])
        k["type"], k["arguments"] = "has_group", [c["groups"][0]["uuid"]]
        return c
    if which == "has_group_under_child_status":
        efs = [n for n in nodes if n["actions"] and n["actions"][0]["type"] == "enter_flow" and "router" in n]
        if not efs:
            return None
        g = c["groups"][0]
        rng.choice(efs)["router"]["cases"][0].update(type="has_group", arguments=[g["uuid"], g["name"]])
        return c
    if switches and which in ("has_phone_no_args", "has_group_one_arg", "group_split_without_cases"):
        n = rng.choice(switches)
        r = n["router"]
        if which == "group_split_without_cases":
            r["operand"] = "@contact.groups"
            r["cases"] = []
            r.pop("wait", None)
            cats = [x for x in r["categories"] if x["uuid"] == r["default_category_uuid"]]
            r["categories"] = cats
            return c
        if not r["cases"]:
            return None
        k = rng.choice(r["cases"])
        if which == "has_phone_no_args":
            k["type"], k["arguments"] = "has_phone", []
        else:
            r["operand"] = "@contact.groups"
            k["type"], k["arguments"] = "has_group", [c["groups"][0]["uuid"]]
        return c
    if which == "no_args_under_child_status":
        efs = [n for n in nodes if n["actions"] and n["actions"][0]["type"] == "enter_flow" and "router" in n]
        if efs:
            rng.choice(efs)["router"]["cases"][0].update(type="has_text", arguments=[])
            return c
    return None


def corner_group_case_under_other_operand(rng, cont):
    """has_group case in a router whose operand is not @contact.groups (not producible by the
    RapidPro editor; corner stream)."""
    c = copy.deepcopy(cont)
    for fl in c["flows"]:
        for n in fl["nodes"]:
            r = n.get("router")
            if r and r["type"] == "switch" and not n["actions"] and r["cases"] and r["operand"] != "@contact.groups":
                k = rng.choice(r["cases"])
                g = c["groups"][0]
                k["type"], k["arguments"] = "has_group", [g["uuid"], g["name"]]
                return c
    return None


# --------------------------------------------------------------------------- renaming
class Renamer:
    """Consistent renaming of the uuids of a container, directed by the RapidPro schema
    (positions, not string shapes).  `mode`: 'fresh' (new random uuids), 'permute' (a random
    permutation of the uuids already present), 'reverse' (the bijection that reverses the
    sorted order of the uuids present), 'near' (fresh uuids that differ in one block only), 'upper' (same uuids in upper case: a bijection whose
    images are not canonical uuid4 text)."""

    def __init__(self, rng, cont, mode="fresh"):
        self.map = {}
        self.rng = rng
        self.mode = mode
        olds = sorted(set(self.positions(cont)))
        if mode == "fresh":
            news = [new_uuid(rng) for _ in olds]
        elif mode == "permute":
            news = list(olds)
            rng.shuffle(news)
        elif mode == "reverse":
            news = list(reversed(olds))
        elif mode == "near":
            # distinct uuids that agree everywhere except in ONE of the five blocks (an export whose uuids differ only in
            # a counter): code that keys anything on a part of a uuid confuses them (seed C17-w6)
            base = new_uuid(rng).split("-")
            k = rng.randrange(5)
            news = []
            for i, _ in enumerate(olds):
                b = list(base)
                w = len(b[k])
                b[k] = format(i + 1, "0%dx" % w)[-w:]
                news.append("-".join(b))
        else:
            news = [o.upper() if o.upper() != o else new_uuid(rng) for o in olds]
        self.map = dict(zip(olds, news))

    @staticmethod
    def positions(cont):
        out = []
        Renamer._walk(cont, lambda u: (out.append(u), u)[1])
        return [u for u in out if u]

    def apply(self, cont):
        c = copy.deepcopy(cont)
        Renamer._walk(c, lambda u: self.map.get(u, u) if u else u)
        return c

    @staticmethod
    def _walk(c, f):
        for g in c.get("groups", []):
            if "uuid" in g:
                g["uuid"] = f(g["uuid"])
        for fl in c["flows"]:
            fl["uuid"] = f(fl["uuid"])
            ui = fl.get("_ui", {}).get("nodes")
            if ui is not None:
                fl["_ui"]["nodes"] = {f(k): v for k, v in ui.items()}
            for n in fl["nodes"]:
                n["uuid"] = f(n["uuid"])
                for e in n.get("exits", []):
                    e["uuid"] = f(e["uuid"])
                    if e.get("destination_uuid"):
                        e["destination_uuid"] = f(e["destination_uuid"])
                for a in n.get("actions", []):
                    a["uuid"] = f(a["uuid"])
                    for g in a.get("groups", []) if isinstance(a.get("groups"), list) else []:
                        if g.get("uuid"):
                            g["uuid"] = f(g["uuid"])
                    if isinstance(a.get("flow"), dict) and a["flow"].get("uuid"):
                        a["flow"]["uuid"] = f(a["flow"]["uuid"])
                    if isinstance(a.get("templating"), dict):
                        a["templating"]["uuid"] = f(a["templating"]["uuid"])
                r = n.get("router")
                if r:
                    for cat in r.get("categories", []):
                        cat["uuid"] = f(cat["uuid"])
                        cat["exit_uuid"] = f(cat["exit_uuid"])
                    for k in r.get("cases", []):
                        k["uuid"] = f(k["uuid"])
                        k["category_uuid"] = f(k["category_uuid"])
                        if k["type"] == "has_group" and k["arguments"]:
                            k["arguments"][0] = f(k["arguments"][0])
                    if "default_category_uuid" in r:
                        r["default_category_uuid"] = f(r["default_category_uuid"])
                    t = r.get("wait", {}).get("timeout")
                    if t and t.get("category_uuid"):
                        t["category_uuid"] = f(t["category_uuid"])
